//! C08 — decoding any bytes from the network returns a value or an error, never a crash (Kani part):
//! every byte string up to the stated size; absence of panic / out-of-bounds / arithmetic overflow is checked by
//! Kani's built-in assertions (dev profile), consumption consistency by explicit assertions.
use crate::vk_h;
use crate::wire::*;
use bytes::Bytes;
use scylla_cql::frame::types as t2;
use scylla_cql_core::frame::response::result::{ColumnType, NativeType};
use scylla_cql_core::frame::types as t1;
use scylla_cql_core::value::{Counter, CqlDate, CqlDecimal, CqlTime, CqlTimestamp, CqlTimeuuid, CqlVarint};
use std::net::IpAddr;
use uuid::Uuid;

/// arbitrary bytes with an arbitrary effective length 0..=N
macro_rules! any_input {
    ($buf:ident, $len:ident, $n:expr) => {
        let $buf: [u8; $n] = kani::any();
        let $len: usize = kani::any();
        kani::assume($len <= $n);
    };
}

/// run a reader on the input; on Ok the cursor moved forward inside the input, on Err nothing is said about the cursor
macro_rules! vk_reader {
    ($name:ident, $n:expr, $unwind:expr, $call:expr) => {
        vk_h!($name, $unwind, {
            any_input!(buf, len, $n);
            let mut cur: &[u8] = &buf[..len];
            let before = cur.len();
            match $call(&mut cur) {
                Ok(v) => {
                    assert!(cur.len() <= before, "cursor moved backwards");
                    std::mem::forget(v);
                }
                Err(e) => std::mem::forget(e),
            }
            kani::cover!(true, "reach_end");
        });
    };
}

// VK: prop=C08 tier=quick cap=600
// VK-funcs: scylla_cql_core::frame::types::{read_int, read_short, read_short_length, read_int_length}
// VK-bounds: every input of 0..=6 bytes (all bytes and the length symbolic)
// VK-out: inputs longer than the stated size; resource clauses (stack depth, allocation proportional to attacker-chosen counts: CBMC has no stack/heap-size model); HashMap-building parsers (SUPPORTED, custom payload, string multimap); LZ4/Snappy; async frame reader
vk_h!(c08_read_ints, 10, {
    any_input!(buf, len, 6);
    let mut c1: &[u8] = &buf[..len];
    match t1::read_int(&mut c1) {
        Ok(v) => assert!(len >= 4 && c1.len() == len - 4 && v == i32::from_be_bytes([buf[0], buf[1], buf[2], buf[3]])),
        Err(e) => { assert!(len < 4); std::mem::forget(e) }
    }
    let mut c2: &[u8] = &buf[..len];
    match t1::read_short(&mut c2) {
        Ok(v) => assert!(len >= 2 && c2.len() == len - 2 && v == u16::from_be_bytes([buf[0], buf[1]])),
        Err(e) => { assert!(len < 2); std::mem::forget(e) }
    }
    let mut c3: &[u8] = &buf[..len];
    match t1::read_int_length(&mut c3) {
        Ok(v) => assert!(len >= 4 && v <= i32::MAX as usize),
        Err(e) => std::mem::forget(e),
    }
    let mut c4: &[u8] = &buf[..len];
    match t1::read_short_length(&mut c4) {
        Ok(v) => assert!(len >= 2 && v <= u16::MAX as usize),
        Err(e) => std::mem::forget(e),
    }
    kani::cover!(true, "reach_end");
});

// VK: prop=C08 tier=quick cap=600
// VK-funcs: read_value, read_bytes_opt, read_short_bytes, read_raw_bytes (scylla_cql_core::frame::types)
// VK-bounds: every input of 0..=8 bytes: length prefixes incl. -1, -2, other negatives, lengths past the end
vk_h!(c08_read_value_and_bytes, 12, {
    any_input!(buf, len, 8);
    let mut c: &[u8] = &buf[..len];
    match t1::read_value(&mut c) {
        Ok(t1::RawValue::Value(v)) => {
            let n = i32::from_be_bytes([buf[0], buf[1], buf[2], buf[3]]);
            assert!(n >= 0 && v.len() == n as usize && c.len() == len - 4 - v.len(), "value slice does not match its length prefix");
        }
        Ok(t1::RawValue::Null) => assert!(i32::from_be_bytes([buf[0], buf[1], buf[2], buf[3]]) == -1),
        Ok(t1::RawValue::Unset) => assert!(i32::from_be_bytes([buf[0], buf[1], buf[2], buf[3]]) == -2),
        Err(e) => std::mem::forget(e),
    }
    let mut c: &[u8] = &buf[..len];
    match t1::read_bytes_opt(&mut c) {
        Ok(Some(v)) => assert!(c.len() == len - 4 - v.len()),
        Ok(None) => assert!(c.len() == len - 4),
        Err(e) => std::mem::forget(e),
    }
    let mut c: &[u8] = &buf[..len];
    match t1::read_short_bytes(&mut c) {
        Ok(v) => assert!(v.len() == u16::from_be_bytes([buf[0], buf[1]]) as usize && c.len() == len - 2 - v.len()),
        Err(e) => std::mem::forget(e),
    }
    kani::cover!(true, "reach_end");
});

fn strings_case<const L: usize>() {
    let buf: [u8; L] = kani::any();
    let len = L;
    let mut c: &[u8] = &buf[..];
    match t1::read_consistency(&mut c) {
        Ok(_) => assert!(c.len() == len - 2),
        Err(e) => std::mem::forget(e),
    }
    let mut c: &[u8] = &buf[..];
    match t2::read_bytes(&mut c) {
        Ok(v) => assert!(c.len() == len - 4 - v.len()),
        Err(e) => std::mem::forget(e),
    }
}
// VK: prop=C08 tier=quick cap=900
// VK-funcs: read_consistency (core), read_bytes (scylla-cql)
// VK-bounds: every input of exactly 1, 3, 5 bytes (unknown consistency codes, lengths past the end, negative lengths)
vk_h!(c08_read_consistency_bytes, 12, {
    strings_case::<1>();
    strings_case::<3>();
    strings_case::<5>();
    kani::cover!(true, "reach_end");
});
// VK: prop=C08 tier=thorough cap=1800
// VK-funcs: read_string (core), read_long_string (scylla-cql): length prefix + UTF-8 validation
// VK-bounds: read_string on every 3-byte input, read_long_string on every 5-byte input whose length prefix is <= 1 (longer prefixes fail the bounds check taken by c08_read_value_and_bytes); invalid UTF-8 included
vk_h!(c08_read_strings, 12, {
    let b3: [u8; 3] = kani::any();
    kani::assume(b3[0] == 0 && b3[1] <= 1);
    let mut c: &[u8] = &b3[..];
    match t1::read_string(&mut c) {
        Ok(s) => assert!(s.len() == b3[1] as usize && c.len() == 1 - s.len()),
        Err(e) => std::mem::forget(e),
    }
    let b5: [u8; 5] = kani::any();
    kani::assume(b5[0] == 0 && b5[1] == 0 && b5[2] == 0 && b5[3] <= 1);
    let mut c: &[u8] = &b5[..];
    match t2::read_long_string(&mut c) {
        Ok(s) => assert!(s.len() == b5[3] as usize && c.len() == 1 - s.len()),
        Err(e) => std::mem::forget(e),
    }
    kani::cover!(true, "reach_end");
});
fn uuid_case<const L: usize>() {
    let big: [u8; L] = kani::any();
    let mut c: &[u8] = &big[..];
    match t2::read_uuid(&mut c) {
        Ok(u) => assert!(L >= 16 && c.len() == L - 16 && u.as_bytes()[0] == big[0] && u.as_bytes()[15] == big[15]),
        Err(e) => { assert!(L < 16); std::mem::forget(e) }
    }
    let mut c: &[u8] = &big[..L.min(9)];
    match t2::read_long(&mut c) {
        Ok(_) => assert!(L.min(9) >= 8),
        Err(e) => std::mem::forget(e),
    }
}
// VK: prop=C08 tier=quick cap=900
// VK-funcs: read_uuid, read_long (scylla-cql frame::types)
// VK-bounds: inputs of exactly 0, 7, 15, 16, 17 bytes
vk_h!(c08_read_uuid_long, 22, {
    uuid_case::<0>();
    uuid_case::<7>();
    uuid_case::<15>();
    uuid_case::<16>();
    uuid_case::<17>();
    kani::cover!(true, "reach_end");
});

/// typed cell: deserialize on an arbitrary cell body of each listed (concrete) length must return a value or an error.
/// Lengths are concrete per case (a symbolic length makes CBMC explode); the bytes are fully symbolic.
fn cell_case<'a, T: scylla_cql_core::deserialize::value::DeserializeValue<'a, 'a>, const L: usize>(typ: &'a ColumnType<'a>, store: &'a mut Option<Bytes>) {
    let buf: [u8; L] = kani::any();
    *store = Some(Bytes::copy_from_slice(&buf));
    match try_de::<T>(typ, store.as_ref()) {
        Some(v) => std::mem::forget(v),
        None => {}
    }
}
macro_rules! vk_cell {
    ($name:ident, $t:ty, $nt:ident, [$($l:expr),*], $unwind:expr) => {
        vk_h!($name, $unwind, {
            let typ = ColumnType::Native(NativeType::$nt);
            $( { let mut st: Option<Bytes> = None; cell_case::<$t, $l>(&typ, &mut st); std::mem::forget(st); } )*
            // a null cell is an error for non-Option carriers, never a crash
            assert!(try_de::<$t>(&typ, None).is_none());
            kani::cover!(true, "reach_end");
        });
    };
}

// VK: prop=C08 tier=quick cap=600
// VK-funcs: <i32 as DeserializeValue>::deserialize (ensure_exact_length)
// VK-bounds: arbitrary int cell bodies of 0, 1, 3, 4, 5 bytes; null cell
vk_cell!(c08_cell_i32, i32, Int, [0, 1, 3, 4, 5], 12);
// VK: prop=C08 tier=quick cap=600
// VK-funcs: <i64 as DeserializeValue>::deserialize
// VK-bounds: arbitrary bigint cell bodies of 0, 4, 7, 8, 9 bytes
vk_cell!(c08_cell_i64, i64, BigInt, [0, 4, 7, 8, 9], 14);
// VK: prop=C08 tier=quick cap=600
// VK-funcs: <bool as DeserializeValue>::deserialize
// VK-bounds: arbitrary boolean cell bodies of 0, 1, 2 bytes
vk_cell!(c08_cell_bool, bool, Boolean, [0, 1, 2], 10);
// VK: prop=C08 tier=quick cap=600
// VK-funcs: <CqlTime as DeserializeValue>::deserialize (range check)
// VK-bounds: arbitrary time cell bodies of 0, 7, 8, 9 bytes (out-of-range nanoseconds included)
vk_cell!(c08_cell_time, CqlTime, Time, [0, 7, 8, 9], 14);
// VK: prop=C08 tier=quick cap=600
// VK-funcs: <CqlDate as DeserializeValue>::deserialize
// VK-bounds: arbitrary date cell bodies of 0, 3, 4, 5 bytes
vk_cell!(c08_cell_date, CqlDate, Date, [0, 3, 4, 5], 10);
// VK: prop=C08 tier=quick cap=600
// VK-funcs: <IpAddr as DeserializeValue>::deserialize
// VK-bounds: arbitrary inet cell bodies of 0, 3, 4, 5, 15, 16, 17 bytes
vk_cell!(c08_cell_inet, IpAddr, Inet, [0, 3, 4, 5, 15, 16, 17], 22);
// VK: prop=C08 tier=quick cap=600
// VK-funcs: <Uuid as DeserializeValue>::deserialize
// VK-bounds: arbitrary uuid cell bodies of 0, 15, 16, 17 bytes
vk_cell!(c08_cell_uuid, Uuid, Uuid, [0, 15, 16, 17], 22);
// VK: prop=C08 tier=quick cap=900
// VK-funcs: <&str as DeserializeValue>::deserialize (invalid UTF-8), check_ascii
// VK-bounds: arbitrary text cell bodies of 0, 1, 2 bytes (invalid UTF-8 included)
vk_cell!(c08_cell_text, &str, Text, [0, 1, 2], 10);
// VK: prop=C08 tier=quick cap=900
// VK-funcs: <&str as DeserializeValue>::deserialize on ascii (non-ASCII bytes)
// VK-bounds: arbitrary ascii cell bodies of 0, 1, 2 bytes
vk_cell!(c08_cell_ascii, &str, Ascii, [0, 1, 2], 10);
// VK: prop=C08 tier=quick cap=600
// VK-funcs: <CqlDecimal as DeserializeValue>::deserialize (body shorter than the 4-byte scale)
// VK-bounds: arbitrary decimal cell bodies of 0, 3, 4, 5 bytes
vk_cell!(c08_cell_decimal, CqlDecimal, Decimal, [0, 3, 4, 5], 12);
// VK: prop=C08 tier=quick cap=600
// VK-funcs: <CqlVarint as DeserializeValue>::deserialize
// VK-bounds: arbitrary varint cell bodies of 0, 1, 2 bytes
vk_cell!(c08_cell_varint, CqlVarint, Varint, [0, 1, 2], 10);

// VK: prop=C08 tier=quick cap=900
// VK-funcs: scylla_cql::frame::parse_response_body_extensions (tracing id, warnings list), types::read_uuid, read_string_list
// VK-bounds: flags = TRACING with any body of 0, 15, 16, 17 bytes; flags = 0 with any 3-byte body
// VK-assumes: compression bit clear (LZ4/Snappy are third-party loops); custom-payload bit clear (HashMap construction is not executable in CBMC); warning bit clear (Vec<String> collection)
fn ext_case<const L: usize>(flags: u8) {
    let buf: [u8; L] = kani::any();
    let body = Bytes::copy_from_slice(&buf);
    match scylla_cql::frame::parse_response_body_extensions(flags, None, body) {
        Ok(r) => {
            if flags & 0x02 != 0 {
                assert!(r.trace_id.is_some() && L >= 16, "trace id reported without 16 bytes of input");
            } else {
                assert!(r.trace_id.is_none());
            }
            assert!(r.body.len() <= L);
            std::mem::forget(r);
        }
        Err(e) => std::mem::forget(e),
    }
}
vk_h!(c08_body_extensions, 26, {
    ext_case::<0>(0x02);
    ext_case::<15>(0x02);
    ext_case::<16>(0x02);
    ext_case::<17>(0x02);
    ext_case::<3>(0x00);
    kani::cover!(true, "reach_end");
});
