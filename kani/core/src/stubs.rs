//! Environment stubs for the core harnesses (Kani `-Z stubbing`): std's word-at-a-time UTF-8 / ASCII scanners are
//! replaced by byte-at-a-time implementations of the same contract (RFC 3629 well-formedness), because CBMC does not
//! finish on the pointer-alignment tricks of the originals. Listed in every harness's VK-assumes.
use std::str::Utf8Error;

fn some_utf8_error() -> Utf8Error {
    // obtained from the real validator on a concrete ill-formed input, through a path that is not stubbed
    let mut bad = [0xffu8];
    match std::str::from_utf8_mut(&mut bad) {
        Err(e) => e,
        Ok(_) => unreachable!(),
    }
}

pub fn from_utf8(v: &[u8]) -> Result<&str, Utf8Error> {
    if crate::wire::valid_utf8(v) {
        Ok(unsafe { std::str::from_utf8_unchecked(v) })
    } else {
        Err(some_utf8_error())
    }
}

pub fn is_ascii(v: &[u8]) -> bool {
    let mut i = 0;
    while i < v.len() {
        if v[i] >= 0x80 {
            return false;
        }
        i += 1;
    }
    true
}

/// `ColumnType::clone` is reached, on the paths the C01/C17/C08 harnesses drive, only while *building error values*
/// (`got: typ.clone().into_owned()`); its recursion over the type tree is what CBMC cannot bound. The stub returns a
/// fixed leaf type, i.e. error values carry a wrong `got` type (never inspected by the harnesses).
pub fn column_type_clone<'a>(_t: &scylla_cql_core::frame::response::result::ColumnType<'a>) -> scylla_cql_core::frame::response::result::ColumnType<'a>
where
    'a: 'a,
{
    scylla_cql_core::frame::response::result::ColumnType::Native(scylla_cql_core::frame::response::result::NativeType::Blob)
}

/// Arc::drop_slow: leak instead of dropping the shared value. On the harness paths the only Arcs that can reach a zero
/// count are error values (`Arc<dyn Error>`); their drop glue walks the recursive ColumnType and is not the subject.
pub fn arc_drop_slow<T: ?Sized, A: std::alloc::Allocator>(_this: &mut std::sync::Arc<T, A>) {}
