//! Harnesses that exercise the runner itself (expected verdicts in the VK line).

// VK: prop=SELFTEST tier=selftest cap=20 expect=violated replayexp=True
#[kani::proof]
pub fn st_fail() {
    let v: u32 = kani::any();
    assert!(v != 77);
    kani::cover!(true, "reach_end");
}

// VK: prop=SELFTEST tier=selftest cap=20 expect=inconclusive
#[kani::proof]
pub fn st_vacuous() {
    let v: u32 = kani::any();
    kani::assume(v > 5 && v < 3);
    assert!(v != 77);
    kani::cover!(true, "reach_end");
}

// VK: prop=SELFTEST tier=selftest cap=20 expect=inconclusive
#[kani::proof]
#[kani::unwind(3)]
pub fn st_unwind_small() {
    let n: u8 = kani::any();
    let mut s = 0u32;
    for i in 0..n { s += i as u32; }
    assert!(s < 100000);
    kani::cover!(true, "reach_end");
}

// VK: prop=SELFTEST tier=selftest cap=10 expect=inconclusive
#[kani::proof]
pub fn st_timeout() {
    let a: u64 = kani::any();
    let b: u64 = kani::any();
    let c: u64 = kani::any();
    kani::assume(a > 1 && b > 1 && c > 1);
    kani::assume(a < (1 << 21) && b < (1 << 21) && c < (1 << 21));
    assert!(a * a * a + b * b * b != c * c * c);
    kani::cover!(true, "reach_end");
}
