use scylla_cql_core::deserialize::value::DeserializeValue;
use scylla_cql_core::deserialize::FrameSlice;
use scylla_cql_core::frame::response::result::{ColumnType, NativeType};
use scylla_cql_core::serialize::value::SerializeValue;
use scylla_cql_core::serialize::writers::CellWriter;

// VK: prop=C01 tier=quick cap=120
// VK-funcs: <i32 as SerializeValue>::serialize, CellWriter::set_value, <i32 as DeserializeValue>::{type_check,deserialize}
// VK-bounds: all 2^32 values; unwind 10
#[kani::proof]
#[kani::unwind(10)]
pub fn c01_i32_int() {
    let v: i32 = kani::any();
    let typ = ColumnType::Native(NativeType::Int);
    let mut buf: Vec<u8> = Vec::new();
    let r = SerializeValue::serialize(&v, &typ, CellWriter::new(&mut buf));
    assert!(r.is_ok());
    let be = v.to_be_bytes();
    assert!(buf.len() == 8);
    assert!(buf[0] == 0 && buf[1] == 0 && buf[2] == 0 && buf[3] == 4);
    assert!(buf[4] == be[0] && buf[5] == be[1] && buf[6] == be[2] && buf[7] == be[3]);
    let b = bytes::Bytes::copy_from_slice(&buf[4..]);
    let fs = FrameSlice::new(&b);
    assert!(<i32 as DeserializeValue>::type_check(&typ).is_ok());
    let back = <i32 as DeserializeValue>::deserialize(&typ, Some(fs));
    match back { Ok(x) => assert!(x == v), Err(_) => assert!(false) }
    kani::cover!(true, "reach_end");
}

// VK: prop=C01 tier=quick cap=120
// VK-funcs: <i64 as SerializeValue>::serialize, <i64 as DeserializeValue>::deserialize
// VK-bounds: all 2^64 values; unwind 10
#[kani::proof]
#[kani::unwind(10)]
pub fn c01_i64_bigint() {
    let v: i64 = kani::any();
    let typ = ColumnType::Native(NativeType::BigInt);
    let mut buf: Vec<u8> = Vec::new();
    let r = SerializeValue::serialize(&v, &typ, CellWriter::new(&mut buf));
    assert!(r.is_ok());
    assert!(buf.len() == 12);
    let b = bytes::Bytes::copy_from_slice(&buf[4..]);
    let fs = FrameSlice::new(&b);
    let back = <i64 as DeserializeValue>::deserialize(&typ, Some(fs));
    match back { Ok(x) => assert!(x == v), Err(_) => assert!(false) }
    kani::cover!(true, "reach_end");
}
