//! C01 — CQL value encoding conforms to the protocol and round-trips (Kani part).
use crate::wire::*;
use scylla_cql_core::frame::response::result::{ColumnType, NativeType};
use scylla_cql_core::value::{Counter, CqlDate, CqlTime, CqlTimestamp, CqlTimeuuid};
use std::net::{IpAddr, Ipv4Addr, Ipv6Addr};
use uuid::Uuid;

/// proof harness with the two error-path stubs every core harness uses (see stubs.rs):
/// ColumnType::clone -> leaf (only used to build error values), Arc::drop_slow -> leak (error values are never freed)
#[macro_export]
macro_rules! vk_h {
    ($name:ident, $unwind:expr, $body:block) => {
        #[kani::proof]
        #[kani::unwind($unwind)]
        #[kani::stub(<scylla_cql_core::frame::response::result::ColumnType as std::clone::Clone>::clone, crate::stubs::column_type_clone)]
        #[kani::stub(std::sync::Arc::drop_slow, crate::stubs::arc_drop_slow)]
        pub fn $name() $body
    };
}

/// native carrier: value -> bytes == spec, bytes -> value == original
macro_rules! vk_native {
    ($name:ident, $t:ty, $nt:ident, $mk:expr, $spec:expr, $eq:expr) => {
        #[kani::proof]
        #[kani::unwind(24)]
        #[kani::stub(<scylla_cql_core::frame::response::result::ColumnType as std::clone::Clone>::clone, crate::stubs::column_type_clone)]
        #[kani::stub(std::sync::Arc::drop_slow, crate::stubs::arc_drop_slow)]
        pub fn $name() {
            let v: $t = $mk;
            let typ = ColumnType::Native(NativeType::$nt);
            let buf = ser(&v, &typ);
            let payload: Vec<u8> = ($spec)(&v);
            assert!(same(&buf, &spec_cell(&payload)), "emitted bytes differ from the CQL v4 encoding");
            let b = body(&buf);
            let back: $t = de(&typ, b.as_ref());
            assert!(($eq)(&back, &v), "decoded value differs from the bound value");
            kani::cover!(true, "reach_end");
        }
    };
}

// VK: prop=C01 tier=quick cap=300
// VK-funcs: <i8 as SerializeValue>::serialize, CellWriter::set_value, <i8 as DeserializeValue>::{type_check,deserialize}
// VK-bounds: all 2^8 values; column type tinyint; unwind 20
// VK-out: third-party carriers (chrono/time/num-bigint/bigdecimal/secrecy), HashMap/HashSet carriers, strings > 3 bytes, collections > 2 elements, nesting > 2
vk_native!(c01_i8_tinyint, i8, TinyInt, kani::any(), |v: &i8| vec![*v as u8], |a: &i8, b: &i8| a == b);
// VK: prop=C01 tier=quick cap=300
// VK-funcs: i16 SerializeValue/DeserializeValue
// VK-bounds: all values; smallint
vk_native!(c01_i16_smallint, i16, SmallInt, kani::any(), |v: &i16| vec![(*v >> 8) as u8, *v as u8], |a: &i16, b: &i16| a == b);
// VK: prop=C01 tier=quick cap=300
// VK-funcs: i32 SerializeValue/DeserializeValue
// VK-bounds: all 2^32 values; int
vk_native!(c01_i32_int, i32, Int, kani::any(), |v: &i32| spec_i32(*v).to_vec(), |a: &i32, b: &i32| a == b);
fn spec_i64(v: i64) -> Vec<u8> {
    let mut out = Vec::new();
    let mut k = 0;
    while k < 8 {
        out.push((v >> (56 - 8 * k)) as u8);
        k += 1;
    }
    out
}
// VK: prop=C01 tier=quick cap=300
// VK-funcs: i64 SerializeValue/DeserializeValue
// VK-bounds: all 2^64 values; bigint
vk_native!(c01_i64_bigint, i64, BigInt, kani::any(), |v: &i64| spec_i64(*v), |a: &i64, b: &i64| a == b);
// VK: prop=C01 tier=quick cap=300
// VK-funcs: f32 SerializeValue/DeserializeValue
// VK-bounds: all 2^32 bit patterns incl. NaN payloads (compared by bits); float
vk_native!(c01_f32_float, f32, Float, f32::from_bits(kani::any()), |v: &f32| spec_i32(v.to_bits() as i32).to_vec(),
    |a: &f32, b: &f32| a.to_bits() == b.to_bits());
// VK: prop=C01 tier=quick cap=300
// VK-funcs: f64 SerializeValue/DeserializeValue
// VK-bounds: all 2^64 bit patterns incl. NaN payloads; double
vk_native!(c01_f64_double, f64, Double, f64::from_bits(kani::any()), |v: &f64| spec_i64(v.to_bits() as i64),
    |a: &f64, b: &f64| a.to_bits() == b.to_bits());
// VK: prop=C01 tier=quick cap=300
// VK-funcs: bool SerializeValue/DeserializeValue
// VK-bounds: both values; boolean
vk_native!(c01_bool_boolean, bool, Boolean, kani::any(), |v: &bool| vec![if *v { 1u8 } else { 0u8 }], |a: &bool, b: &bool| a == b);
// VK: prop=C01 tier=quick cap=300
// VK-funcs: Counter SerializeValue/DeserializeValue
// VK-bounds: all i64; counter
vk_native!(c01_counter, Counter, Counter, Counter(kani::any()), |v: &Counter| spec_i64(v.0), |a: &Counter, b: &Counter| a.0 == b.0);
// VK: prop=C01 tier=quick cap=300
// VK-funcs: CqlDate SerializeValue/DeserializeValue
// VK-bounds: all u32 (days since -5877641-06-23); date
vk_native!(c01_cqldate, CqlDate, Date, CqlDate(kani::any()), |v: &CqlDate| spec_i32(v.0 as i32).to_vec(), |a: &CqlDate, b: &CqlDate| a.0 == b.0);
// VK: prop=C01 tier=quick cap=300
// VK-funcs: CqlTimestamp SerializeValue/DeserializeValue
// VK-bounds: all i64; timestamp
vk_native!(c01_cqltimestamp, CqlTimestamp, Timestamp, CqlTimestamp(kani::any()), |v: &CqlTimestamp| spec_i64(v.0),
    |a: &CqlTimestamp, b: &CqlTimestamp| a.0 == b.0);
fn any_time() -> CqlTime {
    let n: i64 = kani::any();
    // a CQL time is nanoseconds since midnight
    kani::assume(n >= 0 && n < 86_400_000_000_000);
    CqlTime(n)
}
// VK: prop=C01 tier=quick cap=300
// VK-funcs: CqlTime SerializeValue/DeserializeValue
// VK-bounds: all nanoseconds-since-midnight values 0..86_400_000_000_000; time
vk_native!(c01_cqltime, CqlTime, Time, any_time(), |v: &CqlTime| spec_i64(v.0), |a: &CqlTime, b: &CqlTime| a.0 == b.0);
// VK: prop=C01 tier=quick cap=300
// VK-funcs: Uuid SerializeValue/DeserializeValue
// VK-bounds: all 16-byte values; uuid
vk_native!(c01_uuid, Uuid, Uuid, Uuid::from_bytes(kani::any()), |v: &Uuid| v.as_bytes().to_vec(), |a: &Uuid, b: &Uuid| a.as_bytes() == b.as_bytes());
// VK: prop=C01 tier=quick cap=300
// VK-funcs: CqlTimeuuid SerializeValue/DeserializeValue
// VK-bounds: all 16-byte values; timeuuid
vk_native!(c01_timeuuid, CqlTimeuuid, Timeuuid, CqlTimeuuid::from_bytes(kani::any()), |v: &CqlTimeuuid| v.as_bytes().to_vec(),
    |a: &CqlTimeuuid, b: &CqlTimeuuid| a.as_bytes() == b.as_bytes());
fn ip_bytes(v: &IpAddr) -> Vec<u8> {
    match v {
        IpAddr::V4(x) => x.octets().to_vec(),
        IpAddr::V6(x) => x.octets().to_vec(),
    }
}
fn ip_same(a: &IpAddr, b: &IpAddr) -> bool {
    match (a, b) {
        (IpAddr::V4(x), IpAddr::V4(y)) => x.octets() == y.octets(),
        (IpAddr::V6(x), IpAddr::V6(y)) => x.octets() == y.octets(),
        _ => false,
    }
}
// VK: prop=C01 tier=quick cap=300
// VK-funcs: IpAddr SerializeValue/DeserializeValue (IPv4)
// VK-bounds: all IPv4 addresses; inet
vk_native!(c01_inet_v4, IpAddr, Inet, IpAddr::V4(Ipv4Addr::from(kani::any::<[u8; 4]>())), ip_bytes, ip_same);
// VK: prop=C01 tier=quick cap=300
// VK-funcs: IpAddr SerializeValue/DeserializeValue (IPv6)
// VK-bounds: all IPv6 addresses incl. IPv4-mapped ones (must come back as V6); inet
vk_native!(c01_inet_v6, IpAddr, Inet, IpAddr::V6(Ipv6Addr::from(kani::any::<[u8; 16]>())), ip_bytes, ip_same);

// ------------------------------------------------------------------------------------------------
// strings, blobs, varint, decimal: concrete content length L, symbolic bytes
use bytes::Bytes;
use scylla_cql_core::value::{CqlDecimal, CqlValue, CqlVarint, MaybeEmpty, MaybeUnset, Unset};

fn text_rt<const L: usize>(ascii: bool) {
    let (s, arr) = any_string::<L>(ascii);
    let typ = ColumnType::Native(if ascii { NativeType::Ascii } else { NativeType::Text });
    let buf = ser(&s, &typ);
    assert!(same(&buf, &spec_cell(&arr)), "emitted bytes differ from the CQL v4 encoding");
    // &str carrier writes the same bytes
    let buf2 = ser(s.as_str(), &typ);
    assert!(same(&buf2, &buf));
    let b = body(&buf);
    let back: String = de(&typ, b.as_ref());
    assert!(same(back.as_bytes(), &arr), "decoded string differs");
    let back2: &str = de(&typ, b.as_ref());
    assert!(same(back2.as_bytes(), &arr));
    kani::cover!(true, "reach_end");
}
macro_rules! vk_text {
    ($name:ident, $l:expr, $ascii:expr) => {
        #[kani::proof]
        #[kani::unwind(12)]
        #[kani::stub(<scylla_cql_core::frame::response::result::ColumnType as std::clone::Clone>::clone, crate::stubs::column_type_clone)]
        #[kani::stub(std::sync::Arc::drop_slow, crate::stubs::arc_drop_slow)]
        pub fn $name() {
            text_rt::<$l>($ascii);
        }
    };
}
// VK: prop=C01 tier=quick cap=600
// VK-funcs: String/&str SerializeValue, String/&str DeserializeValue (text)
// VK-bounds: the empty string (zero-length cell)
vk_text!(c01_text_len0, 0, false);
// VK: prop=C01 tier=quick cap=600
// VK-funcs: String/&str SerializeValue/DeserializeValue (text)
// VK-bounds: every valid-UTF-8 string of 2 bytes (incl. one 2-byte scalar)
vk_text!(c01_text_len2, 2, false);
// VK: prop=C01 tier=thorough cap=1200
// VK-funcs: String/&str SerializeValue/DeserializeValue (text)
// VK-bounds: every valid-UTF-8 string of 3 bytes
vk_text!(c01_text_len3, 3, false);
// VK: prop=C01 tier=quick cap=600
// VK-funcs: String/&str SerializeValue/DeserializeValue (ascii)
// VK-bounds: every ASCII string of 2 bytes
vk_text!(c01_ascii_len2, 2, true);

fn blob_rt<const L: usize>() {
    let arr: [u8; L] = kani::any();
    let typ = ColumnType::Native(NativeType::Blob);
    let v: Vec<u8> = arr.to_vec();
    let buf = ser(&v, &typ);
    assert!(same(&buf, &spec_cell(&arr)), "emitted bytes differ from the CQL v4 encoding");
    assert!(same(&ser(&&arr[..], &typ), &buf), "&[u8] carrier differs");
    assert!(same(&ser(&arr, &typ), &buf), "[u8; N] carrier differs");
    assert!(same(&ser(&Bytes::copy_from_slice(&arr), &typ), &buf), "Bytes carrier differs");
    let b = body(&buf);
    let back: Vec<u8> = de(&typ, b.as_ref());
    assert!(same(&back, &arr), "decoded blob differs");
    let back2: &[u8] = de(&typ, b.as_ref());
    assert!(same(back2, &arr));
    let back3: Bytes = de(&typ, b.as_ref());
    assert!(same(&back3, &arr));
    kani::cover!(true, "reach_end");
}
// VK: prop=C01 tier=quick cap=600
// VK-funcs: Vec<u8>, &[u8], [u8;N], Bytes SerializeValue; Vec<u8>, &[u8], Bytes DeserializeValue (blob)
// VK-bounds: the empty blob (zero-length cell)
vk_h!(c01_blob_len0, 12, {
    blob_rt::<0>();
});
// VK: prop=C01 tier=quick cap=600
// VK-funcs: as c01_blob_len0
// VK-bounds: every blob of 3 bytes
vk_h!(c01_blob_len3, 12, {
    blob_rt::<3>();
});

fn varint_rt<const L: usize>() {
    let arr: [u8; L] = kani::any();
    let typ = ColumnType::Native(NativeType::Varint);
    let v = CqlVarint::from_signed_bytes_be_slice(&arr);
    let buf = ser(&v, &typ);
    // bytes supplied by the user are passed as they are (non-normalised forms such as 00 7f included)
    assert!(same(&buf, &spec_cell(&arr)), "emitted bytes differ from the CQL v4 encoding");
    let b = body(&buf);
    let back: CqlVarint = de(&typ, b.as_ref());
    assert!(same(back.as_signed_bytes_be_slice(), &arr), "decoded varint bytes differ");
    kani::cover!(true, "reach_end");
}
// VK: prop=C01 tier=quick cap=600
// VK-funcs: CqlVarint SerializeValue/DeserializeValue (varint)
// VK-bounds: every 1-byte varint
vk_h!(c01_varint_len1, 12, {
    varint_rt::<1>();
});
// VK: prop=C01 tier=quick cap=600
// VK-funcs: CqlVarint SerializeValue/DeserializeValue (varint)
// VK-bounds: every 3-byte varint incl. non-normalised encodings (00 00 7f, ff ff 80)
vk_h!(c01_varint_len3, 12, {
    varint_rt::<3>();
});

fn decimal_rt<const L: usize>() {
    let arr: [u8; L] = kani::any();
    let scale: i32 = kani::any();
    let typ = ColumnType::Native(NativeType::Decimal);
    let v = CqlDecimal::from_signed_be_bytes_slice_and_exponent(&arr, scale);
    let buf = ser(&v, &typ);
    let payload = cat(&[&spec_i32(scale), &arr]);
    assert!(same(&buf, &spec_cell(&payload)), "emitted bytes differ from the CQL v4 encoding (scale int32, then unscaled varint)");
    let b = body(&buf);
    let back: CqlDecimal = de(&typ, b.as_ref());
    let (bb, bs) = back.as_signed_be_bytes_slice_and_exponent();
    assert!(bs == scale && same(bb, &arr), "decoded decimal differs");
    kani::cover!(true, "reach_end");
}
// VK: prop=C01 tier=quick cap=600
// VK-funcs: CqlDecimal SerializeValue/DeserializeValue (decimal)
// VK-bounds: any i32 scale, every 2-byte unscaled value
vk_h!(c01_decimal_len2, 12, {
    decimal_rt::<2>();
});

// VK: prop=C01 tier=quick cap=600
// VK-funcs: Option<i32> SerializeValue/DeserializeValue, CellWriter::set_null
// VK-bounds: None / Some(any i32) on an int column
vk_h!(c01_option_int, 12, {
    // the two shapes run as separate straight-line flows (no merge of differently sized buffers)
    fn flow(o: Option<i32>) {
        let typ = ColumnType::Native(NativeType::Int);
        let buf = ser(&o, &typ);
        match o {
            Some(v) => assert!(same(&buf, &spec_cell(&spec_i32(v)))),
            None => assert!(same(&buf, &spec_null()), "null must be the length -1"),
        }
        let b = body(&buf);
        let back: Option<i32> = de(&typ, b.as_ref());
        assert!(back == o, "Option round trip differs");
    }
    flow(Some(kani::any()));
    flow(None);
    kani::cover!(true, "reach_end");
});

// VK: prop=C01 tier=quick cap=600
// VK-funcs: MaybeUnset<i32>, Unset SerializeValue, CellWriter::set_unset
// VK-bounds: Unset / Set(any i32) on an int column
vk_h!(c01_maybe_unset_int, 12, {
    let typ = ColumnType::Native(NativeType::Int);
    let x: i32 = kani::any();
    assert!(same(&ser(&MaybeUnset::Set(x), &typ), &spec_cell(&spec_i32(x))));
    assert!(same(&ser(&MaybeUnset::<i32>::Unset, &typ), &spec_unset()), "not-set must be the length -2");
    assert!(same(&ser(&Unset, &typ), &spec_unset()));
    kani::cover!(true, "reach_end");
});

// VK: prop=C01 tier=quick cap=600
// VK-funcs: MaybeEmpty<i32> SerializeValue/DeserializeValue, CqlValue::Empty SerializeValue, CqlValue DeserializeValue (empty cell)
// VK-bounds: Empty / Value(any i32) on an int column; CqlValue::Empty
vk_h!(c01_maybe_empty_int, 12, {
    let typ = ColumnType::Native(NativeType::Int);
    fn flow(e: MaybeEmpty<i32>) {
        let typ = ColumnType::Native(NativeType::Int);
        let bufe = ser(&e, &typ);
        match e {
            MaybeEmpty::Value(v) => assert!(same(&bufe, &spec_cell(&spec_i32(v)))),
            MaybeEmpty::Empty => assert!(same(&bufe, &spec_cell(&[])), "empty must be a zero-length cell"),
        }
        let be = body(&bufe);
        let backe: MaybeEmpty<i32> = de(&typ, be.as_ref());
        assert!(backe == e, "MaybeEmpty round trip differs");
    }
    flow(MaybeEmpty::Value(kani::any()));
    flow(MaybeEmpty::Empty);
    // dynamic value: CqlValue::Empty on an emptiable type
    let cv = CqlValue::Empty;
    let bufd = ser(&cv, &typ);
    assert!(same(&bufd, &spec_cell(&[])));
    let bd = body(&bufd);
    let backd: CqlValue = de(&typ, bd.as_ref());
    assert!(matches!(backd, CqlValue::Empty));
    std::mem::forget(backd);
    std::mem::forget(cv);
    kani::cover!(true, "reach_end");
});

// ------------------------------------------------------------------------------------------------
// collections, vectors, maps, tuples, nesting: concrete shapes, symbolic element values
use scylla_cql_core::frame::response::result::CollectionType;
use std::collections::BTreeMap;
use scylla_cql_core::deserialize::value::{ListlikeIterator, MapIterator, VectorIterator};

fn t_int() -> ColumnType<'static> {
    ColumnType::Native(NativeType::Int)
}
fn t_text() -> ColumnType<'static> {
    ColumnType::Native(NativeType::Text)
}
fn t_list(e: ColumnType<'static>) -> ColumnType<'static> {
    ColumnType::Collection { frozen: false, typ: CollectionType::List(Box::new(e)) }
}
fn t_set(e: ColumnType<'static>) -> ColumnType<'static> {
    ColumnType::Collection { frozen: false, typ: CollectionType::Set(Box::new(e)) }
}
fn t_map(k: ColumnType<'static>, v: ColumnType<'static>) -> ColumnType<'static> {
    ColumnType::Collection { frozen: false, typ: CollectionType::Map(Box::new(k), Box::new(v)) }
}
fn t_vector(e: ColumnType<'static>, d: u16) -> ColumnType<'static> {
    ColumnType::Vector { typ: Box::new(e), dimensions: d }
}
fn int_cell(v: i32) -> Vec<u8> {
    spec_cell(&spec_i32(v))
}

fn list_int<const N: usize>(as_set: bool) {
    let xs: [i32; N] = kani::any();
    let v: Vec<i32> = xs.to_vec();
    let typ = if as_set { t_set(t_int()) } else { t_list(t_int()) };
    let buf = ser(&v, &typ);
    // [int n] then n cells
    let mut payload = spec_i32(N as i32).to_vec();
    let mut i = 0;
    while i < N {
        payload = cat(&[&payload, &int_cell(xs[i])]);
        i += 1;
    }
    assert!(same(&buf, &spec_cell(&payload)), "emitted list/set bytes differ from the CQL v4 encoding");
    // slice carrier
    assert!(same(&ser(&xs[..], &typ), &buf));
    let b = body(&buf);
    // decoded through the lazy iterator carrier (Vec<T>'s collect machinery does not get through CBMC's symex)
    let mut it: ListlikeIterator<i32> = de(&typ, b.as_ref());
    let mut i = 0;
    while i < N {
        match it.next() {
            Some(Ok(v)) => assert!(v == xs[i], "decoded element differs"),
            Some(Err(e)) => {
                std::mem::forget(e);
                assert!(false, "decoding an element failed")
            }
            None => assert!(false, "decoded collection is too short"),
        }
        i += 1;
    }
    assert!(it.next().is_none(), "decoded collection is too long");
    std::mem::forget(typ);
    kani::cover!(true, "reach_end");
}
// VK: prop=C01 tier=quick cap=900
// VK-funcs: Vec<i32>/[i32] SerializeValue (serialize_sequence, CellValueBuilder length back-patch), Vec<i32> DeserializeValue (ListlikeIterator)
// VK-bounds: list<int> with 0 elements (empty collection)
vk_h!(c01_list_int_n0, 14, { list_int::<0>(false) });
// VK: prop=C01 tier=quick cap=900
// VK-funcs: as c01_list_int_n0
// VK-bounds: list<int> with 2 elements, any i32 values
vk_h!(c01_list_int_n2, 14, { list_int::<2>(false) });
// VK: prop=C01 tier=quick cap=900
// VK-funcs: as c01_list_int_n0 (set column)
// VK-bounds: set<int> with 1 element
vk_h!(c01_set_int_n1, 14, { list_int::<1>(true) });

// VK: prop=C01 tier=quick cap=900
// VK-funcs: Vec<i32> SerializeValue (serialize_vector, fixed-width elements without length prefix), Vec<i32> DeserializeValue (VectorIterator)
// VK-bounds: vector<int,2>, any i32 values
vk_h!(c01_vector_int_d2, 14, {
    let xs: [i32; 2] = kani::any();
    let typ = t_vector(t_int(), 2);
    let buf = ser(&xs.to_vec(), &typ);
    let payload = cat(&[&spec_i32(xs[0]), &spec_i32(xs[1])]);
    assert!(same(&buf, &spec_cell(&payload)), "vector<int,2> must be the two 4-byte values back to back");
    let b = body(&buf);
    let mut it: VectorIterator<i32> = de(&typ, b.as_ref());
    assert!(matches!(it.next(), Some(Ok(v)) if v == xs[0]));
    assert!(matches!(it.next(), Some(Ok(v)) if v == xs[1]));
    assert!(it.next().is_none());
    std::mem::forget(typ);
    kani::cover!(true, "reach_end");
});

fn vector_text<const L0: usize, const L1: usize>() {
    let (s0, a0) = any_string::<L0>(true);
    let (s1, a1) = any_string::<L1>(true);
    let typ = t_vector(t_text(), 2);
    let v = vec![s0, s1];
    let buf = ser(&v, &typ);
    // variable-width elements: unsigned vint length, then the bytes
    let payload = cat(&[&[L0 as u8], &a0, &[L1 as u8], &a1]);
    assert!(same(&buf, &spec_cell(&payload)), "vector<text,2> must be vint-length-prefixed elements");
    let b = body(&buf);
    let mut it: VectorIterator<&str> = de(&typ, b.as_ref());
    match it.next() {
        Some(Ok(s)) => assert!(same(s.as_bytes(), &a0), "first decoded element differs"),
        Some(Err(e)) => {
            std::mem::forget(e);
            assert!(false, "decoding the first element failed")
        }
        None => assert!(false, "decoded vector has the wrong dimension"),
    }
    match it.next() {
        Some(Ok(s)) => assert!(same(s.as_bytes(), &a1), "second decoded element differs"),
        Some(Err(e)) => {
            std::mem::forget(e);
            assert!(false, "decoding the second element failed")
        }
        None => assert!(false, "decoded vector has the wrong dimension"),
    }
    assert!(it.next().is_none());
    std::mem::forget(typ);
    std::mem::forget(v);
    kani::cover!(true, "reach_end");
}
// VK: prop=C01 tier=quick cap=900
// VK-funcs: Vec<String> SerializeValue (serialize_vector, serialize_next_variable_length_elem, unsigned_vint_encode), Vec<String> DeserializeValue (VectorIterator, unsigned_vint_decode)
// VK-bounds: vector<text,2>, elements of 1 and 2 ASCII bytes
vk_h!(c01_vector_text_l1_l2, 14, { vector_text::<1, 2>() });
// VK: prop=C01 tier=quick cap=900
// VK-funcs: as c01_vector_text_l1_l2
// VK-bounds: vector<text,2> whose LAST element is the empty string (zero-length element at the end of the cell)
vk_h!(c01_vector_text_l1_l0, 14, { vector_text::<1, 0>() });
// VK: prop=C01 tier=quick cap=900
// VK-funcs: as c01_vector_text_l1_l2
// VK-bounds: vector<text,2> whose FIRST element is the empty string
vk_h!(c01_vector_text_l0_l1, 14, { vector_text::<0, 1>() });

fn vector_blob_len<const L: usize>() {
    // content is irrelevant for the length prefix: one symbolic byte repeated
    let x: u8 = kani::any();
    let elem = vec![x; L];
    let typ = t_vector(ColumnType::Native(NativeType::Blob), 1);
    let v = vec![elem];
    let buf = ser(&v, &typ);
    // Cassandra unsigned vint of L (L < 16384): 1 byte below 128, else 0x80|(L>>8), L&0xff
    let prefix: Vec<u8> = if L < 128 { vec![L as u8] } else { vec![0x80 | (L >> 8) as u8, (L & 0xff) as u8] };
    assert!(buf.len() == 4 + prefix.len() + L, "wrong total size for a vint-prefixed element");
    let mut i = 0;
    while i < prefix.len() {
        assert!(buf[4 + i] == prefix[i], "element length is not the Cassandra unsigned vint of the byte length");
        i += 1;
    }
    assert!(buf[4 + prefix.len()] == x && buf[buf.len() - 1] == x);
    let b = body(&buf);
    let mut it: VectorIterator<&[u8]> = de(&typ, b.as_ref());
    match it.next() {
        Some(Ok(e)) => assert!(e.len() == L && e[0] == x && e[L - 1] == x, "decoded element differs"),
        Some(Err(e)) => {
            std::mem::forget(e);
            assert!(false, "decoding the element failed")
        }
        None => assert!(false),
    }
    assert!(it.next().is_none());
    std::mem::forget(typ);
    std::mem::forget(v);
    kani::cover!(true, "reach_end");
}
// VK: prop=C01 tier=quick cap=900
// VK-funcs: serialize_next_variable_length_elem, unsigned_vint_encode/decode through Vec<Vec<u8>> on vector<blob,1>
// VK-bounds: element byte length 127 (largest 1-byte vint), content = one symbolic byte repeated; unwind 135
vk_h!(c01_vector_blob_len127, 135, { vector_blob_len::<127>() });
// VK: prop=C01 tier=quick cap=900
// VK-funcs: as c01_vector_blob_len127
// VK-bounds: element byte length 128 (smallest 2-byte vint); unwind 135
vk_h!(c01_vector_blob_len128, 135, { vector_blob_len::<128>() });

// VK: prop=C01 tier=quick cap=900
// VK-funcs: BTreeMap<i32,i32> SerializeValue (serialize_mapping), BTreeMap<i32,i32> DeserializeValue (MapIterator)
// VK-bounds: map<int,int> with 1 entry, any key/value
vk_h!(c01_map_int_int_n1, 14, {
    let k: i32 = kani::any();
    let v: i32 = kani::any();
    let typ = t_map(t_int(), t_int());
    let mut m = BTreeMap::new();
    m.insert(k, v);
    let buf = ser(&m, &typ);
    let payload = cat(&[&spec_i32(1), &int_cell(k), &int_cell(v)]);
    assert!(same(&buf, &spec_cell(&payload)), "emitted map bytes differ from the CQL v4 encoding");
    let b = body(&buf);
    let mut it: MapIterator<i32, i32> = de(&typ, b.as_ref());
    assert!(matches!(it.next(), Some(Ok((a, c))) if a == k && c == v), "decoded entry differs");
    assert!(it.next().is_none());
    std::mem::forget(typ);
    std::mem::forget(m);
    kani::cover!(true, "reach_end");
});

// VK: prop=C01 tier=quick cap=900
// VK-funcs: (i32, String) SerializeValue (impl_tuple), (i32, String) and (i32, String, Option<i32>) DeserializeValue
// VK-bounds: Rust tuple of arity 2 against tuple<int,text> (exact) and tuple<int,text,int> (shorter than the type: missing field must read back as null); text of 1 ASCII byte
vk_h!(c01_tuple_int_text_short, 14, {
    let x: i32 = kani::any();
    let (s, a) = any_string::<1>(true);
    let t2 = ColumnType::Tuple(vec![t_int(), t_text()]);
    let t3 = ColumnType::Tuple(vec![t_int(), t_text(), t_int()]);
    let val = (x, s);
    let payload = cat(&[&int_cell(x), &spec_cell(&a)]);
    let buf2 = ser(&val, &t2);
    assert!(same(&buf2, &spec_cell(&payload)), "emitted tuple bytes differ from the CQL v4 encoding");
    let b2 = body(&buf2);
    let back2: (i32, &str) = de(&t2, b2.as_ref());
    assert!(back2.0 == x && same(back2.1.as_bytes(), &a));
    // fewer fields than the type: only the given fields are written, the rest reads back as null
    let buf3 = ser(&val, &t3);
    assert!(same(&buf3, &spec_cell(&payload)));
    let b3 = body(&buf3);
    let back3: (i32, &str, Option<i32>) = de(&t3, b3.as_ref());
    assert!(back3.0 == x && same(back3.1.as_bytes(), &a) && back3.2.is_none(), "short tuple must come back padded with null");
    std::mem::forget((t2, t3, val));
    kani::cover!(true, "reach_end");
});

// VK: prop=C01 tier=quick cap=900
// VK-funcs: CqlValue::Tuple SerializeValue (serialize_cql_value, serialize_tuple_like), CqlValue DeserializeValue for tuple types
// VK-bounds: CqlValue::Tuple [Some(Int x), None] and the short [Some(Int x)] against tuple<int,int>; decoded value is padded with None
vk_h!(c01_cqlvalue_tuple_nulls, 14, {
    let x: i32 = kani::any();
    let typ = ColumnType::Tuple(vec![t_int(), t_int()]);
    let full = CqlValue::Tuple(vec![Some(CqlValue::Int(x)), None]);
    let buf = ser(&full, &typ);
    assert!(same(&buf, &spec_cell(&cat(&[&int_cell(x), &spec_null()]))), "null inside a tuple must be a -1 length cell");
    let b = body(&buf);
    let back: CqlValue = de(&typ, b.as_ref());
    match &back {
        CqlValue::Tuple(v) => {
            assert!(v.len() == 2);
            assert!(matches!(v[0], Some(CqlValue::Int(y)) if y == x));
            assert!(v[1].is_none());
        }
        _ => assert!(false, "decoded value is not a tuple"),
    }
    let short = CqlValue::Tuple(vec![Some(CqlValue::Int(x))]);
    let bufs = ser(&short, &typ);
    assert!(same(&bufs, &spec_cell(&int_cell(x))));
    let bs = body(&bufs);
    let backs: CqlValue = de(&typ, bs.as_ref());
    match &backs {
        CqlValue::Tuple(v) => {
            assert!(v.len() == 2, "short tuple must be padded to the type's arity");
            assert!(matches!(v[0], Some(CqlValue::Int(y)) if y == x) && v[1].is_none());
        }
        _ => assert!(false, "decoded value is not a tuple"),
    }
    std::mem::forget((typ, full, back, short, backs));
    kani::cover!(true, "reach_end");
});

// VK: prop=C01 tier=quick cap=1200
// VK-funcs: Vec<(i32, Option<String>)> SerializeValue / DeserializeValue: nested length back-patch of a tuple inside a list cell
// VK-bounds: list<tuple<int,text>> with 1 element whose text field is null; and with a 1-byte text
vk_h!(c01_nested_list_of_tuple, 14, {
    let x: i32 = kani::any();
    let typ = t_list(ColumnType::Tuple(vec![t_int(), t_text()]));
    let v: Vec<(i32, Option<String>)> = vec![(x, None)];
    let buf = ser(&v, &typ);
    let tuple_body = cat(&[&int_cell(x), &spec_null()]);
    let payload = cat(&[&spec_i32(1), &spec_cell(&tuple_body)]);
    assert!(same(&buf, &spec_cell(&payload)), "nested tuple cell inside a list has the wrong bytes / lengths");
    let b = body(&buf);
    let mut it: ListlikeIterator<(i32, Option<&str>)> = de(&typ, b.as_ref());
    assert!(matches!(it.next(), Some(Ok((a, None))) if a == x), "decoded nested tuple differs");
    assert!(it.next().is_none());
    std::mem::forget((typ, v));
    kani::cover!(true, "reach_end");
});

// VK: prop=C01 tier=quick cap=1200
// VK-funcs: BTreeMap<i32, Vec<i32>> SerializeValue / DeserializeValue (map<int, list<int>>)
// VK-bounds: 1 entry whose value is a 1-element list
vk_h!(c01_nested_map_of_list, 14, {
    let k: i32 = kani::any();
    let e: i32 = kani::any();
    let typ = t_map(t_int(), t_list(t_int()));
    let mut m: BTreeMap<i32, Vec<i32>> = BTreeMap::new();
    m.insert(k, vec![e]);
    let buf = ser(&m, &typ);
    let inner = cat(&[&spec_i32(1), &int_cell(e)]);
    let payload = cat(&[&spec_i32(1), &int_cell(k), &spec_cell(&inner)]);
    assert!(same(&buf, &spec_cell(&payload)), "map<int,list<int>> bytes differ from the CQL v4 encoding");
    let b = body(&buf);
    let mut it: MapIterator<i32, ListlikeIterator<i32>> = de(&typ, b.as_ref());
    match it.next() {
        Some(Ok((a, mut l))) => {
            assert!(a == k);
            assert!(matches!(l.next(), Some(Ok(y)) if y == e));
            assert!(l.next().is_none());
        }
        _ => assert!(false, "decoded map entry differs"),
    }
    assert!(it.next().is_none());
    std::mem::forget((typ, m));
    kani::cover!(true, "reach_end");
});

// VK: prop=C01 tier=thorough cap=1800
// VK-funcs: Vec<Vec<i32>> SerializeValue / DeserializeValue (vector<vector<int,2>,2>: fixed-width nested vectors)
// VK-bounds: 2x2 any i32
vk_h!(c01_nested_vector_of_vector, 14, {
    let xs: [i32; 4] = kani::any();
    let typ = t_vector(t_vector(t_int(), 2), 2);
    let v = vec![vec![xs[0], xs[1]], vec![xs[2], xs[3]]];
    let buf = ser(&v, &typ);
    let payload = cat(&[&spec_i32(xs[0]), &spec_i32(xs[1]), &spec_i32(xs[2]), &spec_i32(xs[3])]);
    assert!(same(&buf, &spec_cell(&payload)), "vector<vector<int,2>,2> must be 16 bytes of values");
    let b = body(&buf);
    let mut it: VectorIterator<VectorIterator<i32>> = de(&typ, b.as_ref());
    let mut k = 0;
    while k < 2 {
        match it.next() {
            Some(Ok(mut inner)) => {
                assert!(matches!(inner.next(), Some(Ok(y)) if y == xs[2 * k]));
                assert!(matches!(inner.next(), Some(Ok(y)) if y == xs[2 * k + 1]));
                assert!(inner.next().is_none());
            }
            _ => assert!(false, "decoded nested vector differs"),
        }
        k += 1;
    }
    assert!(it.next().is_none());
    std::mem::forget((typ, v));
    kani::cover!(true, "reach_end");
});

// ---- split form: ser == spec  and  de(spec) == value, as separate obligations
vk_h!(dbgx_list2_ser, 40, {
    let xs: [i32; 2] = kani::any();
    let typ = t_list(t_int());
    let buf = ser(&xs.to_vec(), &typ);
    let payload = cat(&[&spec_i32(2), &int_cell(xs[0]), &int_cell(xs[1])]);
    assert!(same(&buf, &spec_cell(&payload)));
    std::mem::forget(typ);
    kani::cover!(true, "reach_end");
});
vk_h!(dbgx_list2_de, 40, {
    let xs: [i32; 2] = kani::any();
    let typ = t_list(t_int());
    let payload = cat(&[&spec_i32(2), &int_cell(xs[0]), &int_cell(xs[1])]);
    let b = Bytes::copy_from_slice(&payload);
    let mut it: ListlikeIterator<i32> = de(&typ, Some(&b));
    assert!(matches!(it.next(), Some(Ok(v)) if v == xs[0]));
    assert!(matches!(it.next(), Some(Ok(v)) if v == xs[1]));
    assert!(it.next().is_none());
    std::mem::forget(typ);
    kani::cover!(true, "reach_end");
});
vk_h!(dbgx_vtext_de, 40, {
    let (_s0, a0) = any_string::<1>(true);
    let typ = t_vector(t_text(), 2);
    let payload = cat(&[&[1u8], &a0, &[0u8]]);
    let b = Bytes::copy_from_slice(&payload);
    let mut it: VectorIterator<&str> = de(&typ, Some(&b));
    assert!(matches!(it.next(), Some(Ok(s)) if same(s.as_bytes(), &a0)));
    assert!(matches!(it.next(), Some(Ok(s)) if s.is_empty()), "empty last element must decode as an empty string");
    assert!(it.next().is_none());
    std::mem::forget(typ);
    kani::cover!(true, "reach_end");
});
