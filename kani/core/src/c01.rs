//! C01 — CQL value encoding conforms to the protocol and round-trips (Kani part).
use crate::wire::*;
use scylla_cql_core::frame::response::result::{ColumnType, NativeType};
use scylla_cql_core::value::{Counter, CqlDate, CqlTime, CqlTimestamp, CqlTimeuuid};
use std::net::{IpAddr, Ipv4Addr, Ipv6Addr};
use uuid::Uuid;

/// proof harness with the two error-path stubs every core harness uses (see stubs.rs):
/// ColumnType::clone -> leaf (only used to build error values), Arc::drop_slow -> leak (error values are never freed)
#[macro_export]
macro_rules! vk_h {
    ($name:ident, $unwind:expr, $body:block) => {
        #[kani::proof]
        #[kani::unwind($unwind)]
        #[kani::stub(<scylla_cql_core::frame::response::result::ColumnType as std::clone::Clone>::clone, crate::stubs::column_type_clone)]
        #[kani::stub(std::sync::Arc::drop_slow, crate::stubs::arc_drop_slow)]
        pub fn $name() $body
    };
}

/// native carrier: value -> bytes == spec, bytes -> value == original
macro_rules! vk_native {
    ($name:ident, $t:ty, $nt:ident, $mk:expr, $spec:expr, $eq:expr) => {
        #[kani::proof]
        #[kani::unwind(24)]
        #[kani::stub(<scylla_cql_core::frame::response::result::ColumnType as std::clone::Clone>::clone, crate::stubs::column_type_clone)]
        #[kani::stub(std::sync::Arc::drop_slow, crate::stubs::arc_drop_slow)]
        pub fn $name() {
            let v: $t = $mk;
            let typ = ColumnType::Native(NativeType::$nt);
            let buf = ser(&v, &typ);
            let payload: Vec<u8> = ($spec)(&v);
            assert!(same(&buf, &spec_cell(&payload)), "emitted bytes differ from the CQL v4 encoding");
            let b = body(&buf);
            let back: $t = de(&typ, b.as_ref());
            assert!(($eq)(&back, &v), "decoded value differs from the bound value");
            kani::cover!(true, "reach_end");
        }
    };
}

// VK: prop=C01 tier=quick cap=300
// VK-funcs: <i8 as SerializeValue>::serialize, CellWriter::set_value, <i8 as DeserializeValue>::{type_check,deserialize}
// VK-bounds: all 2^8 values; column type tinyint; unwind 20
// VK-out: third-party carriers (chrono/time/num-bigint/bigdecimal/secrecy), HashMap/HashSet carriers, strings > 3 bytes, collections > 2 elements, nesting > 2
vk_native!(c01_i8_tinyint, i8, TinyInt, kani::any(), |v: &i8| vec![*v as u8], |a: &i8, b: &i8| a == b);
// VK: prop=C01 tier=quick cap=300
// VK-funcs: i16 SerializeValue/DeserializeValue
// VK-bounds: all values; smallint
vk_native!(c01_i16_smallint, i16, SmallInt, kani::any(), |v: &i16| vec![(*v >> 8) as u8, *v as u8], |a: &i16, b: &i16| a == b);
// VK: prop=C01 tier=quick cap=300
// VK-funcs: i32 SerializeValue/DeserializeValue
// VK-bounds: all 2^32 values; int
vk_native!(c01_i32_int, i32, Int, kani::any(), |v: &i32| spec_i32(*v).to_vec(), |a: &i32, b: &i32| a == b);
fn spec_i64(v: i64) -> Vec<u8> {
    let mut out = Vec::new();
    let mut k = 0;
    while k < 8 {
        out.push((v >> (56 - 8 * k)) as u8);
        k += 1;
    }
    out
}
// VK: prop=C01 tier=quick cap=300
// VK-funcs: i64 SerializeValue/DeserializeValue
// VK-bounds: all 2^64 values; bigint
vk_native!(c01_i64_bigint, i64, BigInt, kani::any(), |v: &i64| spec_i64(*v), |a: &i64, b: &i64| a == b);
// VK: prop=C01 tier=quick cap=300
// VK-funcs: f32 SerializeValue/DeserializeValue
// VK-bounds: all 2^32 bit patterns incl. NaN payloads (compared by bits); float
vk_native!(c01_f32_float, f32, Float, f32::from_bits(kani::any()), |v: &f32| spec_i32(v.to_bits() as i32).to_vec(),
    |a: &f32, b: &f32| a.to_bits() == b.to_bits());
// VK: prop=C01 tier=quick cap=300
// VK-funcs: f64 SerializeValue/DeserializeValue
// VK-bounds: all 2^64 bit patterns incl. NaN payloads; double
vk_native!(c01_f64_double, f64, Double, f64::from_bits(kani::any()), |v: &f64| spec_i64(v.to_bits() as i64),
    |a: &f64, b: &f64| a.to_bits() == b.to_bits());
// VK: prop=C01 tier=quick cap=300
// VK-funcs: bool SerializeValue/DeserializeValue
// VK-bounds: both values; boolean
vk_native!(c01_bool_boolean, bool, Boolean, kani::any(), |v: &bool| vec![if *v { 1u8 } else { 0u8 }], |a: &bool, b: &bool| a == b);
// VK: prop=C01 tier=quick cap=300
// VK-funcs: Counter SerializeValue/DeserializeValue
// VK-bounds: all i64; counter
vk_native!(c01_counter, Counter, Counter, Counter(kani::any()), |v: &Counter| spec_i64(v.0), |a: &Counter, b: &Counter| a.0 == b.0);
// VK: prop=C01 tier=quick cap=300
// VK-funcs: CqlDate SerializeValue/DeserializeValue
// VK-bounds: all u32 (days since -5877641-06-23); date
vk_native!(c01_cqldate, CqlDate, Date, CqlDate(kani::any()), |v: &CqlDate| spec_i32(v.0 as i32).to_vec(), |a: &CqlDate, b: &CqlDate| a.0 == b.0);
// VK: prop=C01 tier=quick cap=300
// VK-funcs: CqlTimestamp SerializeValue/DeserializeValue
// VK-bounds: all i64; timestamp
vk_native!(c01_cqltimestamp, CqlTimestamp, Timestamp, CqlTimestamp(kani::any()), |v: &CqlTimestamp| spec_i64(v.0),
    |a: &CqlTimestamp, b: &CqlTimestamp| a.0 == b.0);
fn any_time() -> CqlTime {
    let n: i64 = kani::any();
    // a CQL time is nanoseconds since midnight
    kani::assume(n >= 0 && n < 86_400_000_000_000);
    CqlTime(n)
}
// VK: prop=C01 tier=quick cap=300
// VK-funcs: CqlTime SerializeValue/DeserializeValue
// VK-bounds: all nanoseconds-since-midnight values 0..86_400_000_000_000; time
vk_native!(c01_cqltime, CqlTime, Time, any_time(), |v: &CqlTime| spec_i64(v.0), |a: &CqlTime, b: &CqlTime| a.0 == b.0);
// VK: prop=C01 tier=quick cap=300
// VK-funcs: Uuid SerializeValue/DeserializeValue
// VK-bounds: all 16-byte values; uuid
vk_native!(c01_uuid, Uuid, Uuid, Uuid::from_bytes(kani::any()), |v: &Uuid| v.as_bytes().to_vec(), |a: &Uuid, b: &Uuid| a.as_bytes() == b.as_bytes());
// VK: prop=C01 tier=quick cap=300
// VK-funcs: CqlTimeuuid SerializeValue/DeserializeValue
// VK-bounds: all 16-byte values; timeuuid
vk_native!(c01_timeuuid, CqlTimeuuid, Timeuuid, CqlTimeuuid::from_bytes(kani::any()), |v: &CqlTimeuuid| v.as_bytes().to_vec(),
    |a: &CqlTimeuuid, b: &CqlTimeuuid| a.as_bytes() == b.as_bytes());
fn ip_bytes(v: &IpAddr) -> Vec<u8> {
    match v {
        IpAddr::V4(x) => x.octets().to_vec(),
        IpAddr::V6(x) => x.octets().to_vec(),
    }
}
fn ip_same(a: &IpAddr, b: &IpAddr) -> bool {
    match (a, b) {
        (IpAddr::V4(x), IpAddr::V4(y)) => x.octets() == y.octets(),
        (IpAddr::V6(x), IpAddr::V6(y)) => x.octets() == y.octets(),
        _ => false,
    }
}
// VK: prop=C01 tier=quick cap=300
// VK-funcs: IpAddr SerializeValue/DeserializeValue (IPv4)
// VK-bounds: all IPv4 addresses; inet
vk_native!(c01_inet_v4, IpAddr, Inet, IpAddr::V4(Ipv4Addr::from(kani::any::<[u8; 4]>())), ip_bytes, ip_same);
// VK: prop=C01 tier=quick cap=300
// VK-funcs: IpAddr SerializeValue/DeserializeValue (IPv6)
// VK-bounds: all IPv6 addresses incl. IPv4-mapped ones (must come back as V6); inet
vk_native!(c01_inet_v6, IpAddr, Inet, IpAddr::V6(Ipv6Addr::from(kani::any::<[u8; 16]>())), ip_bytes, ip_same);

// ------------------------------------------------------------------------------------------------
// strings, blobs, varint, decimal: concrete content length L, symbolic bytes
use bytes::Bytes;
use scylla_cql_core::value::{CqlDecimal, CqlValue, CqlVarint, MaybeEmpty, MaybeUnset, Unset};

fn text_rt<const L: usize>(ascii: bool) {
    let (s, arr) = any_string::<L>(ascii);
    let typ = ColumnType::Native(if ascii { NativeType::Ascii } else { NativeType::Text });
    let buf = ser(&s, &typ);
    assert!(same(&buf, &spec_cell(&arr)), "emitted bytes differ from the CQL v4 encoding");
    // &str carrier writes the same bytes
    let buf2 = ser(s.as_str(), &typ);
    assert!(same(&buf2, &buf));
    let b = body(&buf);
    let back: String = de(&typ, b.as_ref());
    assert!(same(back.as_bytes(), &arr), "decoded string differs");
    let back2: &str = de(&typ, b.as_ref());
    assert!(same(back2.as_bytes(), &arr));
    kani::cover!(true, "reach_end");
}
macro_rules! vk_text {
    ($name:ident, $l:expr, $ascii:expr) => {
        #[kani::proof]
        #[kani::unwind(12)]
        #[kani::stub(<scylla_cql_core::frame::response::result::ColumnType as std::clone::Clone>::clone, crate::stubs::column_type_clone)]
        #[kani::stub(std::sync::Arc::drop_slow, crate::stubs::arc_drop_slow)]
        pub fn $name() {
            text_rt::<$l>($ascii);
        }
    };
}
// VK: prop=C01 tier=quick cap=600
// VK-funcs: String/&str SerializeValue, String/&str DeserializeValue (text)
// VK-bounds: the empty string (zero-length cell)
vk_text!(c01_text_len0, 0, false);
// VK: prop=C01 tier=quick cap=600
// VK-funcs: String/&str SerializeValue/DeserializeValue (text)
// VK-bounds: every valid-UTF-8 string of 2 bytes (incl. one 2-byte scalar)
vk_text!(c01_text_len2, 2, false);
// VK: prop=C01 tier=thorough cap=1200
// VK-funcs: String/&str SerializeValue/DeserializeValue (text)
// VK-bounds: every valid-UTF-8 string of 3 bytes
vk_text!(c01_text_len3, 3, false);
// VK: prop=C01 tier=quick cap=600
// VK-funcs: String/&str SerializeValue/DeserializeValue (ascii)
// VK-bounds: every ASCII string of 2 bytes
vk_text!(c01_ascii_len2, 2, true);

fn blob_rt<const L: usize>() {
    let arr: [u8; L] = kani::any();
    let typ = ColumnType::Native(NativeType::Blob);
    let v: Vec<u8> = arr.to_vec();
    let buf = ser(&v, &typ);
    assert!(same(&buf, &spec_cell(&arr)), "emitted bytes differ from the CQL v4 encoding");
    assert!(same(&ser(&&arr[..], &typ), &buf), "&[u8] carrier differs");
    assert!(same(&ser(&arr, &typ), &buf), "[u8; N] carrier differs");
    assert!(same(&ser(&Bytes::copy_from_slice(&arr), &typ), &buf), "Bytes carrier differs");
    let b = body(&buf);
    let back: Vec<u8> = de(&typ, b.as_ref());
    assert!(same(&back, &arr), "decoded blob differs");
    let back2: &[u8] = de(&typ, b.as_ref());
    assert!(same(back2, &arr));
    let back3: Bytes = de(&typ, b.as_ref());
    assert!(same(&back3, &arr));
    kani::cover!(true, "reach_end");
}
// VK: prop=C01 tier=quick cap=600
// VK-funcs: Vec<u8>, &[u8], [u8;N], Bytes SerializeValue; Vec<u8>, &[u8], Bytes DeserializeValue (blob)
// VK-bounds: the empty blob (zero-length cell)
vk_h!(c01_blob_len0, 12, {
    blob_rt::<0>();
});
// VK: prop=C01 tier=thorough cap=2400
// VK-funcs: as c01_blob_len0
// VK-bounds: every blob of 3 bytes
vk_h!(c01_blob_len3, 12, {
    blob_rt::<3>();
});

fn varint_rt<const L: usize>() {
    let arr: [u8; L] = kani::any();
    let typ = ColumnType::Native(NativeType::Varint);
    let v = CqlVarint::from_signed_bytes_be_slice(&arr);
    let buf = ser(&v, &typ);
    // bytes supplied by the user are passed as they are (non-normalised forms such as 00 7f included)
    assert!(same(&buf, &spec_cell(&arr)), "emitted bytes differ from the CQL v4 encoding");
    let b = body(&buf);
    let back: CqlVarint = de(&typ, b.as_ref());
    assert!(same(back.as_signed_bytes_be_slice(), &arr), "decoded varint bytes differ");
    kani::cover!(true, "reach_end");
}
// VK: prop=C01 tier=quick cap=600
// VK-funcs: CqlVarint SerializeValue/DeserializeValue (varint)
// VK-bounds: every 1-byte varint
vk_h!(c01_varint_len1, 12, {
    varint_rt::<1>();
});
// VK: prop=C01 tier=quick cap=600
// VK-funcs: CqlVarint SerializeValue/DeserializeValue (varint)
// VK-bounds: every 3-byte varint incl. non-normalised encodings (00 00 7f, ff ff 80)
vk_h!(c01_varint_len3, 12, {
    varint_rt::<3>();
});

fn decimal_rt<const L: usize>() {
    let arr: [u8; L] = kani::any();
    let scale: i32 = kani::any();
    let typ = ColumnType::Native(NativeType::Decimal);
    let v = CqlDecimal::from_signed_be_bytes_slice_and_exponent(&arr, scale);
    let buf = ser(&v, &typ);
    let payload = cat(&[&spec_i32(scale), &arr]);
    assert!(same(&buf, &spec_cell(&payload)), "emitted bytes differ from the CQL v4 encoding (scale int32, then unscaled varint)");
    let b = body(&buf);
    let back: CqlDecimal = de(&typ, b.as_ref());
    let (bb, bs) = back.as_signed_be_bytes_slice_and_exponent();
    assert!(bs == scale && same(bb, &arr), "decoded decimal differs");
    kani::cover!(true, "reach_end");
}
// VK: prop=C01 tier=quick cap=600
// VK-funcs: CqlDecimal SerializeValue/DeserializeValue (decimal)
// VK-bounds: any i32 scale, every 2-byte unscaled value
vk_h!(c01_decimal_len2, 12, {
    decimal_rt::<2>();
});

// VK: prop=C01 tier=quick cap=600
// VK-funcs: Option<i32> SerializeValue/DeserializeValue, CellWriter::set_null
// VK-bounds: None / Some(any i32) on an int column
vk_h!(c01_option_int, 12, {
    // the two shapes run as separate straight-line flows (no merge of differently sized buffers)
    fn flow(o: Option<i32>) {
        let typ = ColumnType::Native(NativeType::Int);
        let buf = ser(&o, &typ);
        match o {
            Some(v) => assert!(same(&buf, &spec_cell(&spec_i32(v)))),
            None => assert!(same(&buf, &spec_null()), "null must be the length -1"),
        }
        let b = body(&buf);
        let back: Option<i32> = de(&typ, b.as_ref());
        assert!(back == o, "Option round trip differs");
    }
    flow(Some(kani::any()));
    flow(None);
    kani::cover!(true, "reach_end");
});

// VK: prop=C01 tier=quick cap=600
// VK-funcs: MaybeUnset<i32>, Unset SerializeValue, CellWriter::set_unset
// VK-bounds: Unset / Set(any i32) on an int column
vk_h!(c01_maybe_unset_int, 12, {
    let typ = ColumnType::Native(NativeType::Int);
    let x: i32 = kani::any();
    assert!(same(&ser(&MaybeUnset::Set(x), &typ), &spec_cell(&spec_i32(x))));
    assert!(same(&ser(&MaybeUnset::<i32>::Unset, &typ), &spec_unset()), "not-set must be the length -2");
    assert!(same(&ser(&Unset, &typ), &spec_unset()));
    kani::cover!(true, "reach_end");
});

// VK: prop=C01 tier=quick cap=600
// VK-funcs: MaybeEmpty<i32> SerializeValue/DeserializeValue, CqlValue::Empty SerializeValue, CqlValue DeserializeValue (empty cell)
// VK-bounds: Empty / Value(any i32) on an int column; CqlValue::Empty
vk_h!(c01_maybe_empty_int, 12, {
    let typ = ColumnType::Native(NativeType::Int);
    fn flow(e: MaybeEmpty<i32>) {
        let typ = ColumnType::Native(NativeType::Int);
        let bufe = ser(&e, &typ);
        match e {
            MaybeEmpty::Value(v) => assert!(same(&bufe, &spec_cell(&spec_i32(v)))),
            MaybeEmpty::Empty => assert!(same(&bufe, &spec_cell(&[])), "empty must be a zero-length cell"),
        }
        let be = body(&bufe);
        let backe: MaybeEmpty<i32> = de(&typ, be.as_ref());
        assert!(backe == e, "MaybeEmpty round trip differs");
    }
    flow(MaybeEmpty::Value(kani::any()));
    flow(MaybeEmpty::Empty);
    // dynamic value: CqlValue::Empty on an emptiable type
    let cv = CqlValue::Empty;
    let bufd = ser(&cv, &typ);
    assert!(same(&bufd, &spec_cell(&[])));
    let bd = body(&bufd);
    let backd: CqlValue = de(&typ, bd.as_ref());
    assert!(matches!(backd, CqlValue::Empty));
    std::mem::forget(backd);
    std::mem::forget(cv);
    kani::cover!(true, "reach_end");
});

// ------------------------------------------------------------------------------------------------
// collections, vectors, maps, tuples, nesting: concrete shapes, symbolic element values; the `frozen` marker of every collection type is symbolic.
// Harnesses marked tier=off did not finish in CBMC within 30 min / 24 GB (kept for reference, not part of any claim).
// Split form: (a) ser(value) == spec bytes, (b) de(spec bytes) == value, as separate obligations; decoding goes through the
// lazy iterator carriers (Vec<T>'s `collect` machinery does not get through CBMC's symbolic execution).
use scylla_cql_core::deserialize::value::{ListlikeIterator, MapIterator, VectorIterator};
use scylla_cql_core::frame::response::result::CollectionType;
use std::collections::BTreeMap;

fn t_int() -> ColumnType<'static> {
    ColumnType::Native(NativeType::Int)
}
fn t_text() -> ColumnType<'static> {
    ColumnType::Native(NativeType::Text)
}
fn t_list(e: ColumnType<'static>) -> ColumnType<'static> {
    ColumnType::Collection { frozen: kani::any(), typ: CollectionType::List(Box::new(e)) }
}
fn t_set(e: ColumnType<'static>) -> ColumnType<'static> {
    ColumnType::Collection { frozen: kani::any(), typ: CollectionType::Set(Box::new(e)) }
}
fn t_map(k: ColumnType<'static>, v: ColumnType<'static>) -> ColumnType<'static> {
    ColumnType::Collection { frozen: kani::any(), typ: CollectionType::Map(Box::new(k), Box::new(v)) }
}
fn t_vector(e: ColumnType<'static>, d: u16) -> ColumnType<'static> {
    ColumnType::Vector { typ: Box::new(e), dimensions: d }
}
fn int_cell(v: i32) -> Vec<u8> {
    spec_cell(&spec_i32(v))
}
fn expect_int(x: Option<Result<i32, scylla_cql_core::deserialize::DeserializationError>>, want: i32) {
    match x {
        Some(Ok(v)) => assert!(v == want, "decoded element differs"),
        Some(Err(e)) => {
            std::mem::forget(e);
            assert!(false, "decoding an element failed")
        }
        None => assert!(false, "decoded collection is too short"),
    }
}
fn expect_str(x: Option<Result<&str, scylla_cql_core::deserialize::DeserializationError>>, want: &[u8]) {
    match x {
        Some(Ok(s)) => assert!(same(s.as_bytes(), want), "decoded string element differs"),
        Some(Err(e)) => {
            std::mem::forget(e);
            assert!(false, "decoding a string element failed")
        }
        None => assert!(false, "decoded collection is too short"),
    }
}

fn list2_payload(xs: &[i32; 2]) -> Vec<u8> {
    cat(&[&spec_i32(2), &int_cell(xs[0]), &int_cell(xs[1])])
}
// VK: prop=C01 tier=thorough cap=1800
// VK-funcs: Vec<i32>/[i32] SerializeValue (serialize_sequence, CellValueBuilder length back-patch)
// VK-bounds: list<int> and set<int> with 2 elements, any i32 values
vk_h!(c01_list_int_n2_ser, 40, {
    let xs: [i32; 2] = kani::any();
    let typ = t_list(t_int());
    let want = spec_cell(&list2_payload(&xs));
    assert!(same(&ser(&xs.to_vec(), &typ), &want), "emitted list bytes differ from the CQL v4 encoding");
    assert!(same(&ser(&xs[..], &typ), &want), "[T] carrier differs");
    let typs = t_set(t_int());
    assert!(same(&ser(&xs.to_vec(), &typs), &want), "emitted set bytes differ from the CQL v4 encoding");
    std::mem::forget((typ, typs));
    kani::cover!(true, "reach_end");
});
// VK: prop=C01 tier=quick cap=900
// VK-funcs: ListlikeIterator<i32> DeserializeValue (type_check, deserialize, next) on list<int> and set<int>
// VK-bounds: the CQL v4 encoding of a 2-element list, any i32 values
vk_h!(c01_list_int_n2_de, 40, {
    let xs: [i32; 2] = kani::any();
    let b = Bytes::copy_from_slice(&list2_payload(&xs));
    let typ = t_list(t_int());
    let mut it: ListlikeIterator<i32> = de(&typ, Some(&b));
    expect_int(it.next(), xs[0]);
    expect_int(it.next(), xs[1]);
    assert!(it.next().is_none(), "decoded collection is too long");
    std::mem::forget(typ);
    kani::cover!(true, "reach_end");
});
// VK: prop=C01 tier=quick cap=900
// VK-funcs: Vec<i32> SerializeValue + ListlikeIterator<i32> DeserializeValue on the EMPTY list
// VK-bounds: list<int> with 0 elements (empty collection: count 0)
vk_h!(c01_list_int_n0, 20, {
    let typ = t_list(t_int());
    let v: Vec<i32> = Vec::with_capacity(1);
    let want = spec_cell(&spec_i32(0));
    assert!(same(&ser(&v, &typ), &want), "empty list must be a 4-byte cell holding count 0");
    let b = Bytes::copy_from_slice(&spec_i32(0));
    let mut it: ListlikeIterator<i32> = de(&typ, Some(&b));
    assert!(it.next().is_none());
    std::mem::forget((typ, v));
    kani::cover!(true, "reach_end");
});

// VK: prop=C01 tier=off cap=900
// VK-funcs: Vec<i32> SerializeValue (serialize_vector: fixed-width elements without length prefix); VectorIterator<i32> DeserializeValue
// VK-bounds: vector<int,2>, any i32 values
vk_h!(c01_vector_int_d2, 40, {
    let xs: [i32; 2] = kani::any();
    let typ = t_vector(t_int(), 2);
    let payload = cat(&[&spec_i32(xs[0]), &spec_i32(xs[1])]);
    assert!(same(&ser(&xs.to_vec(), &typ), &spec_cell(&payload)), "vector<int,2> must be the two 4-byte values back to back");
    let b = Bytes::copy_from_slice(&payload);
    let mut it: VectorIterator<i32> = de(&typ, Some(&b));
    expect_int(it.next(), xs[0]);
    expect_int(it.next(), xs[1]);
    assert!(it.next().is_none());
    std::mem::forget(typ);
    kani::cover!(true, "reach_end");
});

fn vtext_payload<const L0: usize, const L1: usize>(a0: &[u8; L0], a1: &[u8; L1]) -> Vec<u8> {
    // variable-width elements: unsigned vint length (1 byte below 128), then the bytes
    cat(&[&[L0 as u8], a0, &[L1 as u8], a1])
}
fn vector_text_ser<const L0: usize, const L1: usize>() {
    let (s0, a0) = any_string::<L0>(true);
    let (s1, a1) = any_string::<L1>(true);
    let typ = t_vector(t_text(), 2);
    let v = vec![s0, s1];
    assert!(same(&ser(&v, &typ), &spec_cell(&vtext_payload(&a0, &a1))), "vector<text,2> must be vint-length-prefixed elements");
    std::mem::forget((typ, v));
    kani::cover!(true, "reach_end");
}
fn vector_text_de<const L0: usize, const L1: usize>() {
    let (_s0, a0) = any_string::<L0>(true);
    let (_s1, a1) = any_string::<L1>(true);
    let typ = t_vector(t_text(), 2);
    let b = Bytes::copy_from_slice(&vtext_payload(&a0, &a1));
    let mut it: VectorIterator<&str> = de(&typ, Some(&b));
    expect_str(it.next(), &a0);
    expect_str(it.next(), &a1);
    assert!(it.next().is_none());
    std::mem::forget(typ);
    kani::cover!(true, "reach_end");
}
// VK: prop=C01 tier=quick cap=900
// VK-funcs: Vec<String> SerializeValue (serialize_vector, serialize_next_variable_length_elem, unsigned_vint_encode)
// VK-bounds: vector<text,2>, elements of 1 and 2 ASCII bytes
vk_h!(c01_vector_text_l1_l2_ser, 40, { vector_text_ser::<1, 2>() });
// VK: prop=C01 tier=quick cap=900
// VK-funcs: as c01_vector_text_l1_l2_ser
// VK-bounds: vector<text,2> whose last element is the empty string
vk_h!(c01_vector_text_l1_l0_ser, 40, { vector_text_ser::<1, 0>() });
// VK: prop=C01 tier=off cap=1800
// VK-funcs: VectorIterator<&str> DeserializeValue (unsigned_vint_decode, FrameSlice::read_n_bytes)
// VK-bounds: the encoding of vector<text,2> with elements of 1 and 1 ASCII bytes
vk_h!(c01_vector_text_l1_l1_de, 40, { vector_text_de::<1, 1>() });
// VK: prop=C01 tier=off cap=1800
// VK-funcs: as c01_vector_text_l1_l1_de
// VK-bounds: the encoding of vector<text,2> whose LAST element is the empty string (zero-length element at the end of the cell)
vk_h!(c01_vector_text_l1_l0_de, 40, { vector_text_de::<1, 0>() });

fn vector_blob_len_ser<const L: usize>() {
    // content is irrelevant for the length prefix: one symbolic byte repeated
    let x: u8 = kani::any();
    let elem = vec![x; L];
    let typ = t_vector(ColumnType::Native(NativeType::Blob), 1);
    let v = vec![elem];
    let buf = ser(&v, &typ);
    // Cassandra unsigned vint of L (L < 16384): 1 byte below 128, else 0x80|(L>>8), L&0xff
    let prefix: Vec<u8> = if L < 128 { vec![L as u8] } else { vec![0x80 | (L >> 8) as u8, (L & 0xff) as u8] };
    assert!(buf.len() == 4 + prefix.len() + L, "wrong total size for a vint-prefixed element");
    let n = (prefix.len() + L) as i32;
    assert!(buf[0] == 0 && buf[1] == 0 && buf[2] == (n >> 8) as u8 && buf[3] == n as u8, "cell length field wrong");
    let mut i = 0;
    while i < prefix.len() {
        assert!(buf[4 + i] == prefix[i], "element length is not the Cassandra unsigned vint of the byte length");
        i += 1;
    }
    assert!(buf[4 + prefix.len()] == x && buf[buf.len() - 1] == x);
    std::mem::forget((typ, v));
    kani::cover!(true, "reach_end");
}
// VK: prop=C01 tier=thorough cap=1800
// VK-funcs: serialize_next_variable_length_elem, unsigned_vint_encode through Vec<Vec<u8>> on vector<blob,1>
// VK-bounds: element byte length 127 (largest 1-byte vint), content = one symbolic byte repeated; unwind 135
vk_h!(c01_vector_blob_len127_ser, 135, { vector_blob_len_ser::<127>() });
// VK: prop=C01 tier=quick cap=900
// VK-funcs: as c01_vector_blob_len127_ser
// VK-bounds: element byte length 128 (smallest 2-byte vint); unwind 135
vk_h!(c01_vector_blob_len128_ser, 135, { vector_blob_len_ser::<128>() });

// VK: prop=C01 tier=quick cap=900
// VK-funcs: BTreeMap<i32,i32> SerializeValue (serialize_mapping); MapIterator<i32,i32> DeserializeValue
// VK-bounds: map<int,int> with 1 entry, any key/value
vk_h!(c01_map_int_int_n1, 40, {
    let k: i32 = kani::any();
    let v: i32 = kani::any();
    let typ = t_map(t_int(), t_int());
    let mut m = BTreeMap::new();
    m.insert(k, v);
    let payload = cat(&[&spec_i32(1), &int_cell(k), &int_cell(v)]);
    assert!(same(&ser(&m, &typ), &spec_cell(&payload)), "emitted map bytes differ from the CQL v4 encoding");
    let b = Bytes::copy_from_slice(&payload);
    let mut it: MapIterator<i32, i32> = de(&typ, Some(&b));
    match it.next() {
        Some(Ok((a, c))) => assert!(a == k && c == v, "decoded entry differs"),
        Some(Err(e)) => {
            std::mem::forget(e);
            assert!(false, "decoding the entry failed")
        }
        None => assert!(false, "decoded map is empty"),
    }
    assert!(it.next().is_none());
    std::mem::forget((typ, m));
    kani::cover!(true, "reach_end");
});

// VK: prop=C01 tier=quick cap=900
// VK-funcs: (i32, String) SerializeValue (impl_tuple) against tuple<int,text> and the longer tuple<int,text,int>
// VK-bounds: Rust tuple of arity 2, text of 1 ASCII byte: only the given fields are written
vk_h!(c01_tuple_int_text_ser, 40, {
    let x: i32 = kani::any();
    let (s, a) = any_string::<1>(true);
    let t2 = ColumnType::Tuple(vec![t_int(), t_text()]);
    let t3 = ColumnType::Tuple(vec![t_int(), t_text(), t_int()]);
    let val = (x, s);
    let want = spec_cell(&cat(&[&int_cell(x), &spec_cell(&a)]));
    assert!(same(&ser(&val, &t2), &want), "emitted tuple bytes differ from the CQL v4 encoding");
    assert!(same(&ser(&val, &t3), &want), "a tuple shorter than its type must write only the given fields");
    std::mem::forget((t2, t3, val));
    kani::cover!(true, "reach_end");
});
// VK: prop=C01 tier=thorough cap=1800
// VK-funcs: (i32, &str, Option<i32>) DeserializeValue on tuple<int,text,int>
// VK-bounds: bytes of a tuple that carries only its first two fields: the missing field reads back as null
vk_h!(c01_tuple_short_de_padded_with_null, 40, {
    let x: i32 = kani::any();
    let (_s, a) = any_string::<1>(true);
    let t3 = ColumnType::Tuple(vec![t_int(), t_text(), t_int()]);
    let b = Bytes::copy_from_slice(&cat(&[&int_cell(x), &spec_cell(&a)]));
    let back: (i32, &str, Option<i32>) = de(&t3, Some(&b));
    assert!(back.0 == x && same(back.1.as_bytes(), &a) && back.2.is_none(), "short tuple must come back padded with null");
    std::mem::forget(t3);
    kani::cover!(true, "reach_end");
});

// VK: prop=C01 tier=off cap=1800
// VK-funcs: CqlValue::Tuple SerializeValue (serialize_cql_value, serialize_tuple_like)
// VK-bounds: CqlValue::Tuple [Some(Int x), None] and the short [Some(Int x)] against tuple<int,int>
vk_h!(c01_cqlvalue_tuple_ser, 40, {
    let x: i32 = kani::any();
    let typ = ColumnType::Tuple(vec![t_int(), t_int()]);
    let full = CqlValue::Tuple(vec![Some(CqlValue::Int(x)), None]);
    assert!(same(&ser(&full, &typ), &spec_cell(&cat(&[&int_cell(x), &spec_null()]))), "null inside a tuple must be a -1 length cell");
    let short = CqlValue::Tuple(vec![Some(CqlValue::Int(x))]);
    assert!(same(&ser(&short, &typ), &spec_cell(&int_cell(x))));
    std::mem::forget((typ, full, short));
    kani::cover!(true, "reach_end");
});

// VK: prop=C01 tier=thorough cap=1800
// VK-funcs: Vec<(i32, Option<String>)> SerializeValue: nested length back-patch of a tuple inside a list cell; ListlikeIterator<(i32, Option<&str>)> DeserializeValue
// VK-bounds: list<tuple<int,text>> with 1 element whose text field is null
vk_h!(c01_nested_list_of_tuple, 40, {
    let x: i32 = kani::any();
    let typ = t_list(ColumnType::Tuple(vec![t_int(), t_text()]));
    let v: Vec<(i32, Option<String>)> = vec![(x, None)];
    let tuple_body = cat(&[&int_cell(x), &spec_null()]);
    let payload = cat(&[&spec_i32(1), &spec_cell(&tuple_body)]);
    assert!(same(&ser(&v, &typ), &spec_cell(&payload)), "nested tuple cell inside a list has the wrong bytes / lengths");
    let b = Bytes::copy_from_slice(&payload);
    let mut it: ListlikeIterator<(i32, Option<&str>)> = de(&typ, Some(&b));
    assert!(matches!(it.next(), Some(Ok((a, None))) if a == x), "decoded nested tuple differs");
    assert!(it.next().is_none());
    std::mem::forget((typ, v));
    kani::cover!(true, "reach_end");
});

// VK: prop=C01 tier=off cap=1800
// VK-funcs: BTreeMap<i32, Vec<i32>> SerializeValue (map<int, list<int>>)
// VK-bounds: 1 entry whose value is a 1-element list
vk_h!(c01_nested_map_of_list_ser, 48, {
    let k: i32 = kani::any();
    let e: i32 = kani::any();
    let typ = t_map(t_int(), t_list(t_int()));
    let mut m: BTreeMap<i32, Vec<i32>> = BTreeMap::new();
    m.insert(k, vec![e]);
    let inner = cat(&[&spec_i32(1), &int_cell(e)]);
    let payload = cat(&[&spec_i32(1), &int_cell(k), &spec_cell(&inner)]);
    assert!(same(&ser(&m, &typ), &spec_cell(&payload)), "map<int,list<int>> bytes differ from the CQL v4 encoding");
    std::mem::forget((typ, m));
    kani::cover!(true, "reach_end");
});

// VK: prop=C01 tier=off cap=1800
// VK-funcs: Vec<Vec<i32>> SerializeValue (vector<vector<int,2>,2>: fixed-width nested vectors)
// VK-bounds: 2x2 any i32
vk_h!(c01_nested_vector_of_vector_ser, 40, {
    let xs: [i32; 4] = kani::any();
    let typ = t_vector(t_vector(t_int(), 2), 2);
    let v = vec![vec![xs[0], xs[1]], vec![xs[2], xs[3]]];
    let payload = cat(&[&spec_i32(xs[0]), &spec_i32(xs[1]), &spec_i32(xs[2]), &spec_i32(xs[3])]);
    assert!(same(&ser(&v, &typ), &spec_cell(&payload)), "vector<vector<int,2>,2> must be 16 bytes of values");
    std::mem::forget((typ, v));
    kani::cover!(true, "reach_end");
});

fn expect_blob(x: Option<Result<&[u8], scylla_cql_core::deserialize::DeserializationError>>, want: &[u8]) {
    match x {
        Some(Ok(s)) => assert!(same(s, want), "decoded blob element differs"),
        Some(Err(e)) => {
            std::mem::forget(e);
            assert!(false, "decoding a vector element failed although the bytes are the encoding of a valid vector")
        }
        None => assert!(false, "decoded vector is too short"),
    }
}
fn vector_blob_de<const L0: usize, const L1: usize>() {
    let a0: [u8; L0] = kani::any();
    let a1: [u8; L1] = kani::any();
    let typ = t_vector(ColumnType::Native(NativeType::Blob), 2);
    // vint length (1 byte below 128) + bytes, twice: the CQL encoding of vector<blob,2> [a0, a1]
    let b = Bytes::copy_from_slice(&cat(&[&[L0 as u8], &a0, &[L1 as u8], &a1]));
    let mut it: VectorIterator<&[u8]> = de(&typ, Some(&b));
    expect_blob(it.next(), &a0);
    expect_blob(it.next(), &a1);
    assert!(it.next().is_none());
    std::mem::forget(typ);
    kani::cover!(true, "reach_end");
}
// VK: prop=C01 tier=quick cap=900
// VK-funcs: VectorIterator<&[u8]>::{deserialize,next,next_variable_length_elem}, unsigned_vint_decode, FrameSlice::read_n_bytes
// VK-bounds: the encoding of vector<blob,2> with elements of 1 and 1 bytes (symbolic content)
vk_h!(c01_vector_blob_l1_l1_de, 20, { vector_blob_de::<1, 1>() });
// VK: prop=C01 tier=quick cap=900
// VK-funcs: as c01_vector_blob_l1_l1_de
// VK-bounds: the encoding of vector<blob,2> whose LAST element is zero-length (an empty value at the very end of the cell)
vk_h!(c01_vector_blob_l1_l0_de, 20, { vector_blob_de::<1, 0>() });
// VK: prop=C01 tier=quick cap=900
// VK-funcs: as c01_vector_blob_l1_l1_de
// VK-bounds: the encoding of vector<blob,2> whose FIRST element is zero-length
vk_h!(c01_vector_blob_l0_l1_de, 20, { vector_blob_de::<0, 1>() });
