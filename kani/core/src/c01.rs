//! C01 — CQL value encoding conforms to the protocol and round-trips (Kani part).
use crate::wire::*;
use scylla_cql_core::frame::response::result::{ColumnType, NativeType};
use scylla_cql_core::value::{Counter, CqlDate, CqlTime, CqlTimestamp, CqlTimeuuid};
use std::net::{IpAddr, Ipv4Addr, Ipv6Addr};
use uuid::Uuid;

/// proof harness with the two error-path stubs every core harness uses (see stubs.rs):
/// ColumnType::clone -> leaf (only used to build error values), Arc::drop_slow -> leak (error values are never freed)
#[macro_export]
macro_rules! vk_h {
    ($name:ident, $unwind:expr, $body:block) => {
        #[kani::proof]
        #[kani::unwind($unwind)]
        #[kani::stub(<scylla_cql_core::frame::response::result::ColumnType as std::clone::Clone>::clone, crate::stubs::column_type_clone)]
        #[kani::stub(std::sync::Arc::drop_slow, crate::stubs::arc_drop_slow)]
        pub fn $name() $body
    };
}

/// native carrier: value -> bytes == spec, bytes -> value == original
macro_rules! vk_native {
    ($name:ident, $t:ty, $nt:ident, $mk:expr, $spec:expr, $eq:expr) => {
        #[kani::proof]
        #[kani::unwind(24)]
        #[kani::stub(<scylla_cql_core::frame::response::result::ColumnType as std::clone::Clone>::clone, crate::stubs::column_type_clone)]
        #[kani::stub(std::sync::Arc::drop_slow, crate::stubs::arc_drop_slow)]
        pub fn $name() {
            let v: $t = $mk;
            let typ = ColumnType::Native(NativeType::$nt);
            let buf = ser(&v, &typ);
            let payload: Vec<u8> = ($spec)(&v);
            assert!(same(&buf, &spec_cell(&payload)), "emitted bytes differ from the CQL v4 encoding");
            let b = body(&buf);
            let back: $t = de(&typ, b.as_ref());
            assert!(($eq)(&back, &v), "decoded value differs from the bound value");
            kani::cover!(true, "reach_end");
        }
    };
}

// VK: prop=C01 tier=quick cap=300
// VK-funcs: <i8 as SerializeValue>::serialize, CellWriter::set_value, <i8 as DeserializeValue>::{type_check,deserialize}
// VK-bounds: all 2^8 values; column type tinyint; unwind 20
// VK-out: third-party carriers (chrono/time/num-bigint/bigdecimal/secrecy), HashMap/HashSet carriers, strings > 3 bytes, collections > 2 elements, nesting > 2
vk_native!(c01_i8_tinyint, i8, TinyInt, kani::any(), |v: &i8| vec![*v as u8], |a: &i8, b: &i8| a == b);
// VK: prop=C01 tier=quick cap=300
// VK-funcs: i16 SerializeValue/DeserializeValue
// VK-bounds: all values; smallint
vk_native!(c01_i16_smallint, i16, SmallInt, kani::any(), |v: &i16| vec![(*v >> 8) as u8, *v as u8], |a: &i16, b: &i16| a == b);
// VK: prop=C01 tier=quick cap=300
// VK-funcs: i32 SerializeValue/DeserializeValue
// VK-bounds: all 2^32 values; int
vk_native!(c01_i32_int, i32, Int, kani::any(), |v: &i32| spec_i32(*v).to_vec(), |a: &i32, b: &i32| a == b);
fn spec_i64(v: i64) -> Vec<u8> {
    let mut out = Vec::new();
    let mut k = 0;
    while k < 8 {
        out.push((v >> (56 - 8 * k)) as u8);
        k += 1;
    }
    out
}
// VK: prop=C01 tier=quick cap=300
// VK-funcs: i64 SerializeValue/DeserializeValue
// VK-bounds: all 2^64 values; bigint
vk_native!(c01_i64_bigint, i64, BigInt, kani::any(), |v: &i64| spec_i64(*v), |a: &i64, b: &i64| a == b);
// VK: prop=C01 tier=quick cap=300
// VK-funcs: f32 SerializeValue/DeserializeValue
// VK-bounds: all 2^32 bit patterns incl. NaN payloads (compared by bits); float
vk_native!(c01_f32_float, f32, Float, f32::from_bits(kani::any()), |v: &f32| spec_i32(v.to_bits() as i32).to_vec(),
    |a: &f32, b: &f32| a.to_bits() == b.to_bits());
// VK: prop=C01 tier=quick cap=300
// VK-funcs: f64 SerializeValue/DeserializeValue
// VK-bounds: all 2^64 bit patterns incl. NaN payloads; double
vk_native!(c01_f64_double, f64, Double, f64::from_bits(kani::any()), |v: &f64| spec_i64(v.to_bits() as i64),
    |a: &f64, b: &f64| a.to_bits() == b.to_bits());
// VK: prop=C01 tier=quick cap=300
// VK-funcs: bool SerializeValue/DeserializeValue
// VK-bounds: both values; boolean
vk_native!(c01_bool_boolean, bool, Boolean, kani::any(), |v: &bool| vec![if *v { 1u8 } else { 0u8 }], |a: &bool, b: &bool| a == b);
// VK: prop=C01 tier=quick cap=300
// VK-funcs: Counter SerializeValue/DeserializeValue
// VK-bounds: all i64; counter
vk_native!(c01_counter, Counter, Counter, Counter(kani::any()), |v: &Counter| spec_i64(v.0), |a: &Counter, b: &Counter| a.0 == b.0);
// VK: prop=C01 tier=quick cap=300
// VK-funcs: CqlDate SerializeValue/DeserializeValue
// VK-bounds: all u32 (days since -5877641-06-23); date
vk_native!(c01_cqldate, CqlDate, Date, CqlDate(kani::any()), |v: &CqlDate| spec_i32(v.0 as i32).to_vec(), |a: &CqlDate, b: &CqlDate| a.0 == b.0);
// VK: prop=C01 tier=quick cap=300
// VK-funcs: CqlTimestamp SerializeValue/DeserializeValue
// VK-bounds: all i64; timestamp
vk_native!(c01_cqltimestamp, CqlTimestamp, Timestamp, CqlTimestamp(kani::any()), |v: &CqlTimestamp| spec_i64(v.0),
    |a: &CqlTimestamp, b: &CqlTimestamp| a.0 == b.0);
fn any_time() -> CqlTime {
    let n: i64 = kani::any();
    // a CQL time is nanoseconds since midnight
    kani::assume(n >= 0 && n < 86_400_000_000_000);
    CqlTime(n)
}
// VK: prop=C01 tier=quick cap=300
// VK-funcs: CqlTime SerializeValue/DeserializeValue
// VK-bounds: all nanoseconds-since-midnight values 0..86_400_000_000_000; time
vk_native!(c01_cqltime, CqlTime, Time, any_time(), |v: &CqlTime| spec_i64(v.0), |a: &CqlTime, b: &CqlTime| a.0 == b.0);
// VK: prop=C01 tier=quick cap=300
// VK-funcs: Uuid SerializeValue/DeserializeValue
// VK-bounds: all 16-byte values; uuid
vk_native!(c01_uuid, Uuid, Uuid, Uuid::from_bytes(kani::any()), |v: &Uuid| v.as_bytes().to_vec(), |a: &Uuid, b: &Uuid| a.as_bytes() == b.as_bytes());
// VK: prop=C01 tier=quick cap=300
// VK-funcs: CqlTimeuuid SerializeValue/DeserializeValue
// VK-bounds: all 16-byte values; timeuuid
vk_native!(c01_timeuuid, CqlTimeuuid, Timeuuid, CqlTimeuuid::from_bytes(kani::any()), |v: &CqlTimeuuid| v.as_bytes().to_vec(),
    |a: &CqlTimeuuid, b: &CqlTimeuuid| a.as_bytes() == b.as_bytes());
fn ip_bytes(v: &IpAddr) -> Vec<u8> {
    match v {
        IpAddr::V4(x) => x.octets().to_vec(),
        IpAddr::V6(x) => x.octets().to_vec(),
    }
}
fn ip_same(a: &IpAddr, b: &IpAddr) -> bool {
    match (a, b) {
        (IpAddr::V4(x), IpAddr::V4(y)) => x.octets() == y.octets(),
        (IpAddr::V6(x), IpAddr::V6(y)) => x.octets() == y.octets(),
        _ => false,
    }
}
// VK: prop=C01 tier=quick cap=300
// VK-funcs: IpAddr SerializeValue/DeserializeValue (IPv4)
// VK-bounds: all IPv4 addresses; inet
vk_native!(c01_inet_v4, IpAddr, Inet, IpAddr::V4(Ipv4Addr::from(kani::any::<[u8; 4]>())), ip_bytes, ip_same);
// VK: prop=C01 tier=quick cap=300
// VK-funcs: IpAddr SerializeValue/DeserializeValue (IPv6)
// VK-bounds: all IPv6 addresses incl. IPv4-mapped ones (must come back as V6); inet
vk_native!(c01_inet_v6, IpAddr, Inet, IpAddr::V6(Ipv6Addr::from(kani::any::<[u8; 16]>())), ip_bytes, ip_same);

// ------------------------------------------------------------------------------------------------
// strings, blobs, varint, decimal: concrete content length L, symbolic bytes
use bytes::Bytes;
use scylla_cql_core::value::{CqlDecimal, CqlValue, CqlVarint, MaybeEmpty, MaybeUnset, Unset};

fn text_rt<const L: usize>(ascii: bool) {
    let (s, arr) = any_string::<L>(ascii);
    let typ = ColumnType::Native(if ascii { NativeType::Ascii } else { NativeType::Text });
    let buf = ser(&s, &typ);
    assert!(same(&buf, &spec_cell(&arr)), "emitted bytes differ from the CQL v4 encoding");
    // &str carrier writes the same bytes
    let buf2 = ser(s.as_str(), &typ);
    assert!(same(&buf2, &buf));
    let b = body(&buf);
    let back: String = de(&typ, b.as_ref());
    assert!(same(back.as_bytes(), &arr), "decoded string differs");
    let back2: &str = de(&typ, b.as_ref());
    assert!(same(back2.as_bytes(), &arr));
    kani::cover!(true, "reach_end");
}
macro_rules! vk_text {
    ($name:ident, $l:expr, $ascii:expr) => {
        #[kani::proof]
        #[kani::unwind(12)]
        #[kani::stub(<scylla_cql_core::frame::response::result::ColumnType as std::clone::Clone>::clone, crate::stubs::column_type_clone)]
        #[kani::stub(std::sync::Arc::drop_slow, crate::stubs::arc_drop_slow)]
        pub fn $name() {
            text_rt::<$l>($ascii);
        }
    };
}
// VK: prop=C01 tier=quick cap=600
// VK-funcs: String/&str SerializeValue, String/&str DeserializeValue (text)
// VK-bounds: the empty string (zero-length cell)
vk_text!(c01_text_len0, 0, false);
// VK: prop=C01 tier=quick cap=600
// VK-funcs: String/&str SerializeValue/DeserializeValue (text)
// VK-bounds: every valid-UTF-8 string of 2 bytes (incl. one 2-byte scalar)
vk_text!(c01_text_len2, 2, false);
// VK: prop=C01 tier=thorough cap=1200
// VK-funcs: String/&str SerializeValue/DeserializeValue (text)
// VK-bounds: every valid-UTF-8 string of 3 bytes
vk_text!(c01_text_len3, 3, false);
// VK: prop=C01 tier=quick cap=600
// VK-funcs: String/&str SerializeValue/DeserializeValue (ascii)
// VK-bounds: every ASCII string of 2 bytes
vk_text!(c01_ascii_len2, 2, true);

fn blob_rt<const L: usize>() {
    let arr: [u8; L] = kani::any();
    let typ = ColumnType::Native(NativeType::Blob);
    let v: Vec<u8> = arr.to_vec();
    let buf = ser(&v, &typ);
    assert!(same(&buf, &spec_cell(&arr)), "emitted bytes differ from the CQL v4 encoding");
    assert!(same(&ser(&&arr[..], &typ), &buf), "&[u8] carrier differs");
    assert!(same(&ser(&arr, &typ), &buf), "[u8; N] carrier differs");
    assert!(same(&ser(&Bytes::copy_from_slice(&arr), &typ), &buf), "Bytes carrier differs");
    let b = body(&buf);
    let back: Vec<u8> = de(&typ, b.as_ref());
    assert!(same(&back, &arr), "decoded blob differs");
    let back2: &[u8] = de(&typ, b.as_ref());
    assert!(same(back2, &arr));
    let back3: Bytes = de(&typ, b.as_ref());
    assert!(same(&back3, &arr));
    kani::cover!(true, "reach_end");
}
// VK: prop=C01 tier=quick cap=600
// VK-funcs: Vec<u8>, &[u8], [u8;N], Bytes SerializeValue; Vec<u8>, &[u8], Bytes DeserializeValue (blob)
// VK-bounds: the empty blob (zero-length cell)
vk_h!(c01_blob_len0, 12, {
    blob_rt::<0>();
});
// VK: prop=C01 tier=quick cap=600
// VK-funcs: as c01_blob_len0
// VK-bounds: every blob of 3 bytes
vk_h!(c01_blob_len3, 12, {
    blob_rt::<3>();
});

fn varint_rt<const L: usize>() {
    let arr: [u8; L] = kani::any();
    let typ = ColumnType::Native(NativeType::Varint);
    let v = CqlVarint::from_signed_bytes_be_slice(&arr);
    let buf = ser(&v, &typ);
    // bytes supplied by the user are passed as they are (non-normalised forms such as 00 7f included)
    assert!(same(&buf, &spec_cell(&arr)), "emitted bytes differ from the CQL v4 encoding");
    let b = body(&buf);
    let back: CqlVarint = de(&typ, b.as_ref());
    assert!(same(back.as_signed_bytes_be_slice(), &arr), "decoded varint bytes differ");
    kani::cover!(true, "reach_end");
}
// VK: prop=C01 tier=quick cap=600
// VK-funcs: CqlVarint SerializeValue/DeserializeValue (varint)
// VK-bounds: every 1-byte varint
vk_h!(c01_varint_len1, 12, {
    varint_rt::<1>();
});
// VK: prop=C01 tier=quick cap=600
// VK-funcs: CqlVarint SerializeValue/DeserializeValue (varint)
// VK-bounds: every 3-byte varint incl. non-normalised encodings (00 00 7f, ff ff 80)
vk_h!(c01_varint_len3, 12, {
    varint_rt::<3>();
});

fn decimal_rt<const L: usize>() {
    let arr: [u8; L] = kani::any();
    let scale: i32 = kani::any();
    let typ = ColumnType::Native(NativeType::Decimal);
    let v = CqlDecimal::from_signed_be_bytes_slice_and_exponent(&arr, scale);
    let buf = ser(&v, &typ);
    let payload = cat(&[&spec_i32(scale), &arr]);
    assert!(same(&buf, &spec_cell(&payload)), "emitted bytes differ from the CQL v4 encoding (scale int32, then unscaled varint)");
    let b = body(&buf);
    let back: CqlDecimal = de(&typ, b.as_ref());
    let (bb, bs) = back.as_signed_be_bytes_slice_and_exponent();
    assert!(bs == scale && same(bb, &arr), "decoded decimal differs");
    kani::cover!(true, "reach_end");
}
// VK: prop=C01 tier=quick cap=600
// VK-funcs: CqlDecimal SerializeValue/DeserializeValue (decimal)
// VK-bounds: any i32 scale, every 2-byte unscaled value
vk_h!(c01_decimal_len2, 12, {
    decimal_rt::<2>();
});

// VK: prop=C01 tier=quick cap=600
// VK-funcs: Option<i32> SerializeValue/DeserializeValue, CellWriter::set_null
// VK-bounds: None / Some(any i32) on an int column
vk_h!(c01_option_int, 12, {
    // the two shapes run as separate straight-line flows (no merge of differently sized buffers)
    fn flow(o: Option<i32>) {
        let typ = ColumnType::Native(NativeType::Int);
        let buf = ser(&o, &typ);
        match o {
            Some(v) => assert!(same(&buf, &spec_cell(&spec_i32(v)))),
            None => assert!(same(&buf, &spec_null()), "null must be the length -1"),
        }
        let b = body(&buf);
        let back: Option<i32> = de(&typ, b.as_ref());
        assert!(back == o, "Option round trip differs");
    }
    flow(Some(kani::any()));
    flow(None);
    kani::cover!(true, "reach_end");
});

// VK: prop=C01 tier=quick cap=600
// VK-funcs: MaybeUnset<i32>, Unset SerializeValue, CellWriter::set_unset
// VK-bounds: Unset / Set(any i32) on an int column
vk_h!(c01_maybe_unset_int, 12, {
    let typ = ColumnType::Native(NativeType::Int);
    let x: i32 = kani::any();
    assert!(same(&ser(&MaybeUnset::Set(x), &typ), &spec_cell(&spec_i32(x))));
    assert!(same(&ser(&MaybeUnset::<i32>::Unset, &typ), &spec_unset()), "not-set must be the length -2");
    assert!(same(&ser(&Unset, &typ), &spec_unset()));
    kani::cover!(true, "reach_end");
});

// VK: prop=C01 tier=quick cap=600
// VK-funcs: MaybeEmpty<i32> SerializeValue/DeserializeValue, CqlValue::Empty SerializeValue, CqlValue DeserializeValue (empty cell)
// VK-bounds: Empty / Value(any i32) on an int column; CqlValue::Empty
vk_h!(c01_maybe_empty_int, 12, {
    let typ = ColumnType::Native(NativeType::Int);
    fn flow(e: MaybeEmpty<i32>) {
        let typ = ColumnType::Native(NativeType::Int);
        let bufe = ser(&e, &typ);
        match e {
            MaybeEmpty::Value(v) => assert!(same(&bufe, &spec_cell(&spec_i32(v)))),
            MaybeEmpty::Empty => assert!(same(&bufe, &spec_cell(&[])), "empty must be a zero-length cell"),
        }
        let be = body(&bufe);
        let backe: MaybeEmpty<i32> = de(&typ, be.as_ref());
        assert!(backe == e, "MaybeEmpty round trip differs");
    }
    flow(MaybeEmpty::Value(kani::any()));
    flow(MaybeEmpty::Empty);
    // dynamic value: CqlValue::Empty on an emptiable type
    let cv = CqlValue::Empty;
    let bufd = ser(&cv, &typ);
    assert!(same(&bufd, &spec_cell(&[])));
    let bd = body(&bufd);
    let backd: CqlValue = de(&typ, bd.as_ref());
    assert!(matches!(backd, CqlValue::Empty));
    std::mem::forget(backd);
    std::mem::forget(cv);
    kani::cover!(true, "reach_end");
});
