//! Native evaluation of the real scylla-cql functions (no Kani, no stubs): replays SMT counterexamples.
use scylla_cql::frame::request::query::{PagingState, Query, QueryParameters};
use scylla_cql::frame::types::{Consistency, SerialConsistency};
use scylla_cql::frame::{Compression, SerializedRequest};
use scylla_cql_core::frame::response::result::{ColumnType, NativeType};
use scylla_cql_core::serialize::row::SerializedValues;
use scylla_cql_core::value::MaybeUnset;
use std::borrow::Cow;
use std::io::BufRead;

fn hex(b: &[u8]) -> String {
    b.iter().map(|x| format!("{:02x}", x)).collect()
}
fn unhex(s: &str) -> Vec<u8> {
    if s == "-" {
        return vec![];
    }
    (0..s.len() / 2).map(|i| u8::from_str_radix(&s[2 * i..2 * i + 2], 16).unwrap()).collect()
}

/// six arguments `<consistency> <skip 0|1> <page -|i32> <paging -|hex|e> <serial -|u16> <ts -|i64>` and a cell list `n|u|v<byte>,..|-`
fn params_from<'a>(a: &[&str], cells: &str) -> QueryParameters<'a> {
    let cons = Consistency::try_from(a[0].parse::<u16>().unwrap()).unwrap();
    QueryParameters {
        consistency: cons,
        serial_consistency: if a[4] == "-" { None } else { Some(SerialConsistency::try_from(a[4].parse::<i16>().unwrap()).unwrap()) },
        timestamp: if a[5] == "-" { None } else { Some(a[5].parse().unwrap()) },
        page_size: if a[2] == "-" { None } else { Some(a[2].parse().unwrap()) },
        paging_state: match a[3] {
            "-" => PagingState::start(),
            "e" => PagingState::new_from_raw_bytes(Vec::<u8>::new()),
            h => PagingState::new_from_raw_bytes(unhex(h)),
        },
        skip_metadata: a[1] == "1",
        values: Cow::Owned(cells_from(cells)),
    }
}

fn cells_from(cells: &str) -> SerializedValues {
    let mut values = SerializedValues::new();
    if cells != "-" {
        for c in cells.split(',') {
            let ti = ColumnType::Native(NativeType::TinyInt);
            if c == "n" {
                values.add_value(&None::<i8>, &ti).unwrap();
            } else if c == "u" {
                values.add_value(&MaybeUnset::<i8>::Unset, &ti).unwrap();
            } else {
                values.add_value(&(c[1..].parse::<u8>().unwrap() as i8), &ti).unwrap();
            }
        }
    }
    values
}

fn frame_of<R: scylla_cql::frame::request::SerializableRequest>(r: &R, tracing: bool) -> String {
    match SerializedRequest::make(r, None, tracing) {
        Ok(f) => hex(f.get_data()),
        Err(_) => "ERR".to_string(),
    }
}

fn coltype_by_name(name: &str) -> Option<ColumnType<'static>> {
    use scylla_cql_core::frame::response::result::{CollectionType, UserDefinedType};
    let int = || ColumnType::Native(NativeType::Int);
    Some(match name {
        "Collection" => ColumnType::Collection { frozen: false, typ: CollectionType::List(Box::new(int())) },
        "Vector" => ColumnType::Vector { typ: Box::new(int()), dimensions: 2 },
        "Tuple" => ColumnType::Tuple(vec![int()]),
        "UserDefinedType" => ColumnType::UserDefinedType { frozen: false, definition: std::sync::Arc::new(UserDefinedType {
            name: "t".into(), keyspace: "k".into(), field_types: vec![(Cow::Borrowed("a"), int())] }) },
        n => ColumnType::Native(match n {
            "Ascii" => NativeType::Ascii, "Boolean" => NativeType::Boolean, "Blob" => NativeType::Blob, "Counter" => NativeType::Counter,
            "Date" => NativeType::Date, "Decimal" => NativeType::Decimal, "Double" => NativeType::Double, "Duration" => NativeType::Duration,
            "Float" => NativeType::Float, "Int" => NativeType::Int, "BigInt" => NativeType::BigInt, "Text" => NativeType::Text,
            "Timestamp" => NativeType::Timestamp, "Inet" => NativeType::Inet, "SmallInt" => NativeType::SmallInt, "TinyInt" => NativeType::TinyInt,
            "Time" => NativeType::Time, "Timeuuid" => NativeType::Timeuuid, "Uuid" => NativeType::Uuid, "Varint" => NativeType::Varint,
            _ => return None,
        }),
    })
}

fn main() {
    std::panic::set_hook(Box::new(|_| {}));
    for line in std::io::stdin().lock().lines() {
        let line = line.unwrap();
        let a: Vec<&str> = line.split_whitespace().collect();
        if a.is_empty() {
            continue;
        }
        let out = std::panic::catch_unwind(|| match a[0] {
            // query <mode params|frame> <compression 0|1|2> <tracing 0|1> <consistency> <skip 0|1> <page -|i32> <paging -|hex|e(empty)>
            //       <serial -|u16> <ts -|i64> <text hex|-> <cells: comma list of n|u|v<byte>|->
            "query" => {
                let cons = Consistency::try_from(a[4].parse::<u16>().unwrap()).unwrap();
                let mut values = SerializedValues::new();
                if a[11] != "-" {
                    for c in a[11].split(',') {
                        let ti = ColumnType::Native(NativeType::TinyInt);
                        if c == "n" {
                            values.add_value(&None::<i8>, &ti).unwrap();
                        } else if c == "u" {
                            values.add_value(&MaybeUnset::<i8>::Unset, &ti).unwrap();
                        } else {
                            values.add_value(&(c[1..].parse::<u8>().unwrap() as i8), &ti).unwrap();
                        }
                    }
                }
                let paging = match a[7] {
                    "-" => PagingState::start(),
                    "e" => PagingState::new_from_raw_bytes(Vec::<u8>::new()),
                    h => PagingState::new_from_raw_bytes(unhex(h)),
                };
                let params = QueryParameters {
                    consistency: cons,
                    serial_consistency: if a[8] == "-" { None } else { Some(SerialConsistency::try_from(a[8].parse::<i16>().unwrap()).unwrap()) },
                    timestamp: if a[9] == "-" { None } else { Some(a[9].parse().unwrap()) },
                    page_size: if a[6] == "-" { None } else { Some(a[6].parse().unwrap()) },
                    paging_state: paging,
                    skip_metadata: a[5] == "1",
                    values: Cow::Owned(values),
                };
                if a[1] == "params" {
                    let mut buf = Vec::new();
                    match params.serialize(&mut buf) {
                        Ok(()) => hex(&buf),
                        Err(_) => "ERR".to_string(),
                    }
                } else {
                    let text = String::from_utf8_lossy(&unhex(a[10])).into_owned();
                    let q = Query { contents: Cow::Owned(text), parameters: params };
                    let comp = match a[2] {
                        "1" => Some(Compression::Lz4),
                        "2" => Some(Compression::Snappy),
                        _ => None,
                    };
                    match SerializedRequest::make(&q, comp, a[3] == "1") {
                        Ok(f) => hex(f.get_data()),
                        Err(_) => "ERR".to_string(),
                    }
                }
            }
            // req <kind> <tracing 0|1> ...: the frame SerializedRequest::make builds for the other request kinds
            "req" => {
                use scylla_cql::frame::request::{auth_response::AuthResponse, batch::{Batch, BatchStatement, BatchType}, execute::ExecuteV2, options::Options,
                                                 prepare::Prepare, register::RegisterV2, startup::Startup};
                use scylla_cql::frame::response::result::cow_bytes::CowBytes;
                use scylla_cql::frame::server_event_type::EventTypeV2;
                let tracing = a[2] == "1";
                match a[1] {
                    "prepare" => {
                        let text = String::from_utf8_lossy(&unhex(a[3])).into_owned();
                        frame_of(&Prepare { query: &text }, tracing)
                    }
                    "options" => frame_of(&Options, tracing),
                    "auth" => frame_of(&AuthResponse { response: if a[3] == "none" { None } else { Some(unhex(a[3])) } }, tracing),
                    "startup" => {
                        let mut options = std::collections::HashMap::new();
                        for e in a[3].split(',') {
                            let (k, v) = e.split_once(':').unwrap();
                            options.insert(Cow::Owned(String::from_utf8_lossy(&unhex(k)).into_owned()), Cow::Owned(String::from_utf8_lossy(&unhex(v)).into_owned()));
                        }
                        frame_of(&Startup { options }, tracing)
                    }
                    "register" => {
                        let evs: Vec<EventTypeV2> = a[3].split(',').filter(|s| *s != "-").map(|s| match s {
                            "TopologyChange" => EventTypeV2::TopologyChange, "StatusChange" => EventTypeV2::StatusChange,
                            "SchemaChange" => EventTypeV2::SchemaChange, _ => EventTypeV2::ClientRoutesChange,
                        }).collect();
                        frame_of(&RegisterV2 { event_types_to_register_for: evs }, tracing)
                    }
                    // req execute <tracing> <id hex|-> <none|metadata id hex|-> <6 parameter args> <cells>
                    "execute" => {
                        let id = unhex(a[3]);
                        let mid = if a[4] == "none" { None } else { Some(unhex(a[4])) };
                        let e = ExecuteV2 {
                            id: CowBytes::from(&id[..]),
                            result_metadata_id: mid.as_ref().map(|m| CowBytes::from(&m[..])),
                            parameters: params_from(&a[5..11], a[11]),
                        };
                        frame_of(&e, tracing)
                    }
                    // req batch <tracing> <type 0|1|2> <consistency> <serial|-> <ts|-> <statements q<hex>|p<hex>,..|-> <value lists cells;cells|->
                    "batch" => {
                        let bt = match a[3] { "0" => BatchType::Logged, "1" => BatchType::Unlogged, _ => BatchType::Counter };
                        let texts: Vec<(bool, Vec<u8>)> = a[7].split(',').filter(|s| *s != "-").map(|s| (s.starts_with('q'), unhex(if s.len() > 1 { &s[1..] } else { "-" }))).collect();
                        let strs: Vec<String> = texts.iter().map(|(_, b)| String::from_utf8_lossy(b).into_owned()).collect();
                        let statements: Vec<BatchStatement> = texts.iter().zip(strs.iter()).map(|((isq, b), s)| {
                            if *isq { BatchStatement::Query { text: Cow::Borrowed(s.as_str()) } } else { BatchStatement::Prepared { id: Cow::Borrowed(&b[..]) } }
                        }).collect();
                        let values: Vec<SerializedValues> = if a[8] == "-" { vec![] } else { a[8].split(';').map(cells_from).collect() };
                        let b = Batch {
                            statements: Cow::Borrowed(&statements[..]),
                            batch_type: bt,
                            consistency: Consistency::try_from(a[4].parse::<u16>().unwrap()).unwrap(),
                            serial_consistency: if a[5] == "-" { None } else { Some(SerialConsistency::try_from(a[5].parse::<i16>().unwrap()).unwrap()) },
                            timestamp: if a[6] == "-" { None } else { Some(a[6].parse().unwrap()) },
                            values,
                        };
                        frame_of(&b, tracing)
                    }
                    // req batchcount <tracing> <n>: one prepared statement whose value list writes n null cells through the RowWriter
                    "batchcount" => {
                        use scylla_cql::serialize::raw_batch::{RawBatchValues, RawBatchValuesIterator};
                        use scylla_cql::serialize::{RowWriter, SerializationError};
                        struct Many(usize);
                        struct ManyIter(Option<usize>);
                        impl RawBatchValues for Many {
                            type RawBatchValuesIter<'r> = ManyIter;
                            fn batch_values_iter(&self) -> ManyIter { ManyIter(Some(self.0)) }
                        }
                        impl<'a> RawBatchValuesIterator<'a> for ManyIter {
                            fn serialize_next(&mut self, writer: &mut RowWriter) -> Option<Result<(), SerializationError>> {
                                let n = self.0.take()?;
                                for _ in 0..n { writer.make_cell_writer().set_null(); }
                                Some(Ok(()))
                            }
                            fn is_empty_next(&mut self) -> Option<bool> { self.0.take().map(|n| n == 0) }
                            fn skip_next(&mut self) -> Option<()> { self.0.take().map(|_| ()) }
                        }
                        let id = [1u8, 2u8];
                        let statements = [BatchStatement::Prepared { id: Cow::Borrowed(&id[..]) }];
                        let b = Batch { statements: Cow::Borrowed(&statements[..]), batch_type: BatchType::Logged, consistency: Consistency::One, serial_consistency: None, timestamp: None,
                                        values: Many(a[3].parse().unwrap()) };
                        match SerializedRequest::make(&b, None, tracing) {
                            Ok(f) => { let d = f.get_data(); format!("count={}", u16::from_be_bytes([d[17], d[18]])) }
                            Err(_) => "ERR".to_string(),
                        }
                    }
                    _ => "UNKNOWN".to_string(),
                }
            }
            // duration <months> <days> <nanos>: serialized duration cell body (three vints) and the value decoded back from it
            "duration" => {
                use scylla_cql_core::deserialize::value::DeserializeValue;
                use scylla_cql_core::deserialize::FrameSlice;
                use scylla_cql_core::serialize::value::SerializeValue;
                use scylla_cql_core::serialize::writers::CellWriter;
                use scylla_cql_core::value::CqlDuration;
                let d = CqlDuration { months: a[1].parse().unwrap(), days: a[2].parse().unwrap(), nanoseconds: a[3].parse().unwrap() };
                let typ = ColumnType::Native(NativeType::Duration);
                let mut buf = Vec::new();
                d.serialize(&typ, CellWriter::new(&mut buf)).map(|_| ()).unwrap();
                let body = bytes::Bytes::copy_from_slice(&buf[4..]);
                let back = <CqlDuration as DeserializeValue>::deserialize(&typ, Some(FrameSlice::new(&body)));
                match back {
                    Ok(b) => format!("{} {} {} {}", hex(&buf[4..]), b.months, b.days, b.nanoseconds),
                    Err(_) => format!("{} DECODE-ERR", hex(&buf[4..])),
                }
            }
            // udt <struct kind> <a> <b> <c> <comma separated database field names>: derived SerializeValue against that UDT
            "udt" => {
                use scylla_cql_core::frame::response::result::UserDefinedType;
                use scylla_cql_core::serialize::value::SerializeValue;
                use scylla_cql_core::serialize::writers::CellWriter;
                use vk_core::c16_types::*;
                let (x, y, z): (i32, i32, i32) = (a[2].parse().unwrap(), a[3].parse().unwrap(), a[4].parse().unwrap());
                let ft: Vec<_> = a[5].split(',').map(|n| (Cow::Owned(n.to_string()), ColumnType::Native(NativeType::Int))).collect();
                let typ = ColumnType::UserDefinedType {
                    frozen: false,
                    definition: std::sync::Arc::new(UserDefinedType { name: "t".into(), keyspace: "k".into(), field_types: ft }),
                };
                let mut buf = Vec::new();
                let w = CellWriter::new(&mut buf);
                let r = match a[1] {
                    "S3" => S3 { a: x, b: y, c: z }.serialize(&typ, w).map(|_| ()),
                    "S3AllowMissingA" => S3AllowMissingA { a: x, b: y, c: z }.serialize(&typ, w).map(|_| ()),
                    "S3AllowMissingB" => S3AllowMissingB { a: x, b: y, c: z }.serialize(&typ, w).map(|_| ()),
                    "S3Strict" => S3Strict { a: x, b: y, c: z }.serialize(&typ, w).map(|_| ()),
                    "S3OrderedStrict" => S3OrderedStrict { a: x, b: y, c: z }.serialize(&typ, w).map(|_| ()),
                    "S3OrderedNoNames" => S3OrderedNoNames { a: x, b: y, c: z }.serialize(&typ, w).map(|_| ()),
                    "S3Rename" => S3Rename { a: x, b: y, c: z }.serialize(&typ, w).map(|_| ()),
                    "S3Skip" => S3Skip { a: x, b: y, c: z }.serialize(&typ, w).map(|_| ()),
                    _ => S3Ordered { a: x, b: y, c: z }.serialize(&typ, w).map(|_| ()),
                };
                match r {
                    Ok(()) => hex(&buf),
                    Err(_) => "ERR".to_string(),
                }
            }
            // udtde <kind> <udt field names,..|-> <cells: i32|n|x,..|->: derived DeserializeValue: type_check then deserialize of a UDT value
            "udtde" => {
                use scylla_cql_core::deserialize::value::DeserializeValue;
                use scylla_cql_core::deserialize::FrameSlice;
                use scylla_cql_core::frame::response::result::UserDefinedType;
                use vk_core::c16_types::*;
                let names: Vec<&str> = a[2].split(',').filter(|s| *s != "-").collect();
                let ft: Vec<_> = names.iter().map(|n| (Cow::Owned(n.to_string()), ColumnType::Native(NativeType::Int))).collect();
                let typ = ColumnType::UserDefinedType {
                    frozen: false,
                    definition: std::sync::Arc::new(UserDefinedType { name: "t".into(), keyspace: "k".into(), field_types: ft }),
                };
                let mut body: Vec<u8> = Vec::new();
                for c in a[3].split(',').filter(|s| *s != "-") {
                    match c {
                        "x" => {}
                        "n" => body.extend_from_slice(&(-1i32).to_be_bytes()),
                        v => { body.extend_from_slice(&4i32.to_be_bytes()); body.extend_from_slice(&v.parse::<i32>().unwrap().to_be_bytes()); }
                    }
                }
                let bytes = bytes::Bytes::from(body);
                fn go<'f, 'm, T: DeserializeValue<'f, 'm>>(typ: &'m ColumnType<'m>, b: &'f bytes::Bytes, show: impl Fn(T) -> String) -> String {
                    if T::type_check(typ).is_err() {
                        return "TYPECK-ERR".to_string();
                    }
                    match T::deserialize(typ, Some(FrameSlice::new(b))) {
                        Ok(v) => format!("OK {}", show(v)),
                        Err(_) => "ERR".to_string(),
                    }
                }
                let o = |x: Option<i32>| x.map(|v| format!("Some({})", v)).unwrap_or("None".to_string());
                match a[1] {
                    "D3" => go::<D3>(&typ, &bytes, |v| format!("{} {} {}", v.a, v.b, v.c)),
                    "D3AllowMissingB" => go::<D3AllowMissingB>(&typ, &bytes, |v| format!("{} {} {}", v.a, v.b, v.c)),
                    "D3DefaultNullA" => go::<D3DefaultNullA>(&typ, &bytes, |v| format!("{} {} {}", v.a, o(v.b), v.c)),
                    "D3Strict" => go::<D3Strict>(&typ, &bytes, |v| format!("{} {} {}", v.a, v.b, v.c)),
                    "D3RenameSkip" => go::<D3RenameSkip>(&typ, &bytes, |v| format!("{} {} {}", v.a, v.b, v.c)),
                    "D3Ordered" => go::<D3Ordered>(&typ, &bytes, |v| format!("{} {} {}", v.a, v.b, v.c)),
                    "D3OrderedStrict" => go::<D3OrderedStrict>(&typ, &bytes, |v| format!("{} {} {}", v.a, v.b, v.c)),
                    "D3OrderedNoNames" => go::<D3OrderedNoNames>(&typ, &bytes, |v| format!("{} {} {}", v.a, v.b, v.c)),
                    "D3OrderedMissingNull" => go::<D3OrderedMissingNull>(&typ, &bytes, |v| format!("{} {} {}", v.a, o(v.b), v.c)),
                    _ => "UNKNOWN".to_string(),
                }
            }
            // rowde <kind> <column names,..|-> <cells: i32|n,..|->: derived DeserializeRow: type_check, then deserialize of one row
            "rowde" => {
                use scylla_cql_core::deserialize::row::{ColumnIterator, DeserializeRow};
                use scylla_cql_core::deserialize::FrameSlice;
                use scylla_cql_core::frame::response::result::{ColumnSpec, TableSpec};
                use vk_core::c16_types::*;
                let names: Vec<&str> = a[2].split(',').filter(|s| *s != "-").collect();
                let specs: Vec<ColumnSpec> = names.iter().map(|n| ColumnSpec::owned(n.to_string(), ColumnType::Native(NativeType::Int), TableSpec::owned("k".into(), "t".into()))).collect();
                let mut body: Vec<u8> = Vec::new();
                for c in a[3].split(',').filter(|s| *s != "-") {
                    match c {
                        "n" => body.extend_from_slice(&(-1i32).to_be_bytes()),
                        v => { body.extend_from_slice(&4i32.to_be_bytes()); body.extend_from_slice(&v.parse::<i32>().unwrap().to_be_bytes()); }
                    }
                }
                let bytes = bytes::Bytes::from(body);
                fn go<'f, 'm, T: DeserializeRow<'f, 'm>>(specs: &'m [ColumnSpec<'m>], b: &'f bytes::Bytes, show: impl Fn(T) -> String) -> String {
                    if T::type_check(specs).is_err() {
                        return "TYPECK-ERR".to_string();
                    }
                    match T::deserialize(ColumnIterator::new(specs, FrameSlice::new(b))) {
                        Ok(v) => format!("OK {}", show(v)),
                        Err(_) => "ERR".to_string(),
                    }
                }
                match a[1] {
                    "R3" => go::<R3>(&specs, &bytes, |v| format!("{} {} {}", v.a, v.b, v.c)),
                    "R3Ordered" => go::<R3Ordered>(&specs, &bytes, |v| format!("{} {} {}", v.a, v.b, v.c)),
                    "R3RenameSkip" => go::<R3RenameSkip>(&specs, &bytes, |v| format!("{} {} {}", v.a, v.b, v.c)),
                    _ => "UNKNOWN".to_string(),
                }
            }
            // rowser <kind> <a> <b> <c> <column names,..|->: derived SerializeRow against bind markers of type int: OK <value count> <cell bytes hex|-> / ERR
            "rowser" => {
                use scylla_cql_core::frame::response::result::{ColumnSpec, TableSpec};
                use scylla_cql_core::serialize::row::{RowSerializationContext, SerializeRow};
                use scylla_cql_core::serialize::RowWriter;
                use vk_core::c16_types::*;
                let (x, y, z) = (a[2].parse::<i32>().unwrap(), a[3].parse::<i32>().unwrap(), a[4].parse::<i32>().unwrap());
                let names: Vec<&str> = a[5].split(',').filter(|s| *s != "-").collect();
                let specs: Vec<ColumnSpec> = names.iter().map(|n| ColumnSpec::owned(n.to_string(), ColumnType::Native(NativeType::Int), TableSpec::owned("k".into(), "t".into()))).collect();
                let ctx = RowSerializationContext::from_specs(&specs);
                fn go<T: SerializeRow>(v: &T, ctx: &RowSerializationContext) -> String {
                    let mut buf = Vec::new();
                    let mut w = RowWriter::new(&mut buf);
                    match v.serialize(ctx, &mut w) {
                        Ok(()) => { let n = w.value_count(); format!("OK {} {}", n, if buf.is_empty() { "-".to_string() } else { hex(&buf) }) }
                        Err(_) => "ERR".to_string(),
                    }
                }
                match a[1] {
                    "R3" => go(&R3 { a: x, b: y, c: z }, &ctx),
                    "R3Ordered" => go(&R3Ordered { a: x, b: y, c: z }, &ctx),
                    "R3RenameSkip" => go(&R3RenameSkip { a: x, b: y, c: z }, &ctx),
                    _ => "UNKNOWN".to_string(),
                }
            }
            // wlen <int|short> <usize>: the checked length writers: OK <bytes hex> / ERR <bytes hex|->
            "wlen" => {
                use scylla_cql::frame::types::verif_hooks as vt;
                let v = a[2].parse::<usize>().unwrap();
                let mut buf = Vec::new();
                let ok = if a[1] == "int" { vt::checked_int_length(v, &mut buf) } else { vt::checked_short_length(v, &mut buf) };
                format!("{} {}", if ok { "OK" } else { "ERR" }, if buf.is_empty() { "-".to_string() } else { hex(&buf) })
            }
            // addvalue <prefix count> <mismatch|tuple_second|udt_excess|udt_missing|ok>: real SerializedValues with `prefix` ints bound, then one more value;
            // a failing value must leave the list byte-for-byte intact: ERR-UNCHANGED / ERR-CHANGED <before> <after> / OK <count>
            "addvalue" => {
                use scylla_cql_core::frame::response::result::UserDefinedType;
                use scylla_cql_core::value::CqlValue;
                use vk_core::c16_types::S3;
                let mut sv = SerializedValues::new();
                let ti = ColumnType::Native(NativeType::Int);
                for i in 0..a[1].parse::<i32>().unwrap() {
                    sv.add_value(&(i + 7), &ti).unwrap();
                }
                let snapshot = |s: &SerializedValues| { let mut b = Vec::new(); s.write_to_request(&mut b); (s.element_count(), b) };
                let before = snapshot(&sv);
                let udt = |names: &[&str]| ColumnType::UserDefinedType {
                    frozen: false,
                    definition: std::sync::Arc::new(UserDefinedType { name: "t".into(), keyspace: "k".into(),
                        field_types: names.iter().map(|n| (Cow::Owned(n.to_string()), ColumnType::Native(NativeType::Int))).collect() }),
                };
                let r = match a[2] {
                    "mismatch" => sv.add_value(&5i32, &ColumnType::Native(NativeType::Text)),
                    "tuple_second" => sv.add_value(&(5i32, 6i64), &ColumnType::Tuple(vec![ColumnType::Native(NativeType::Int), ColumnType::Native(NativeType::Int)])),
                    "udt_excess" => sv.add_value(&CqlValue::UserDefinedType { keyspace: "k".into(), name: "t".into(),
                        fields: vec![("a".into(), Some(CqlValue::Int(1))), ("b".into(), Some(CqlValue::Int(2))), ("zz".into(), Some(CqlValue::Int(3)))] }, &udt(&["a", "b"])),
                    "udt_missing" => sv.add_value(&S3 { a: 1, b: 2, c: 3 }, &udt(&["a", "b"])),
                    _ => sv.add_value(&5i32, &ti),
                };
                let after = snapshot(&sv);
                match r {
                    Ok(()) => format!("OK {}", after.0),
                    Err(_) if after == before => "ERR-UNCHANGED".to_string(),
                    Err(_) => format!("ERR-CHANGED count {}->{} bytes {}->{}", before.0, after.0, hex(&before.1), hex(&after.1)),
                }
            }
            // bindrow <carrier: i8|i16|i32|i64|f32|f64|bool|Counter|CqlDate|CqlTime|CqlTimestamp|Uuid|CqlTimeuuid> <column type name as for emptyval>:
            // bind one value of the carrier to the column through add_value: BOUND <cells> / REFUSED / REFUSED-BUT-CHANGED
            "bindrow" => {
                use scylla_cql_core::value::{Counter, CqlDate, CqlTime, CqlTimestamp, CqlTimeuuid};
                let typ = match coltype_by_name(a[2]) { Some(t) => t, None => return "ERR unknown type".to_string() };
                let mut sv = SerializedValues::new();
                let r = match a[1] {
                    "i8" => sv.add_value(&7i8, &typ), "i16" => sv.add_value(&7i16, &typ), "i32" => sv.add_value(&7i32, &typ), "i64" => sv.add_value(&7i64, &typ),
                    "f32" => sv.add_value(&1.5f32, &typ), "f64" => sv.add_value(&1.5f64, &typ), "bool" => sv.add_value(&true, &typ),
                    "str" => sv.add_value(&"ab", &typ), "String" => sv.add_value(&"ab".to_string(), &typ),
                    "Counter" => sv.add_value(&Counter(7), &typ), "CqlDate" => sv.add_value(&CqlDate(7), &typ), "CqlTime" => sv.add_value(&CqlTime(7), &typ),
                    "CqlTimestamp" => sv.add_value(&CqlTimestamp(7), &typ), "Uuid" => sv.add_value(&uuid::Uuid::from_bytes([7; 16]), &typ),
                    "CqlTimeuuid" => sv.add_value(&CqlTimeuuid::from_bytes([7; 16]), &typ),
                    _ => return "ERR unknown carrier".to_string(),
                };
                let mut b = Vec::new(); sv.write_to_request(&mut b);
                match r { Ok(()) => format!("BOUND {}", sv.element_count()), Err(_) if b == [0, 0] => "REFUSED".to_string(), Err(_) => "REFUSED-BUT-CHANGED".to_string() }
            }
            // readrow <carrier> <column type name as for emptyval>: <carrier as DeserializeValue>::type_check against the column type: PASSES / REFUSED
            "readrow" => {
                use scylla_cql_core::deserialize::value::DeserializeValue;
                use scylla_cql_core::value::{Counter, CqlDate, CqlDuration, CqlTime, CqlTimestamp, CqlTimeuuid};
                let typ = match coltype_by_name(a[2]) { Some(t) => t, None => return "ERR unknown type".to_string() };
                let r = match a[1] {
                    "i8" => <i8 as DeserializeValue>::type_check(&typ), "i16" => <i16 as DeserializeValue>::type_check(&typ),
                    "i32" => <i32 as DeserializeValue>::type_check(&typ), "i64" => <i64 as DeserializeValue>::type_check(&typ),
                    "f32" => <f32 as DeserializeValue>::type_check(&typ), "f64" => <f64 as DeserializeValue>::type_check(&typ),
                    "bool" => <bool as DeserializeValue>::type_check(&typ), "Counter" => <Counter as DeserializeValue>::type_check(&typ),
                    "CqlDate" => <CqlDate as DeserializeValue>::type_check(&typ), "CqlTime" => <CqlTime as DeserializeValue>::type_check(&typ),
                    "CqlTimestamp" => <CqlTimestamp as DeserializeValue>::type_check(&typ), "CqlDuration" => <CqlDuration as DeserializeValue>::type_check(&typ),
                    "Uuid" => <uuid::Uuid as DeserializeValue>::type_check(&typ), "CqlTimeuuid" => <CqlTimeuuid as DeserializeValue>::type_check(&typ),
                    "IpAddr" => <std::net::IpAddr as DeserializeValue>::type_check(&typ),
                    _ => return "ERR unknown carrier".to_string(),
                };
                if r.is_ok() { "PASSES".to_string() } else { "REFUSED".to_string() }
            }
            // emptyde <cell hex|-|null>: read an int column cell as MaybeEmpty<i32> through the public API: NULL-ERR / EMPTY / VALUE <n> / ERR
            "emptyde" => {
                use scylla_cql_core::deserialize::value::DeserializeValue;
                use scylla_cql_core::deserialize::FrameSlice;
                use scylla_cql_core::value::MaybeEmpty;
                let typ = ColumnType::Native(NativeType::Int);
                let b = bytes::Bytes::from(if a[1] == "-" || a[1] == "null" { Vec::new() } else { unhex(a[1]) });
                let cell = if a[1] == "null" { None } else { Some(FrameSlice::new(&b)) };
                if <MaybeEmpty<i32> as DeserializeValue>::type_check(&typ).is_err() { return "TYPECHECK-ERR".to_string(); }
                match <MaybeEmpty<i32> as DeserializeValue>::deserialize(&typ, cell) {
                    Ok(MaybeEmpty::Empty) => "EMPTY".to_string(),
                    Ok(MaybeEmpty::Value(n)) => format!("VALUE {}", n),
                    Err(_) => "ERR".to_string(),
                }
            }
            // emptyval <native type name|Collection|Vector|UserDefinedType|Tuple>: bind the special empty value through both public carriers
            "emptyval" => {
                use scylla_cql_core::frame::response::result::{CollectionType, UserDefinedType};
                use scylla_cql_core::value::{CqlValue, MaybeEmpty};
                let typ = match coltype_by_name(a[1]) { Some(t) => t, None => return "ERR unknown type".to_string() };
                let verdict = |r: Result<(), scylla_cql_core::serialize::SerializationError>, sv: &SerializedValues| {
                    let mut b = Vec::new(); sv.write_to_request(&mut b);
                    match r { Ok(()) if b == [0, 1, 0, 0, 0, 0] => "ACCEPTED".to_string(), Ok(()) => format!("ACCEPTED-BUT-WROTE-{}", hex(&b)),
                              Err(_) if b == [0, 0] => "REFUSED".to_string(), Err(_) => format!("REFUSED-BUT-WROTE-{}", hex(&b)) }
                };
                let mut s1 = SerializedValues::new();
                let r1 = s1.add_value(&MaybeEmpty::<i32>::Empty, &typ);
                let mut s2 = SerializedValues::new();
                let r2 = s2.add_value(&CqlValue::Empty, &typ);
                format!("maybe_empty={} cql_value={}", verdict(r1, &s1), verdict(r2, &s2))
            }
            // errbody <negotiated rate-limit error code|-> <body hex|->: Error::deserialize of an ERROR body, rendered canonically (texts as written, ids in hex)
            "errbody" => {
                use scylla_cql_core::frame::protocol_features::ProtocolFeatures;
                use scylla_cql_core::frame::response::error::{DbError, Error};
                let mut features = ProtocolFeatures::default();
                if a[1] != "-" { features.rate_limit_error = Some(a[1].parse().unwrap()); }
                let data = unhex(a[2]);
                match Error::deserialize(&features, &mut &data[..]) {
                    Err(_) => "ERR".to_string(),
                    Ok(e) => {
                        let v = match &e.error {
                            DbError::Unavailable { consistency, required, alive } => format!("Unavailable {:?} {} {}", consistency, required, alive),
                            DbError::WriteTimeout { consistency, received, required, write_type } => format!("WriteTimeout {:?} {} {} {:?}", consistency, received, required, write_type),
                            DbError::ReadTimeout { consistency, received, required, data_present } => format!("ReadTimeout {:?} {} {} {}", consistency, received, required, data_present),
                            DbError::ReadFailure { consistency, received, required, numfailures, data_present } => format!("ReadFailure {:?} {} {} {} {}", consistency, received, required, numfailures, data_present),
                            DbError::FunctionFailure { keyspace, function, arg_types } => format!("FunctionFailure {:?} {:?} {:?}", keyspace, function, arg_types),
                            DbError::WriteFailure { consistency, received, required, numfailures, write_type } => format!("WriteFailure {:?} {} {} {} {:?}", consistency, received, required, numfailures, write_type),
                            DbError::AlreadyExists { keyspace, table } => format!("AlreadyExists {:?} {:?}", keyspace, table),
                            DbError::Unprepared { statement_id } => format!("Unprepared {}", hex(statement_id)),
                            DbError::RateLimitReached { op_type, rejected_by_coordinator } => format!("RateLimitReached {:?} {}", op_type, rejected_by_coordinator),
                            DbError::Other(code) => format!("Other {}", code),
                            other => format!("{:?}", other),
                        };
                        format!("OK {} reason={:?}", v, e.reason)
                    }
                }
            }
            // resmeta <extension 0|1> <metadata bytes hex>: the real result-metadata decoder on exactly these bytes (+ one trailing byte that must stay unread)
            "resmeta" => {
                use scylla_cql::frame::response::result::verif_hooks as vr;
                use scylla_cql_core::frame::protocol_features::ProtocolFeatures;
                use scylla_cql_core::frame::request::query::PagingStateResponse;
                let mut features = ProtocolFeatures::default();
                features.scylla_metadata_id_supported = a[1] == "1";
                let mut data = unhex(a[2]);
                data.push(0xEE);
                let mut buf = &data[..];
                match vr::result_metadata(&mut buf, &features) {
                    Ok((md, paging)) => {
                        let specs: Vec<String> = md.col_specs().iter().map(|c| format!("{}.{}.{}:{}", c.table_spec().ks_name(), c.table_spec().table_name(), c.name(),
                            match c.typ() { ColumnType::Native(n) => format!("{:?}", n), other => format!("{:?}", other) })).collect();
                        let pg = match paging { PagingStateResponse::HasMorePages { state } => state.as_bytes_slice().map(|b| hex(b)).unwrap_or("start".to_string()), PagingStateResponse::NoMorePages => "none".to_string() };
                        format!("OK cols={} id={} paging={} specs={}{}", md.col_count(), md.id().map(hex).unwrap_or("none".to_string()), pg,
                                if specs.is_empty() { "-".to_string() } else { specs.join(",") }, if buf.len() == 1 { "" } else { " UNREAD-MISMATCH" })
                    }
                    Err(_) => "ERR".to_string(),
                }
            }
            // coltype <type bytes hex|-> [cut]: the real column-type decoder on these bytes (+ one trailing byte unless `cut`)
            "coltype" => {
                use scylla_cql::frame::response::result::verif_hooks as vr;
                use scylla_cql_core::frame::response::result::CollectionType;
                fn show(t: &ColumnType) -> String {
                    match t {
                        ColumnType::Native(n) => format!("{:?}", n),
                        ColumnType::Collection { typ: CollectionType::List(e), .. } => format!("list<{}>", show(e)),
                        ColumnType::Collection { typ: CollectionType::Set(e), .. } => format!("set<{}>", show(e)),
                        ColumnType::Collection { typ: CollectionType::Map(k, v), .. } => format!("map<{},{}>", show(k), show(v)),
                        ColumnType::Tuple(ts) => format!("tuple<{}>", ts.iter().map(show).collect::<Vec<_>>().join(",")),
                        ColumnType::UserDefinedType { definition, .. } => format!("udt {}.{} {{{}}}", definition.keyspace, definition.name,
                            definition.field_types.iter().map(|(f, t)| format!("{}:{}", f, show(t))).collect::<Vec<_>>().join(",")),
                        other => format!("{:?}", other),
                    }
                }
                let mut data = unhex(a[1]);
                let cut = a.len() > 2 && a[2] == "cut";
                if !cut { data.push(0xAA); }
                let mut buf = &data[..];
                match vr::column_type(&mut buf) {
                    Ok(t) => format!("OK rest={} {}", buf.len(), show(&t)),
                    Err(_) => "ERR".to_string(),
                }
            }
            // vecde <element: Int32Type|UUIDType|BooleanType|...> <dims innermost-first, comma list> <cell hex|-|null>:
            // the (nested) vector type arrives as a custom type string, exactly as on the wire; the cell is decoded dynamically (CqlValue) after type_check
            "vecde" => {
                use scylla_cql::frame::response::result::verif_hooks as vr;
                use scylla_cql_core::deserialize::FrameSlice;
                use scylla_cql_core::deserialize::value::DeserializeValue;
                use scylla_cql_core::value::CqlValue;
                let mut ty = format!("org.apache.cassandra.db.marshal.{}", a[1]);
                for d in a[2].split(',') {
                    ty = format!("org.apache.cassandra.db.marshal.VectorType({}, {})", ty, d);
                }
                let mut data = vec![0u8, 0];
                data.extend_from_slice(&(ty.len() as u16).to_be_bytes());
                data.extend_from_slice(ty.as_bytes());
                let mut buf = &data[..];
                match vr::column_type(&mut buf) {
                    Err(_) => "TYPE-ERR".to_string(),
                    Ok(t) => {
                        let cell = if a[3] == "null" { None } else { Some(bytes::Bytes::from(unhex(a[3]))) };
                        let fs = cell.as_ref().map(FrameSlice::new);
                        if <CqlValue as DeserializeValue>::type_check(&t).is_err() {
                            "TYPECK-ERR".to_string()
                        } else {
                            // the decode itself comes first: a panic in it is reported as PANIC for the whole command
                            let r = <CqlValue as DeserializeValue>::deserialize(&t, fs).is_ok();
                            let size = t.type_size_for_vector();
                            format!("{} size={:?}", if r { "OK" } else { "ERR" }, size)
                        }
                    }
                }
            }
            // vecnth <element> <dims innermost-first, the last one is the iterated vector's> <cell hex|-> <n|next>: VectorIterator<CqlValue>::nth(n) / next()
            "vecnth" => {
                use scylla_cql::frame::response::result::verif_hooks as vr;
                use scylla_cql_core::deserialize::FrameSlice;
                use scylla_cql_core::deserialize::value::{DeserializeValue, VectorIterator};
                use scylla_cql_core::value::CqlValue;
                let mut ty = format!("org.apache.cassandra.db.marshal.{}", a[1]);
                for d in a[2].split(',') {
                    ty = format!("org.apache.cassandra.db.marshal.VectorType({}, {})", ty, d);
                }
                let mut data = vec![0u8, 0];
                data.extend_from_slice(&(ty.len() as u16).to_be_bytes());
                data.extend_from_slice(ty.as_bytes());
                let mut buf = &data[..];
                match vr::column_type(&mut buf) {
                    Err(_) => "TYPE-ERR".to_string(),
                    Ok(t) => {
                        let cell = bytes::Bytes::from(unhex(a[3]));
                        if <VectorIterator<CqlValue> as DeserializeValue>::type_check(&t).is_err() {
                            "TYPECK-ERR".to_string()
                        } else {
                            match <VectorIterator<CqlValue> as DeserializeValue>::deserialize(&t, Some(FrameSlice::new(&cell))) {
                                Err(_) => "DESER-ERR".to_string(),
                                Ok(mut it) => {
                                    let r = if a[4] == "next" { it.next() } else { it.nth(a[4].parse::<usize>().unwrap()) };
                                    let left = it.size_hint().0;
                                    match r {
                                        None => format!("NONE left={}", left),
                                        Some(Ok(_)) => format!("SOME-OK left={}", left),
                                        Some(Err(_)) => format!("SOME-ERR left={}", left),
                                    }
                                }
                            }
                        }
                    }
                }
            }
            // event <body hex|->: EventV2::deserialize, rendered canonically
            "event" => {
                use scylla_cql::frame::response::event::{EventV2, SchemaChangeEvent, StatusChangeEvent, TopologyChangeEvent};
                let data = unhex(a[1]);
                let list = |v: &Vec<String>| if v.is_empty() { "".to_string() } else { v.iter().map(|s| if s.is_empty() { "-".to_string() } else { s.clone() }).collect::<Vec<_>>().join(",") };
                let t = |s: &String| if s.is_empty() { "-".to_string() } else { s.clone() };
                match EventV2::deserialize(&mut &data[..]) {
                    Err(_) => "ERR".to_string(),
                    Ok(EventV2::TopologyChange(TopologyChangeEvent::NewNode(a))) => format!("OK Topology NewNode {} {}", a.ip(), a.port()),
                    Ok(EventV2::TopologyChange(TopologyChangeEvent::RemovedNode(a))) => format!("OK Topology RemovedNode {} {}", a.ip(), a.port()),
                    Ok(EventV2::StatusChange(StatusChangeEvent::Up(a))) => format!("OK Status Up {} {}", a.ip(), a.port()),
                    Ok(EventV2::StatusChange(StatusChangeEvent::Down(a))) => format!("OK Status Down {} {}", a.ip(), a.port()),
                    Ok(EventV2::SchemaChange(s)) => match s {
                        SchemaChangeEvent::KeyspaceChange { change_type, keyspace_name } => format!("OK Schema KeyspaceChange {:?} {}", change_type, t(&keyspace_name)),
                        SchemaChangeEvent::TableChange { change_type, keyspace_name, object_name } => format!("OK Schema TableChange {:?} {} {}", change_type, t(&keyspace_name), t(&object_name)),
                        SchemaChangeEvent::TypeChange { change_type, keyspace_name, type_name } => format!("OK Schema TypeChange {:?} {} {}", change_type, t(&keyspace_name), t(&type_name)),
                        SchemaChangeEvent::FunctionChange { change_type, keyspace_name, function_name, arguments } => format!("OK Schema FunctionChange {:?} {} {} args={}", change_type, t(&keyspace_name), t(&function_name), list(&arguments)),
                        SchemaChangeEvent::AggregateChange { change_type, keyspace_name, aggregate_name, arguments } => format!("OK Schema AggregateChange {:?} {} {} args={}", change_type, t(&keyspace_name), t(&aggregate_name), list(&arguments)),
                    },
                    Ok(other) => format!("OK other {:?}", other),
                }
            }
            // smallbody <authenticate|success|challenge|supported> <body hex|->
            "smallbody" => {
                use scylla_cql::frame::response::authenticate::{AuthChallenge, AuthSuccess, Authenticate};
                use scylla_cql::frame::response::Supported;
                let data = unhex(a[2]);
                let tok = |o: Option<Vec<u8>>| match o { None => "none".to_string(), Some(v) if v.is_empty() => "empty".to_string(), Some(v) => hex(&v) };
                match a[1] {
                    "authenticate" => match Authenticate::deserialize(&mut &data[..]) { Ok(x) => format!("OK {}", if x.authenticator_name.is_empty() { "-".to_string() } else { x.authenticator_name }), Err(_) => "ERR".to_string() },
                    "success" => match AuthSuccess::deserialize(&mut &data[..]) { Ok(x) => format!("OK {}", tok(x.success_message)), Err(_) => "ERR".to_string() },
                    "challenge" => match AuthChallenge::deserialize(&mut &data[..]) { Ok(x) => format!("OK {}", tok(x.authenticate_message)), Err(_) => "ERR".to_string() },
                    "supported" => match Supported::deserialize(&mut &data[..]) {
                        Ok(x) => { let mut v: Vec<String> = x.options.iter().map(|(k, vs)| format!("{}={}", k, vs.join(","))).collect(); v.sort(); format!("OK {}", v.join(";")) }
                        Err(_) => "ERR".to_string(),
                    },
                    _ => "UNKNOWN".to_string(),
                }
            }
            // opcode <ResponseOpcode|RequestOpcode> <byte>
            "opcode" => {
                let b: u8 = a[2].parse().unwrap();
                if a[1] == "ResponseOpcode" {
                    match scylla_cql::frame::response::ResponseOpcode::try_from(b) { Ok(o) => format!("{:?}", o), Err(_) => "ERR".to_string() }
                } else {
                    match scylla_cql::frame::request::RequestOpcode::try_from(b) { Ok(o) => format!("{:?}", o), Err(_) => "ERR".to_string() }
                }
            }
            // wirecodes: the numeric values of the enums that go on the wire, as compiled
            "wirecodes" => {
                use scylla_cql::frame::request::RequestOpcode as O;
                use scylla_cql::frame::request::batch::BatchType as B;
                use Consistency as C;
                use SerialConsistency as S;
                let mut v: Vec<String> = Vec::new();
                for (n, c) in [("Any", C::Any), ("One", C::One), ("Two", C::Two), ("Three", C::Three), ("Quorum", C::Quorum), ("All", C::All), ("LocalQuorum", C::LocalQuorum),
                               ("EachQuorum", C::EachQuorum), ("Serial", C::Serial), ("LocalSerial", C::LocalSerial), ("LocalOne", C::LocalOne)] {
                    v.push(format!("Consistency::{}={}", n, c as u16));
                }
                for (n, c) in [("Serial", S::Serial), ("LocalSerial", S::LocalSerial)] { v.push(format!("SerialConsistency::{}={}", n, c as i16)); }
                for (n, c) in [("Logged", B::Logged), ("Unlogged", B::Unlogged), ("Counter", B::Counter)] { v.push(format!("BatchType::{}={}", n, c as u8)); }
                for (n, c) in [("Startup", O::Startup), ("Options", O::Options), ("Query", O::Query), ("Prepare", O::Prepare), ("Execute", O::Execute), ("Register", O::Register),
                               ("Batch", O::Batch), ("AuthResponse", O::AuthResponse)] {
                    v.push(format!("RequestOpcode::{}={}", n, c as u8));
                }
                v.join(" ")
            }
            _ => "UNKNOWN".to_string(),
        })
        .unwrap_or("PANIC".to_string());
        println!("{}", out);
    }
}
