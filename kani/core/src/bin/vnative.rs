//! Native evaluation of the real scylla-cql functions (no Kani, no stubs): replays SMT counterexamples.
use scylla_cql::frame::request::query::{PagingState, Query, QueryParameters};
use scylla_cql::frame::types::{Consistency, SerialConsistency};
use scylla_cql::frame::{Compression, SerializedRequest};
use scylla_cql_core::frame::response::result::{ColumnType, NativeType};
use scylla_cql_core::serialize::row::SerializedValues;
use scylla_cql_core::value::MaybeUnset;
use std::borrow::Cow;
use std::io::BufRead;

fn hex(b: &[u8]) -> String {
    b.iter().map(|x| format!("{:02x}", x)).collect()
}
fn unhex(s: &str) -> Vec<u8> {
    if s == "-" {
        return vec![];
    }
    (0..s.len() / 2).map(|i| u8::from_str_radix(&s[2 * i..2 * i + 2], 16).unwrap()).collect()
}

fn main() {
    std::panic::set_hook(Box::new(|_| {}));
    for line in std::io::stdin().lock().lines() {
        let line = line.unwrap();
        let a: Vec<&str> = line.split_whitespace().collect();
        if a.is_empty() {
            continue;
        }
        let out = std::panic::catch_unwind(|| match a[0] {
            // query <mode params|frame> <compression 0|1|2> <tracing 0|1> <consistency> <skip 0|1> <page -|i32> <paging -|hex|e(empty)>
            //       <serial -|u16> <ts -|i64> <text hex|-> <cells: comma list of n|u|v<byte>|->
            "query" => {
                let cons = Consistency::try_from(a[4].parse::<u16>().unwrap()).unwrap();
                let mut values = SerializedValues::new();
                if a[11] != "-" {
                    for c in a[11].split(',') {
                        let ti = ColumnType::Native(NativeType::TinyInt);
                        if c == "n" {
                            values.add_value(&None::<i8>, &ti).unwrap();
                        } else if c == "u" {
                            values.add_value(&MaybeUnset::<i8>::Unset, &ti).unwrap();
                        } else {
                            values.add_value(&(c[1..].parse::<u8>().unwrap() as i8), &ti).unwrap();
                        }
                    }
                }
                let paging = match a[7] {
                    "-" => PagingState::start(),
                    "e" => PagingState::new_from_raw_bytes(Vec::<u8>::new()),
                    h => PagingState::new_from_raw_bytes(unhex(h)),
                };
                let params = QueryParameters {
                    consistency: cons,
                    serial_consistency: if a[8] == "-" { None } else { Some(SerialConsistency::try_from(a[8].parse::<i16>().unwrap()).unwrap()) },
                    timestamp: if a[9] == "-" { None } else { Some(a[9].parse().unwrap()) },
                    page_size: if a[6] == "-" { None } else { Some(a[6].parse().unwrap()) },
                    paging_state: paging,
                    skip_metadata: a[5] == "1",
                    values: Cow::Owned(values),
                };
                if a[1] == "params" {
                    let mut buf = Vec::new();
                    match params.serialize(&mut buf) {
                        Ok(()) => hex(&buf),
                        Err(_) => "ERR".to_string(),
                    }
                } else {
                    let text = String::from_utf8_lossy(&unhex(a[10])).into_owned();
                    let q = Query { contents: Cow::Owned(text), parameters: params };
                    let comp = match a[2] {
                        "1" => Some(Compression::Lz4),
                        "2" => Some(Compression::Snappy),
                        _ => None,
                    };
                    match SerializedRequest::make(&q, comp, a[3] == "1") {
                        Ok(f) => hex(f.get_data()),
                        Err(_) => "ERR".to_string(),
                    }
                }
            }
            // duration <months> <days> <nanos>: serialized duration cell body (three vints) and the value decoded back from it
            "duration" => {
                use scylla_cql_core::deserialize::value::DeserializeValue;
                use scylla_cql_core::deserialize::FrameSlice;
                use scylla_cql_core::serialize::value::SerializeValue;
                use scylla_cql_core::serialize::writers::CellWriter;
                use scylla_cql_core::value::CqlDuration;
                let d = CqlDuration { months: a[1].parse().unwrap(), days: a[2].parse().unwrap(), nanoseconds: a[3].parse().unwrap() };
                let typ = ColumnType::Native(NativeType::Duration);
                let mut buf = Vec::new();
                d.serialize(&typ, CellWriter::new(&mut buf)).map(|_| ()).unwrap();
                let body = bytes::Bytes::copy_from_slice(&buf[4..]);
                let back = <CqlDuration as DeserializeValue>::deserialize(&typ, Some(FrameSlice::new(&body)));
                match back {
                    Ok(b) => format!("{} {} {} {}", hex(&buf[4..]), b.months, b.days, b.nanoseconds),
                    Err(_) => format!("{} DECODE-ERR", hex(&buf[4..])),
                }
            }
            // udt <struct kind> <a> <b> <c> <comma separated database field names>: derived SerializeValue against that UDT
            "udt" => {
                use scylla_cql_core::frame::response::result::UserDefinedType;
                use scylla_cql_core::serialize::value::SerializeValue;
                use scylla_cql_core::serialize::writers::CellWriter;
                use vk_core::c16_types::*;
                let (x, y, z): (i32, i32, i32) = (a[2].parse().unwrap(), a[3].parse().unwrap(), a[4].parse().unwrap());
                let ft: Vec<_> = a[5].split(',').map(|n| (Cow::Owned(n.to_string()), ColumnType::Native(NativeType::Int))).collect();
                let typ = ColumnType::UserDefinedType {
                    frozen: false,
                    definition: std::sync::Arc::new(UserDefinedType { name: "t".into(), keyspace: "k".into(), field_types: ft }),
                };
                let mut buf = Vec::new();
                let w = CellWriter::new(&mut buf);
                let r = match a[1] {
                    "S3" => S3 { a: x, b: y, c: z }.serialize(&typ, w).map(|_| ()),
                    "S3AllowMissingA" => S3AllowMissingA { a: x, b: y, c: z }.serialize(&typ, w).map(|_| ()),
                    "S3AllowMissingB" => S3AllowMissingB { a: x, b: y, c: z }.serialize(&typ, w).map(|_| ()),
                    "S3Strict" => S3Strict { a: x, b: y, c: z }.serialize(&typ, w).map(|_| ()),
                    _ => S3Ordered { a: x, b: y, c: z }.serialize(&typ, w).map(|_| ()),
                };
                match r {
                    Ok(()) => hex(&buf),
                    Err(_) => "ERR".to_string(),
                }
            }
            _ => "UNKNOWN".to_string(),
        })
        .unwrap_or("PANIC".to_string());
        println!("{}", out);
    }
}
