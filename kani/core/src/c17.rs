//! C17 — type mismatches are always rejected; a failed bind leaves the request intact.
use crate::vk_h;
use crate::wire::*;
use bytes::Bytes;
use scylla_cql_core::deserialize::value::DeserializeValue;
use scylla_cql_core::frame::response::result::{ColumnType, NativeType};
use scylla_cql_core::serialize::row::SerializedValues;
use scylla_cql_core::serialize::value::SerializeValue;
use scylla_cql_core::value::{Counter, CqlDate, CqlDecimal, CqlDuration, CqlTime, CqlTimestamp, CqlTimeuuid, CqlVarint};
use std::collections::{BTreeMap, BTreeSet};
use std::net::{IpAddr, Ipv4Addr};
use uuid::Uuid;

const NATIVES: [NativeType; 20] = [
    NativeType::Ascii, NativeType::Boolean, NativeType::Blob, NativeType::Counter, NativeType::Date, NativeType::Decimal,
    NativeType::Double, NativeType::Duration, NativeType::Float, NativeType::Int, NativeType::BigInt, NativeType::Text,
    NativeType::Timestamp, NativeType::Inet, NativeType::SmallInt, NativeType::TinyInt, NativeType::Time, NativeType::Timeuuid,
    NativeType::Uuid, NativeType::Varint,
];

fn any_native() -> NativeType {
    let i: usize = kani::any();
    kani::assume(i < NATIVES.len());
    NATIVES[i].clone()
}

/// documented mapping (docs/source/data-types/data-types.md): which native column types a carrier fits
fn allowed(nt: &NativeType, list: &[NativeType]) -> bool {
    let mut i = 0;
    while i < list.len() {
        if *nt == list[i] {
            return true;
        }
        i += 1;
    }
    false
}

/// serialization side of the matrix for one carrier value: Ok iff documented, and a refused value leaves no byte behind
fn ser_row<T: SerializeValue + ?Sized>(v: &T, nt: &NativeType, doc: &[NativeType]) {
    let typ = ColumnType::Native(nt.clone());
    let (ok, buf) = try_ser(v, &typ);
    assert!(ok == allowed(nt, doc), "serialization accepted/refused a (Rust type, CQL type) pair against the documented mapping");
    if !ok {
        assert!(buf.is_empty(), "bytes of a mismatched value were written");
    }
}

/// deserialization side: type_check Ok iff documented
fn de_row<'a, T: DeserializeValue<'a, 'a>>(typ: &'a ColumnType<'a>, nt: &NativeType, doc: &[NativeType]) {
    assert!(type_check_ok::<T>(typ) == allowed(nt, doc), "type_check accepted/refused a (Rust type, CQL type) pair against the documented mapping");
}

macro_rules! vk_matrix {
    ($name:ident, $t:ty, $mk:expr, [$($doc:ident),*]) => {
        vk_h!($name, 24, {
            let nt = any_native();
            let doc = [$(NativeType::$doc),*];
            let v: $t = $mk;
            ser_row(&v, &nt, &doc);
            let typ = ColumnType::Native(nt.clone());
            de_row::<$t>(&typ, &nt, &doc);
            std::mem::forget(v);
            kani::cover!(true, "reach_end");
        });
    };
}

// VK: prop=C17 tier=quick cap=600
// VK-funcs: <i8 as SerializeValue>::serialize (exact_type_check!), <i8 as DeserializeValue>::type_check
// VK-bounds: carrier i8 (any value) x ALL 20 native column types (symbolic): accepted iff tinyint; refused value writes nothing
// VK-out: third-party carriers; nesting > 2; the too-many-values failure kind (65535 prior cells)
vk_matrix!(c17_matrix_i8, i8, kani::any(), [TinyInt]);
// VK: prop=C17 tier=quick cap=600
// VK-funcs: i16 SerializeValue/DeserializeValue type checks
// VK-bounds: carrier i16 x all 20 natives: iff smallint
vk_matrix!(c17_matrix_i16, i16, kani::any(), [SmallInt]);
// VK: prop=C17 tier=quick cap=600
// VK-funcs: i32 SerializeValue/DeserializeValue type checks
// VK-bounds: carrier i32 x all 20 natives: iff int
vk_matrix!(c17_matrix_i32, i32, kani::any(), [Int]);
// VK: prop=C17 tier=quick cap=600
// VK-funcs: i64 SerializeValue/DeserializeValue type checks
// VK-bounds: carrier i64 x all 20 natives: iff bigint (not counter, not timestamp)
vk_matrix!(c17_matrix_i64, i64, kani::any(), [BigInt]);
// VK: prop=C17 tier=quick cap=600
// VK-funcs: f32 type checks
// VK-bounds: carrier f32 x all natives: iff float
vk_matrix!(c17_matrix_f32, f32, f32::from_bits(kani::any()), [Float]);
// VK: prop=C17 tier=quick cap=600
// VK-funcs: f64 type checks
// VK-bounds: carrier f64 x all natives: iff double
vk_matrix!(c17_matrix_f64, f64, f64::from_bits(kani::any()), [Double]);
// VK: prop=C17 tier=quick cap=600
// VK-funcs: bool type checks
// VK-bounds: carrier bool x all natives: iff boolean
vk_matrix!(c17_matrix_bool, bool, kani::any(), [Boolean]);
// VK: prop=C17 tier=quick cap=600
// VK-funcs: Counter type checks
// VK-bounds: carrier Counter x all natives: iff counter
vk_matrix!(c17_matrix_counter, Counter, Counter(kani::any()), [Counter]);
// VK: prop=C17 tier=quick cap=600
// VK-funcs: CqlDate type checks
// VK-bounds: carrier CqlDate x all natives: iff date
vk_matrix!(c17_matrix_date, CqlDate, CqlDate(kani::any()), [Date]);
// VK: prop=C17 tier=quick cap=600
// VK-funcs: CqlTime type checks
// VK-bounds: carrier CqlTime x all natives: iff time
vk_matrix!(c17_matrix_time, CqlTime, CqlTime(kani::any()), [Time]);
// VK: prop=C17 tier=quick cap=600
// VK-funcs: CqlTimestamp type checks
// VK-bounds: carrier CqlTimestamp x all natives: iff timestamp
vk_matrix!(c17_matrix_timestamp, CqlTimestamp, CqlTimestamp(kani::any()), [Timestamp]);
// VK: prop=C17 tier=quick cap=600
// VK-funcs: Uuid type checks
// VK-bounds: carrier uuid::Uuid x all natives: iff uuid (NOT timeuuid)
vk_matrix!(c17_matrix_uuid, Uuid, Uuid::from_bytes(kani::any()), [Uuid]);
// VK: prop=C17 tier=quick cap=600
// VK-funcs: CqlTimeuuid type checks
// VK-bounds: carrier CqlTimeuuid x all natives: iff timeuuid (NOT uuid)
vk_matrix!(c17_matrix_timeuuid, CqlTimeuuid, CqlTimeuuid::from_bytes(kani::any()), [Timeuuid]);
// VK: prop=C17 tier=quick cap=600
// VK-funcs: IpAddr type checks
// VK-bounds: carrier IpAddr x all natives: iff inet
vk_matrix!(c17_matrix_inet, IpAddr, IpAddr::V4(Ipv4Addr::from(kani::any::<[u8; 4]>())), [Inet]);
// VK: prop=C17 tier=quick cap=600
// VK-funcs: String type checks
// VK-bounds: carrier String (1 ASCII byte) x all natives: iff ascii or text
vk_matrix!(c17_matrix_string, String, any_string::<1>(true).0, [Ascii, Text]);
// VK: prop=C17 tier=quick cap=600
// VK-funcs: Vec<u8> type checks
// VK-bounds: carrier Vec<u8> (1 byte) x all natives: iff blob
vk_matrix!(c17_matrix_blob, Vec<u8>, vec![kani::any::<u8>()], [Blob]);
// VK: prop=C17 tier=quick cap=600
// VK-funcs: CqlVarint type checks
// VK-bounds: carrier CqlVarint (1 byte) x all natives: iff varint
vk_matrix!(c17_matrix_varint, CqlVarint, CqlVarint::from_signed_bytes_be(vec![kani::any::<u8>()]), [Varint]);
// VK: prop=C17 tier=quick cap=600
// VK-funcs: CqlDecimal type checks
// VK-bounds: carrier CqlDecimal x all natives: iff decimal
vk_matrix!(c17_matrix_decimal, CqlDecimal, CqlDecimal::from_signed_be_bytes_and_exponent(vec![kani::any::<u8>()], kani::any()), [Decimal]);

// VK: prop=C17 tier=quick cap=600
// VK-funcs: CqlDuration SerializeValue type check (serialization side only: duration decoding is a vint loop)
// VK-bounds: carrier CqlDuration (zero value) x all natives: iff duration
vk_h!(c17_matrix_duration_ser, 24, {
    let nt = any_native();
    let v = CqlDuration { months: 0, days: 0, nanoseconds: 0 };
    ser_row(&v, &nt, &[NativeType::Duration]);
    let typ = ColumnType::Native(nt.clone());
    de_row::<CqlDuration>(&typ, &nt, &[NativeType::Duration]);
    kani::cover!(true, "reach_end");
});

// VK: prop=C17 tier=quick cap=900
// VK-funcs: Vec<i32>, BTreeSet<i32>, BTreeMap<i32,i32>, (i32,) SerializeValue against NATIVE columns (serialize_sequence / serialize_mapping / impl_tuple type checks), incl. EMPTY collections
// VK-bounds: container carriers (empty and 1-element) x all 20 native column types: always refused, nothing written; the matching iterator/tuple carriers' type_check refuses too
vk_h!(c17_containers_vs_natives, 24, {
    use scylla_cql_core::deserialize::value::{ListlikeIterator, MapIterator};
    let nt = any_native();
    let none: [NativeType; 0] = [];
    let x: i32 = kani::any();
    let empty_vec: Vec<i32> = Vec::with_capacity(1);
    ser_row(&empty_vec, &nt, &none);
    ser_row(&vec![x], &nt, &none);
    let empty_set: BTreeSet<i32> = BTreeSet::new();
    ser_row(&empty_set, &nt, &none);
    let empty_map: BTreeMap<i32, i32> = BTreeMap::new();
    ser_row(&empty_map, &nt, &none);
    ser_row(&(x,), &nt, &none);
    let typ = ColumnType::Native(nt.clone());
    de_row::<ListlikeIterator<i32>>(&typ, &nt, &none);
    de_row::<MapIterator<i32, i32>>(&typ, &nt, &none);
    de_row::<(i32,)>(&typ, &nt, &none);
    std::mem::forget((empty_vec, empty_set, empty_map));
    kani::cover!(true, "reach_end");
});

// ------------------------------------------------------------------------------------------------
// rollback: a failed add_value leaves the already-bound values byte-for-byte and count-for-count
fn count_cells(buf: &[u8]) -> Option<usize> {
    // independent [value] parser: int32 length n, n<0 => null/unset (no body), else n bytes
    let mut i = 0;
    let mut n = 0;
    while i < buf.len() {
        if i + 4 > buf.len() {
            return None;
        }
        let l = i32::from_be_bytes([buf[i], buf[i + 1], buf[i + 2], buf[i + 3]]);
        i += 4;
        if l >= 0 {
            i += l as usize;
            if i > buf.len() {
                return None;
            }
        }
        n += 1;
    }
    Some(n)
}

fn prefix(sv: &mut SerializedValues, k: usize) {
    let ti = ColumnType::Native(NativeType::Int);
    if k >= 1 {
        let x: i32 = kani::any();
        assert!(sv.add_value(&x, &ti).is_ok());
    }
    if k >= 2 {
        assert!(sv.add_value(&None::<i32>, &ti).is_ok());
    }
}

fn rollback_check<T: SerializeValue>(k: usize, bad: &T, typ: &ColumnType) {
    let mut sv = SerializedValues::new();
    prefix(&mut sv, k);
    let before_cnt = sv.element_count();
    // snapshot through the public iterator-independent view: re-serialise into a request buffer
    let mut before = Vec::new();
    sv.write_to_request(&mut before);
    let failed = match sv.add_value(bad, typ) {
        Ok(()) => false,
        Err(e) => {
            std::mem::forget(e);
            true
        }
    };
    assert!(failed, "a mismatched value was accepted by add_value");
    let mut after = Vec::new();
    sv.write_to_request(&mut after);
    assert!(sv.element_count() == before_cnt, "value count changed by a failed add");
    assert!(same(&before, &after), "already-bound bytes changed by a failed add");
    // the reported count equals the number of encoded cells
    assert!(count_cells(&after[2..]) == Some(before_cnt as usize), "reported value count differs from the number of encoded cells");
    assert!(after[0] == (before_cnt >> 8) as u8 && after[1] == before_cnt as u8);
    // and the object is still usable: a good value can be added afterwards
    let ti = ColumnType::Native(NativeType::Int);
    assert!(sv.add_value(&7i32, &ti).is_ok());
    assert!(sv.element_count() == before_cnt + 1);
    std::mem::forget(sv);
}

macro_rules! vk_rollback {
    ($name:ident, $k:expr, $bad:expr, $typ:expr) => {
        vk_h!($name, 40, {
            let typ = $typ;
            let bad = $bad;
            rollback_check($k, &bad, &typ);
            std::mem::forget((typ, bad));
            kani::cover!(true, "reach_end");
        });
    };
}

// VK: prop=C17 tier=quick cap=900
// VK-funcs: SerializedValues::{new,add_value,write_to_request,element_count}, CellWriter, Vec::resize rollback
// VK-bounds: prefix of 0 bound values, then a top-level type mismatch (i32 into text)
vk_rollback!(c17_rollback_k0_toplevel, 0, kani::any::<i32>(), ColumnType::Native(NativeType::Text));
// VK: prop=C17 tier=quick cap=900
// VK-funcs: as c17_rollback_k0_toplevel
// VK-bounds: prefix of 2 bound values (symbolic int, null), then a top-level type mismatch (i64 into int)
vk_rollback!(c17_rollback_k2_toplevel, 2, kani::any::<i64>(), ColumnType::Native(NativeType::Int));
// VK: prop=C17 tier=off cap=3000
// VK-funcs: as c17_rollback_k0_toplevel + impl_tuple (nested failure after a partial write)
// VK-bounds: prefix of 1 bound value, then (i32, i64) into tuple<int,int>: the first field is written before the second fails
vk_rollback!(c17_rollback_k1_nested_tuple, 1, (kani::any::<i32>(), kani::any::<i64>()),
    ColumnType::Tuple(vec![ColumnType::Native(NativeType::Int), ColumnType::Native(NativeType::Int)]));
