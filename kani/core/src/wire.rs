//! Independent reference for the CQL v4 wire format of values (native_protocol_v4 §6) and small helpers
//! shared by the C01 / C17 / C16 harnesses. Nothing here calls the driver's writers.
use bytes::Bytes;
use scylla_cql_core::deserialize::value::DeserializeValue;
use scylla_cql_core::deserialize::FrameSlice;
use scylla_cql_core::frame::response::result::ColumnType;
use scylla_cql_core::serialize::value::SerializeValue;
use scylla_cql_core::serialize::writers::CellWriter;

/// `[bytes]`: 4-byte big-endian length, then the payload
pub fn spec_cell(payload: &[u8]) -> Vec<u8> {
    let n = payload.len() as i32;
    let mut out = Vec::with_capacity(4 + payload.len());
    out.push((n >> 24) as u8);
    out.push((n >> 16) as u8);
    out.push((n >> 8) as u8);
    out.push(n as u8);
    let mut i = 0;
    while i < payload.len() {
        out.push(payload[i]);
        i += 1;
    }
    out
}
pub fn spec_null() -> Vec<u8> {
    vec![0xff, 0xff, 0xff, 0xff]
}
pub fn spec_unset() -> Vec<u8> {
    vec![0xff, 0xff, 0xff, 0xfe]
}
pub fn spec_i32(v: i32) -> [u8; 4] {
    [(v >> 24) as u8, (v >> 16) as u8, (v >> 8) as u8, v as u8]
}
pub fn cat(parts: &[&[u8]]) -> Vec<u8> {
    let mut out = Vec::new();
    for p in parts {
        let mut i = 0;
        while i < p.len() {
            out.push(p[i]);
            i += 1;
        }
    }
    out
}

pub fn same(a: &[u8], b: &[u8]) -> bool {
    if a.len() != b.len() {
        return false;
    }
    let mut i = 0;
    while i < a.len() {
        if a[i] != b[i] {
            return false;
        }
        i += 1;
    }
    true
}

/// serialize through the public trait into a fresh buffer; must succeed
pub fn ser<T: SerializeValue + ?Sized>(v: &T, typ: &ColumnType) -> Vec<u8> {
    let (ok, buf) = try_ser(v, typ);
    assert!(ok, "serialization of a value of the column's type failed");
    buf
}

/// serialize; returns None on error (and the buffer for inspection)
pub fn try_ser<T: SerializeValue + ?Sized>(v: &T, typ: &ColumnType) -> (bool, Vec<u8>) {
    let mut buf: Vec<u8> = Vec::new();
    // error values are leaked, never dropped: the drop glue of the recursive ColumnType inside them makes CBMC explode
    let ok = match SerializeValue::serialize(v, typ, CellWriter::new(&mut buf)) {
        Ok(_) => true,
        Err(e) => {
            std::mem::forget(e);
            false
        }
    };
    (ok, buf)
}

pub fn type_check_ok<'a, T: DeserializeValue<'a, 'a>>(typ: &'a ColumnType<'a>) -> bool {
    match T::type_check(typ) {
        Ok(()) => true,
        Err(e) => {
            std::mem::forget(e);
            false
        }
    }
}

/// deserialize without asserting success (error leaked)
pub fn try_de<'a, T: DeserializeValue<'a, 'a>>(typ: &'a ColumnType<'a>, b: Option<&'a Bytes>) -> Option<T> {
    match T::deserialize(typ, b.map(FrameSlice::new)) {
        Ok(v) => Some(v),
        Err(e) => {
            std::mem::forget(e);
            None
        }
    }
}

/// the cell body (after the 4-byte length) as an owned Bytes, or None for null/unset
pub fn body(cell: &[u8]) -> Option<Bytes> {
    assert!(cell.len() >= 4);
    let n = i32::from_be_bytes([cell[0], cell[1], cell[2], cell[3]]);
    if n < 0 {
        return None;
    }
    assert!(cell.len() == 4 + n as usize, "cell length field does not match the bytes written");
    Some(Bytes::copy_from_slice(&cell[4..]))
}

/// type_check + deserialize through the public trait; must succeed
pub fn de<'a, T: DeserializeValue<'a, 'a>>(typ: &'a ColumnType<'a>, b: Option<&'a Bytes>) -> T {
    assert!(type_check_ok::<T>(typ), "type_check rejected the column's own type");
    match try_de::<T>(typ, b) {
        Some(v) => v,
        None => {
            assert!(false, "decoding the bytes just produced for this type failed");
            unreachable!()
        }
    }
}

/// RFC 3629 well-formedness (Unicode table 3-7), written independently of std
pub fn valid_utf8(b: &[u8]) -> bool {
    let mut i = 0;
    while i < b.len() {
        let x = b[i];
        let need = if x < 0x80 {
            0
        } else if x >= 0xC2 && x <= 0xDF {
            1
        } else if x >= 0xE0 && x <= 0xEF {
            2
        } else if x >= 0xF0 && x <= 0xF4 {
            3
        } else {
            return false;
        };
        if need >= 1 {
            if i + need >= b.len() {
                return false;
            }
            let y = b[i + 1];
            let (lo, hi) = match x {
                0xE0 => (0xA0, 0xBF),
                0xED => (0x80, 0x9F),
                0xF0 => (0x90, 0xBF),
                0xF4 => (0x80, 0x8F),
                _ => (0x80, 0xBF),
            };
            if y < lo || y > hi {
                return false;
            }
            let mut k = 2;
            while k <= need {
                let z = b[i + k];
                if z < 0x80 || z > 0xBF {
                    return false;
                }
                k += 1;
            }
        }
        i += need + 1;
    }
    true
}

pub fn any_string<const L: usize>(ascii_only: bool) -> (String, [u8; L]) {
    let arr: [u8; L] = kani::any();
    if ascii_only {
        let mut i = 0;
        while i < L {
            kani::assume(arr[i] < 0x80);
            i += 1;
        }
    } else {
        kani::assume(valid_utf8(&arr));
    }
    (unsafe { String::from_utf8_unchecked(arr.to_vec()) }, arr)
}
