//! Structs deriving the driver's traits (always compiled: their generated code is also dumped as MIR for engine S).
use scylla_cql_core::SerializeValue;

#[derive(SerializeValue)]
#[scylla(crate = scylla_cql_core)]
pub struct S3 {
    pub a: i32,
    pub b: i32,
    pub c: i32,
}

#[derive(SerializeValue)]
#[scylla(crate = scylla_cql_core)]
pub struct S3AllowMissingA {
    #[scylla(allow_missing)]
    pub a: i32,
    pub b: i32,
    pub c: i32,
}

#[derive(SerializeValue)]
#[scylla(crate = scylla_cql_core)]
pub struct S3AllowMissingB {
    pub a: i32,
    #[scylla(allow_missing)]
    pub b: i32,
    pub c: i32,
}

#[derive(SerializeValue)]
#[scylla(crate = scylla_cql_core, forbid_excess_udt_fields)]
pub struct S3Strict {
    pub a: i32,
    pub b: i32,
    pub c: i32,
}

#[derive(SerializeValue)]
#[scylla(crate = scylla_cql_core, flavor = "enforce_order")]
pub struct S3Ordered {
    pub a: i32,
    pub b: i32,
    pub c: i32,
}

#[derive(SerializeValue)]
#[scylla(crate = scylla_cql_core, flavor = "enforce_order", forbid_excess_udt_fields)]
pub struct S3OrderedStrict {
    pub a: i32,
    pub b: i32,
    pub c: i32,
}

#[derive(SerializeValue)]
#[scylla(crate = scylla_cql_core, flavor = "enforce_order", skip_name_checks)]
pub struct S3OrderedNoNames {
    pub a: i32,
    pub b: i32,
    pub c: i32,
}

#[derive(SerializeValue)]
#[scylla(crate = scylla_cql_core)]
pub struct S3Rename {
    #[scylla(rename = "x")]
    pub a: i32,
    pub b: i32,
    pub c: i32,
}

#[derive(SerializeValue)]
#[scylla(crate = scylla_cql_core)]
pub struct S3Skip {
    pub a: i32,
    #[scylla(skip)]
    pub b: i32,
    pub c: i32,
}

// ---- DeserializeValue family
use scylla_cql_core::DeserializeValue;

#[derive(DeserializeValue, Debug, PartialEq)]
#[scylla(crate = scylla_cql_core)]
pub struct D3 {
    pub a: i32,
    pub b: i32,
    pub c: i32,
}

#[derive(DeserializeValue, Debug, PartialEq)]
#[scylla(crate = scylla_cql_core)]
pub struct D3AllowMissingB {
    pub a: i32,
    #[scylla(allow_missing)]
    pub b: i32,
    pub c: i32,
}

#[derive(DeserializeValue, Debug, PartialEq)]
#[scylla(crate = scylla_cql_core)]
pub struct D3DefaultNullA {
    #[scylla(default_when_null)]
    pub a: i32,
    pub b: Option<i32>,
    pub c: i32,
}

#[derive(DeserializeValue, Debug, PartialEq)]
#[scylla(crate = scylla_cql_core, forbid_excess_udt_fields)]
pub struct D3Strict {
    pub a: i32,
    pub b: i32,
    pub c: i32,
}

#[derive(DeserializeValue, Debug, PartialEq)]
#[scylla(crate = scylla_cql_core)]
pub struct D3RenameSkip {
    #[scylla(rename = "x")]
    pub a: i32,
    #[scylla(skip)]
    pub b: i32,
    pub c: i32,
}

#[derive(DeserializeValue, Debug, PartialEq)]
#[scylla(crate = scylla_cql_core, flavor = "enforce_order")]
pub struct D3Ordered {
    pub a: i32,
    pub b: i32,
    pub c: i32,
}

#[derive(DeserializeValue, Debug, PartialEq)]
#[scylla(crate = scylla_cql_core, flavor = "enforce_order", forbid_excess_udt_fields)]
pub struct D3OrderedStrict {
    pub a: i32,
    pub b: i32,
    pub c: i32,
}

#[derive(DeserializeValue, Debug, PartialEq)]
#[scylla(crate = scylla_cql_core, flavor = "enforce_order", skip_name_checks)]
pub struct D3OrderedNoNames {
    pub a: i32,
    pub b: i32,
    pub c: i32,
}

#[derive(DeserializeValue, Debug, PartialEq)]
#[scylla(crate = scylla_cql_core, flavor = "enforce_order")]
pub struct D3OrderedMissingNull {
    #[scylla(allow_missing)]
    #[scylla(default_when_null)]
    pub a: i32,
    pub b: Option<i32>,
    pub c: i32,
}

// ---- row derives
use scylla_cql_core::{DeserializeRow, SerializeRow};

#[derive(SerializeRow, DeserializeRow, Debug, PartialEq)]
#[scylla(crate = scylla_cql_core)]
pub struct R3 {
    pub a: i32,
    pub b: i32,
    pub c: i32,
}

#[derive(SerializeRow, DeserializeRow, Debug, PartialEq)]
#[scylla(crate = scylla_cql_core, flavor = "enforce_order")]
pub struct R3Ordered {
    pub a: i32,
    pub b: i32,
    pub c: i32,
}

#[derive(SerializeRow, DeserializeRow, Debug, PartialEq)]
#[scylla(crate = scylla_cql_core)]
pub struct R3RenameSkip {
    #[scylla(rename = "x")]
    pub a: i32,
    #[scylla(skip)]
    pub b: i32,
    pub c: i32,
}
