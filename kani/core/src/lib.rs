#![allow(dead_code)]
#[cfg(kani)]
mod c01;
#[cfg(kani)]
mod selftest;
#[cfg(kani)]
mod playback_gen;
