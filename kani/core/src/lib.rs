#![allow(dead_code)]
#![cfg_attr(kani, feature(allocator_api))]
pub mod c16_types;
#[cfg(kani)]
pub mod wire;
#[cfg(kani)]
pub mod stubs;
#[cfg(kani)]
pub mod c01;
#[cfg(kani)]
pub mod c17;
#[cfg(kani)]
pub mod c16;
#[cfg(kani)]
pub mod c08;
#[cfg(kani)]
pub mod selftest;
#[cfg(kani)]
mod playback_gen;
