//! Native evaluation of the real functions (no Kani, no stubs): used to replay SMT counterexamples
//! and to validate the MIR->SMT translator on concrete inputs. One command per stdin line.
use scylla::routing::{ShardAwarePortRange, Sharder, Token};
use scylla::verif_hooks as vh;
use std::io::BufRead;
use std::num::NonZeroU16;
use std::panic::catch_unwind;

fn sharder(n: u16, msb: u8) -> Sharder {
    Sharder::new(NonZeroU16::new(n).unwrap(), msb)
}

fn congruent_ports(n: u16, shard: u16, lo: u16, hi: u16) -> Vec<u16> {
    (lo as u32..=hi as u32).filter(|p| p % n as u32 == shard as u32).map(|p| p as u16).collect()
}

fn main() {
    std::panic::set_hook(Box::new(|_| {}));
    let stdin = std::io::stdin();
    for line in stdin.lock().lines() {
        let line = line.unwrap();
        let a: Vec<&str> = line.split_whitespace().collect();
        if a.is_empty() {
            continue;
        }
        let num = |i: usize| -> i128 { a[i].parse::<i128>().unwrap() };
        let out = match a[0] {
            "shard_of" => {
                let (t, n, m) = (num(1) as i64, num(2) as u16, num(3) as u8);
                // FromStr builds the token without the i64::MIN normalisation of Token::new
                catch_unwind(|| sharder(n, m).shard_of(t.to_string().parse::<Token>().unwrap()).to_string()).unwrap_or("PANIC".into())
            }
            "shard_of_port" => {
                let (p, n) = (num(1) as u16, num(2) as u16);
                catch_unwind(|| sharder(n, 0).shard_of_source_port(p).to_string()).unwrap_or("PANIC".into())
            }
            "lowest_port" => {
                let (n, shard, lo, hi) = (num(1) as u16, num(2) as u16, num(3) as u16, num(4) as u16);
                catch_unwind(|| match ShardAwarePortRange::new(lo..=hi) {
                    Err(_) => "BADRANGE".to_string(),
                    Ok(r) => match vh::lowest_port(&sharder(n, 0), shard, &r) {
                        Some(p) => p.to_string(),
                        None => "None".to_string(),
                    },
                })
                .unwrap_or("PANIC".into())
            }
            "shard_info_new" => {
                let (shard, n, m) = (num(1) as u16, num(2) as u16, num(3) as u8);
                match vh::shard_info_new(shard, NonZeroU16::new(n).unwrap(), m) {
                    Some((s, nn, mm)) => format!("Ok {} {} {}", s, nn.get(), mm),
                    None => "Err".to_string(),
                }
            }
            // draw <n> <shard> <lo> <hi> <reps>: property of every draw with the real RNG
            "draw" => {
                let (n, shard, lo, hi, reps) = (num(1) as u16, num(2) as u16, num(3) as u16, num(4) as u16, num(5));
                catch_unwind(|| {
                    let r = ShardAwarePortRange::new(lo..=hi).unwrap();
                    let want = congruent_ports(n, shard, lo, hi);
                    for _ in 0..reps {
                        match vh::draw_from_range(&sharder(n, 0), shard as u32, &r) {
                            Some(p) => {
                                if !want.contains(&p) {
                                    return format!("BAD drew {}", p);
                                }
                            }
                            None => {
                                if !want.is_empty() {
                                    return "BAD none-but-exists".to_string();
                                }
                            }
                        }
                    }
                    "OK".to_string()
                })
                .unwrap_or("PANIC".into())
            }
            "iter" => {
                let (n, shard, lo, hi, reps) = (num(1) as u16, num(2) as u16, num(3) as u16, num(4) as u16, num(5));
                catch_unwind(|| {
                    let r = ShardAwarePortRange::new(lo..=hi).unwrap();
                    let mut want = congruent_ports(n, shard, lo, hi);
                    want.sort();
                    for _ in 0..reps {
                        let mut got: Vec<u16> = vh::iter_from_range(&sharder(n, 0), shard as u32, &r).collect();
                        got.sort();
                        if got != want {
                            return format!("BAD got {:?} want {:?}", got, want);
                        }
                    }
                    "OK".to_string()
                })
                .unwrap_or("PANIC".into())
            }
            "fmix" => vh::murmur3_fmix(num(1) as i64).to_string(),
            "hash16" => {
                let (h1, h2, k1, k2) = (num(1) as i64, num(2) as i64, num(3) as i64, num(4) as i64);
                let mut h = vh::murmur3_from_state(0, [0; 16], h1, h2);
                vh::murmur3_hash_16_bytes(&mut h, k1, k2);
                let (_, _, a, b) = vh::murmur3_state(&h);
                format!("{} {}", a, b)
            }
            // tablets <N> (<first> <last>)*N <nf> <nl> <q>: pre-state installed raw, one add_tablet, then list + lookup
            "tablets" => {
                let n = num(1) as usize;
                let vals: Vec<i64> = (2..a.len()).map(|i| num(i) as i64).collect();
                catch_unwind(|| {
                    let mut t = vh::Tablets::new();
                    for i in 0..n {
                        t.push_raw(vals[2 * i], vals[2 * i + 1], i as u32);
                    }
                    let (nf, nl, q) = (vals[2 * n], vals[2 * n + 1], vals[2 * n + 2]);
                    t.add(nf, nl, 1000);
                    let mut s = String::from("LIST");
                    for i in 0..t.len() {
                        let (f, l, tag) = t.get(i);
                        s.push_str(&format!(" {},{},{}", f, l, tag));
                    }
                    s.push_str(" LOOKUP ");
                    match t.lookup(q) {
                        Some((f, l, tag)) => s.push_str(&format!("{},{},{}", f, l, tag)),
                        None => s.push_str("None"),
                    }
                    s
                })
                .unwrap_or("PANIC".into())
            }
            "token_new" => Token::new(num(1) as i64).value().to_string(),
            _ => "UNKNOWN".to_string(),
        };
        println!("{}", out);
    }
}
