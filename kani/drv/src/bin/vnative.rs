//! Native evaluation of the real functions (no Kani, no stubs): used to replay SMT counterexamples
//! and to validate the MIR->SMT translator on concrete inputs. One command per stdin line.
use scylla::routing::{ShardAwarePortRange, Sharder, Token};
use scylla::verif_hooks as vh;
use std::io::BufRead;
use std::num::NonZeroU16;
use std::panic::catch_unwind;

fn sharder(n: u16, msb: u8) -> Sharder {
    Sharder::new(NonZeroU16::new(n).unwrap(), msb)
}

fn congruent_ports(n: u16, shard: u16, lo: u16, hi: u16) -> Vec<u16> {
    (lo as u32..=hi as u32).filter(|p| p % n as u32 == shard as u32).map(|p| p as u16).collect()
}

fn consistency(name: &str) -> scylla::statement::Consistency {
    use scylla::statement::Consistency::*;
    match name {
        "Any" => Any, "One" => One, "Two" => Two, "Three" => Three, "Quorum" => Quorum, "All" => All,
        "LocalQuorum" => LocalQuorum, "EachQuorum" => EachQuorum, "LocalOne" => LocalOne, "Serial" => Serial,
        _ => LocalSerial,
    }
}

fn write_type(name: &str) -> scylla::errors::WriteType {
    use scylla::errors::WriteType::*;
    match name {
        "Simple" => Simple, "Batch" => Batch, "UnloggedBatch" => UnloggedBatch, "Counter" => Counter,
        "BatchLog" => BatchLog, "Cas" => Cas, "View" => View, "Cdc" => Cdc, _ => Other("x".into()),
    }
}

struct Fields { received: i32, required: i32, alive: i32, numfailures: i32, data_present: bool, wt: String, cons: String }

fn db_error(name: &str, f: &Fields) -> Option<scylla::errors::DbError> {
    use scylla::errors::DbError::*;
    let c = consistency(&f.cons);
    Some(match name {
        "SyntaxError" => SyntaxError, "Invalid" => Invalid,
        "AlreadyExists" => AlreadyExists { keyspace: "k".into(), table: "t".into() },
        "FunctionFailure" => FunctionFailure { keyspace: "k".into(), function: "f".into(), arg_types: vec![] },
        "AuthenticationError" => AuthenticationError, "Unauthorized" => Unauthorized, "ConfigError" => ConfigError,
        "Unavailable" => Unavailable { consistency: c, required: f.required, alive: f.alive },
        "Overloaded" => Overloaded, "IsBootstrapping" => IsBootstrapping, "TruncateError" => TruncateError,
        "ReadTimeout" => ReadTimeout { consistency: c, received: f.received, required: f.required, data_present: f.data_present },
        "WriteTimeout" => WriteTimeout { consistency: c, received: f.received, required: f.required, write_type: write_type(&f.wt) },
        "ReadFailure" => ReadFailure { consistency: c, received: f.received, required: f.required, numfailures: f.numfailures, data_present: f.data_present },
        "WriteFailure" => WriteFailure { consistency: c, received: f.received, required: f.required, numfailures: f.numfailures, write_type: write_type(&f.wt) },
        "Unprepared" => Unprepared { statement_id: bytes::Bytes::new() },
        "ServerError" => ServerError, "ProtocolError" => ProtocolError,
        "Other" => Other(f.numfailures),
        _ => return None,
    })
}

fn attempt_error(name: &str, db: &str, f: &Fields) -> Option<scylla::errors::RequestAttemptError> {
    use scylla::errors::RequestAttemptError::*;
    Some(match name {
        "UnableToAllocStreamId" => UnableToAllocStreamId,
        "BrokenConnectionError" => BrokenConnectionError(scylla::errors::BrokenConnectionErrorKind::ChannelError.into()),
        "NonfinishedPagingState" => NonfinishedPagingState,
        "RepreparedIdMissingInBatch" => RepreparedIdMissingInBatch,
        "UnexpectedResponse" => UnexpectedResponse(scylla_cql::frame::response::CqlResponseKind::Ready),
        "RepreparedIdChanged" => RepreparedIdChanged { statement: "s".into(), expected_id: vec![1], reprepared_id: vec![2] },
        "DbError" => DbError(db_error(db, f)?, "msg".into()),
        _ => return None,
    })
}

/// Drives the REAL policy: primes the one-shot flags with a short history, then applies the model's error three
/// times, checking the rules of C06 on every decision and the same-target bound over the whole history.
fn retry_replay(a: &[&str]) -> String {
    use scylla::policies::retry::*;
    let pol = a[1];
    let f = Fields {
        received: a[9].parse().unwrap(), required: a[10].parse().unwrap(), alive: a[11].parse().unwrap(),
        numfailures: a[12].parse().unwrap(), data_present: a[13] == "1", wt: a[14].to_string(), cons: a[15].to_string(),
    };
    let idem = a[4] == "1";
    let cl = consistency(a[5]);
    let flags = [a[6] == "1", a[7] == "1", a[8] == "1"];
    let err = match attempt_error(a[2], a[3], &f) {
        Some(e) => e,
        None => return "UNSUPPORTED error variant cannot be constructed natively".into(),
    };
    let mut session: Box<dyn RetrySession> = match pol {
        "default" => DefaultRetryPolicy::new().new_session(),
        "downgrading" => DowngradingConsistencyRetryPolicy::new().new_session(),
        _ => FallthroughRetryPolicy::new().new_session(),
    };
    let bound = match pol { "default" => 2, "downgrading" => 1, _ => 0 };
    let q = scylla::statement::Consistency::Quorum;
    let pf = Fields { received: 1, required: 1, alive: 1, numfailures: 0, data_present: false, wt: "BatchLog".into(), cons: "Quorum".into() };
    let mut history: Vec<(scylla::errors::RequestAttemptError, bool, scylla::statement::Consistency)> = vec![];
    if pol == "default" {
        if flags[0] { history.push((attempt_error("DbError", "Unavailable", &pf).unwrap(), true, q)); }
        if flags[1] { history.push((attempt_error("DbError", "ReadTimeout", &pf).unwrap(), true, q)); }
        if flags[2] { history.push((attempt_error("DbError", "WriteTimeout", &pf).unwrap(), true, q)); }
    } else if pol == "downgrading" && flags[0] {
        history.push((attempt_error("DbError", "ReadTimeout", &pf).unwrap(), true, q));
    }
    for _ in 0..3 {
        history.push((attempt_error(a[2], a[3], &f).unwrap(), idem, cl));
    }
    drop(err);
    let mut same = 0;
    let mut log = String::new();
    for (e, idem, cl) in history.iter() {
        let d = session.decide_should_retry(RequestInfo::verif_new(e, *idem, *cl));
        log.push_str(&format!("{:?};", d));
        let resend = matches!(d, RetryDecision::RetrySameTarget(_) | RetryDecision::RetryNextTarget(_));
        if matches!(d, RetryDecision::RetrySameTarget(_)) { same += 1; }
        let class_ok = matches!(e, scylla::errors::RequestAttemptError::UnableToAllocStreamId)
            || matches!(e, scylla::errors::RequestAttemptError::DbError(scylla::errors::DbError::Unavailable { .. }, _))
            || matches!(e, scylla::errors::RequestAttemptError::DbError(scylla::errors::DbError::IsBootstrapping, _))
            || matches!(e, scylla::errors::RequestAttemptError::DbError(scylla::errors::DbError::ReadTimeout { .. }, _));
        if !*idem && resend && !class_ok {
            return format!("VIOLATES non-idempotent request re-sent after a failure that may have applied it: {}", log);
        }
        if pol == "default" && cl.is_serial() && d != RetryDecision::DontRetry {
            return format!("VIOLATES default policy retried at serial consistency: {}", log);
        }
        if pol == "fallthrough" && d != RetryDecision::DontRetry {
            return format!("VIOLATES fallthrough retried: {}", log);
        }
        if !*idem && d == RetryDecision::IgnoreWriteError {
            return format!("VIOLATES write error of a non-idempotent request ignored: {}", log);
        }
    }
    if same > bound {
        return format!("VIOLATES {} same-target retries in one history (bound {}): {}", same, bound, log);
    }
    format!("OK {}", log)
}

// retryhist <policy> <k> (<error kind> <db error kind> <idempotent 0|1> <consistency> <received> <required> <alive> <numfailures> <data_present> <write type> <db consistency>)*k:
// the real policy's fresh session is fed the k failures in order
fn retry_hist(a: &[&str]) -> String {
    use scylla::policies::retry::*;
    let pol = a[1];
    let k: usize = a[2].parse().unwrap();
    let mut session: Box<dyn RetrySession> = match pol {
        "default" => DefaultRetryPolicy::new().new_session(),
        "downgrading" => DowngradingConsistencyRetryPolicy::new().new_session(),
        _ => FallthroughRetryPolicy::new().new_session(),
    };
    let bound = match pol { "default" => 2, "downgrading" => 1, _ => 0 };
    let (mut same, mut same_rt, mut same_wt, mut next_unavail) = (0, 0, 0, 0);
    let mut log = String::new();
    for i in 0..k {
        let b = 3 + 11 * i;
        let f = Fields {
            received: a[b + 4].parse().unwrap(), required: a[b + 5].parse().unwrap(), alive: a[b + 6].parse().unwrap(),
            numfailures: a[b + 7].parse().unwrap(), data_present: a[b + 8] == "1", wt: a[b + 9].to_string(), cons: a[b + 10].to_string(),
        };
        let e = match attempt_error(a[b], a[b + 1], &f) {
            Some(e) => e,
            None => return "UNSUPPORTED error variant cannot be constructed natively".into(),
        };
        let d = session.decide_should_retry(RequestInfo::verif_new(&e, a[b + 2] == "1", consistency(a[b + 3])));
        log.push_str(&format!("{:?};", d));
        let is = |n: &str| a[b] == "DbError" && a[b + 1] == n;
        if matches!(d, RetryDecision::RetrySameTarget(_)) {
            same += 1;
            if is("ReadTimeout") { same_rt += 1; }
            if is("WriteTimeout") { same_wt += 1; }
        }
        if matches!(d, RetryDecision::RetryNextTarget(_)) && is("Unavailable") { next_unavail += 1; }
    }
    if same > bound || same_rt > 1 || same_wt > 1 || (pol == "default" && next_unavail > 1) {
        return format!("VIOLATES one-shot retries repeated within one history (same-target {} of at most {}, after read timeout {}, after write timeout {}, unavailable->next {}): {}",
                       same, bound, same_rt, same_wt, next_unavail, log);
    }
    format!("OK {}", log)
}

fn main() {
    std::panic::set_hook(Box::new(|_| {}));
    let stdin = std::io::stdin();
    for line in stdin.lock().lines() {
        let line = line.unwrap();
        let a: Vec<&str> = line.split_whitespace().collect();
        if a.is_empty() {
            continue;
        }
        let num = |i: usize| -> i128 { a[i].parse::<i128>().unwrap() };
        let out = match a[0] {
            "shard_of" => {
                let (t, n, m) = (num(1) as i64, num(2) as u16, num(3) as u8);
                // FromStr builds the token without the i64::MIN normalisation of Token::new
                catch_unwind(|| sharder(n, m).shard_of(t.to_string().parse::<Token>().unwrap()).to_string()).unwrap_or("PANIC".into())
            }
            "shard_of_port" => {
                let (p, n) = (num(1) as u16, num(2) as u16);
                catch_unwind(|| sharder(n, 0).shard_of_source_port(p).to_string()).unwrap_or("PANIC".into())
            }
            "lowest_port" => {
                let (n, shard, lo, hi) = (num(1) as u16, num(2) as u16, num(3) as u16, num(4) as u16);
                catch_unwind(|| match ShardAwarePortRange::new(lo..=hi) {
                    Err(_) => "BADRANGE".to_string(),
                    Ok(r) => match vh::lowest_port(&sharder(n, 0), shard, &r) {
                        Some(p) => p.to_string(),
                        None => "None".to_string(),
                    },
                })
                .unwrap_or("PANIC".into())
            }
            "shard_info_new" => {
                let (shard, n, m) = (num(1) as u16, num(2) as u16, num(3) as u8);
                match vh::shard_info_new(shard, NonZeroU16::new(n).unwrap(), m) {
                    Some((s, nn, mm)) => format!("Ok {} {} {}", s, nn.get(), mm),
                    None => "Err".to_string(),
                }
            }
            // draw <n> <shard> <lo> <hi> <reps>: property of every draw with the real RNG
            "draw" => {
                let (n, shard, lo, hi, reps) = (num(1) as u16, num(2) as u16, num(3) as u16, num(4) as u16, num(5));
                catch_unwind(|| {
                    let r = ShardAwarePortRange::new(lo..=hi).unwrap();
                    let want = congruent_ports(n, shard, lo, hi);
                    for _ in 0..reps {
                        match vh::draw_from_range(&sharder(n, 0), shard as u32, &r) {
                            Some(p) => {
                                if !want.contains(&p) {
                                    return format!("BAD drew {}", p);
                                }
                            }
                            None => {
                                if !want.is_empty() {
                                    return "BAD none-but-exists".to_string();
                                }
                            }
                        }
                    }
                    "OK".to_string()
                })
                .unwrap_or("PANIC".into())
            }
            "iter" => {
                let (n, shard, lo, hi, reps) = (num(1) as u16, num(2) as u16, num(3) as u16, num(4) as u16, num(5));
                catch_unwind(|| {
                    let r = ShardAwarePortRange::new(lo..=hi).unwrap();
                    let mut want = congruent_ports(n, shard, lo, hi);
                    want.sort();
                    for _ in 0..reps {
                        let mut got: Vec<u16> = vh::iter_from_range(&sharder(n, 0), shard as u32, &r).collect();
                        got.sort();
                        if got != want {
                            return format!("BAD got {:?} want {:?}", got, want);
                        }
                    }
                    "OK".to_string()
                })
                .unwrap_or("PANIC".into())
            }
            "fmix" => vh::murmur3_fmix(num(1) as i64).to_string(),
            "hash16" => {
                let (h1, h2, k1, k2) = (num(1) as i64, num(2) as i64, num(3) as i64, num(4) as i64);
                let mut h = vh::murmur3_from_state(0, [0; 16], h1, h2);
                vh::murmur3_hash_16_bytes(&mut h, k1, k2);
                let (_, _, a, b) = vh::murmur3_state(&h);
                format!("{} {}", a, b)
            }
            // tablets <N> (<first> <last>)*N <nf> <nl> <q>: pre-state installed raw, one add_tablet, then list + lookup
            "tablets" => {
                let n = num(1) as usize;
                let vals: Vec<i64> = (2..a.len()).map(|i| num(i) as i64).collect();
                catch_unwind(|| {
                    let mut t = vh::Tablets::new();
                    for i in 0..n {
                        t.push_raw(vals[2 * i], vals[2 * i + 1], i as u32);
                    }
                    let (nf, nl, q) = (vals[2 * n], vals[2 * n + 1], vals[2 * n + 2]);
                    t.add(nf, nl, 1000);
                    let mut s = String::from("LIST");
                    for i in 0..t.len() {
                        let (f, l, tag) = t.get(i);
                        s.push_str(&format!(" {},{},{}", f, l, tag));
                    }
                    s.push_str(" LOOKUP ");
                    match t.lookup(q) {
                        Some((f, l, tag)) => s.push_str(&format!("{},{},{}", f, l, tag)),
                        None => s.push_str("None"),
                    }
                    s
                })
                .unwrap_or("PANIC".into())
            }
            // retry <policy> <err variant> <db variant> <idem 0/1> <req consistency> <f0> <f1> <f2>
            //       <received> <required> <alive> <numfailures> <data_present 0/1> <write type> <err consistency>
            "retry" => retry_replay(&a),
            "retryhist" => retry_hist(&a),
            // keyspace <scalar value>*: validate the name made of these characters
            "keyspace" => {
                let name: String = (1..a.len()).map(|i| char::from_u32(num(i) as u32).unwrap_or('?')).collect();
                match vh::verify_keyspace_name(name.clone(), false) {
                    Ok((kept, _)) => if kept == name { "Ok".to_string() } else { "Ok-but-altered".to_string() },
                    Err(scylla::errors::BadKeyspaceName::Empty) => "Err Empty".to_string(),
                    Err(scylla::errors::BadKeyspaceName::TooLong(_, n)) => format!("Err TooLong {}", n),
                    Err(scylla::errors::BadKeyspaceName::IllegalCharacter(_, c)) => format!("Err IllegalCharacter {}", c as u32),
                    Err(_) => "Err other".to_string(),
                }
            }
            // finish <total_len> <h1> <h2> <16 buffer bytes>: finish() from an arbitrary hasher state
            "finish" => {
                use scylla::routing::partitioner::PartitionerHasher;
                let mut buf = [0u8; 16];
                for i in 0..16 {
                    buf[i] = num(4 + i) as u8;
                }
                let h = vh::murmur3_from_state(num(1) as u64 as usize, buf, num(2) as i64, num(3) as i64);
                h.finish().value().to_string()
            }
            // murmur3 <nsplits 0|1> [<split>] <bytes...>: token of the byte string, optionally fed in two chunks
            "murmur3" => {
                use scylla::routing::partitioner::{Murmur3Partitioner, Partitioner, PartitionerHasher};
                let two = num(1) == 1;
                let off = if two { 3 } else { 2 };
                let data: Vec<u8> = (off..a.len()).map(|i| num(i) as u8).collect();
                let mut h = Murmur3Partitioner.build_hasher();
                if two {
                    let s = num(2) as usize;
                    h.write(&data[..s]);
                    h.write(&data[s..]);
                } else {
                    h.write(&data);
                }
                h.finish().value().to_string()
            }
            // cdc <nsplits 0|1> [<split>] <bytes...>: CDC partitioner token of the byte string, optionally fed in two chunks
            "cdc" => {
                use scylla::routing::partitioner::{CDCPartitioner, Partitioner, PartitionerHasher};
                let two = num(1) == 1;
                let off = if two { 3 } else { 2 };
                let data: Vec<u8> = (off..a.len()).map(|i| num(i) as u8).collect();
                let mut h = CDCPartitioner.build_hasher();
                if two {
                    let s = num(2) as usize;
                    h.write(&data[..s]);
                    h.write(&data[s..]);
                } else {
                    h.write(&data);
                }
                h.finish().value().to_string()
            }
            // pkmeta <marker index of pk column 0> <.. of pk column 1> ...: a PREPARED result whose partition key columns sit on
            // those bind markers goes through the real frame parser; prints pk_indexes as index:sequence,...
            "pkmeta" => {
                use bytes::BufMut;
                let idx: Vec<u16> = (1..a.len()).map(|i| num(i) as u16).collect();
                let ncols = idx.iter().map(|x| *x as usize + 1).max().unwrap_or(1).min(12);
                let mut b: Vec<u8> = Vec::new();
                b.put_i32(4);                       // kind = Prepared
                b.put_u16(2); b.put_slice(b"id");   // statement id
                b.put_i32(0);                       // prepared-metadata flags: no global table spec
                b.put_i32(ncols as i32);
                b.put_i32(idx.len() as i32);
                for i in &idx { b.put_u16(*i); }
                for c in 0..ncols {
                    b.put_u16(1); b.put_slice(b"k"); b.put_u16(1); b.put_slice(b"t");
                    let name = format!("c{}", c);
                    b.put_u16(name.len() as u16); b.put_slice(name.as_bytes());
                    b.put_u16(0x0003);              // blob
                }
                b.put_i32(4); b.put_i32(0);         // result metadata: NO_METADATA, 0 columns
                let feats = scylla_cql::frame::protocol_features::ProtocolFeatures::default();
                match scylla_cql::frame::response::result::deserialize_with_features(bytes::Bytes::from(b), None, &feats) {
                    Ok(scylla_cql::frame::response::result::Result::Prepared(p)) => p
                        .prepared_metadata.pk_indexes.iter().map(|e| format!("{}:{}", e.index, e.sequence)).collect::<Vec<_>>().join(","),
                    Ok(_) => "NOT-PREPARED".to_string(),
                    Err(e) => format!("ERR {}", e).replace('\n', " "),
                }
            }
            // pktoken <index:sequence,...> <cell hex | - (empty) | null | unset> ...: PartitionKey::new + encoding + token
            "pktoken" => {
                use scylla_cql::frame::response::result::{ColumnSpec, ColumnType, NativeType, PartitionKeyIndex, PreparedMetadata, TableSpec};
                use scylla_cql::serialize::row::SerializedValues;
                let pk_indexes: Vec<PartitionKeyIndex> = a[1].split(',').filter(|s| !s.is_empty()).map(|s| {
                    let (i, q) = s.split_once(':').unwrap();
                    PartitionKeyIndex { index: i.parse().unwrap(), sequence: q.parse().unwrap() }
                }).collect();
                let cells = &a[2..];
                let typ = ColumnType::Native(NativeType::Blob);
                let mut values = SerializedValues::new();
                for c in cells {
                    match *c {
                        "null" => values.add_value(&Option::<Vec<u8>>::None, &typ).unwrap(),
                        "unset" => values.add_value(&scylla_cql::value::MaybeUnset::<Vec<u8>>::Unset, &typ).unwrap(),
                        "-" => values.add_value(&Vec::<u8>::new(), &typ).unwrap(),
                        h => {
                            let v: Vec<u8> = (0..h.len() / 2).map(|i| u8::from_str_radix(&h[2 * i..2 * i + 2], 16).unwrap()).collect();
                            values.add_value(&v, &typ).unwrap()
                        }
                    }
                }
                let col_specs: Vec<ColumnSpec<'static>> = (0..cells.len())
                    .map(|i| ColumnSpec::owned(format!("c{}", i), typ.clone(), TableSpec::owned("k".into(), "t".into()))).collect();
                let meta = PreparedMetadata { flags: 0, col_count: cells.len(), pk_indexes, col_specs };
                let mut stream: Vec<u8> = Vec::new();
                let enc = vh::pk_encode(&meta, &values, &mut |chunk: &[u8]| stream.extend_from_slice(chunk));
                let tok = vh::pk_token(&meta, &values, &scylla::routing::partitioner::PartitionerName::Murmur3);
                match (enc, tok) {
                    (Some(Ok(())), Some(Ok(t))) => format!("stream={} token={}", stream.iter().map(|b| format!("{:02x}", b)).collect::<String>(), t.value()),
                    (None, _) | (_, None) => "EXTRACTION-ERR".to_string(),
                    _ => "TOKEN-ERR".to_string(),
                }
            }
            // hmap <op>...: a<rid> allocate | o<rid> orphan | l<sid> lookup | r<sid> is the id reserved | s<ms> sleep; one result token per op
            "hmap" => {
                let mut t = vh::HandlerTable::new();
                let mut out: Vec<String> = Vec::new();
                for op in &a[1..] {
                    let (k, v) = op.split_at(1);
                    match k {
                        "a" => out.push(match t.allocate(v.parse().unwrap()) { Ok(id) => id.to_string(), Err(()) => "E".to_string() }),
                        "o" => { t.orphan(v.parse().unwrap()); out.push("-".to_string()) }
                        "l" => out.push(match t.lookup(v.parse().unwrap()) { Ok(Some(r)) => format!("H{}", r), Ok(None) => "O".to_string(), Err(()) => "M".to_string() }),
                        "r" => out.push(if t.is_reserved(v.parse().unwrap()) { "1".to_string() } else { "0".to_string() }),
                        "s" => { std::thread::sleep(std::time::Duration::from_millis(v.parse().unwrap())); out.push("-".to_string()) }
                        _ => out.push("?".to_string()),
                    }
                }
                out.join(" ")
            }
            // tflag <n> (<first> <last> <unresolved 0|1>)*n <nf> <nl> <unresolved>: table built by real adds, then one add; prints flag before/after and which tablets are unresolved
            "tflag" => {
                let n = num(1) as usize;
                let mut t = vh::Tablets::new();
                for i in 0..n {
                    let (f, l, u) = (num(2 + 3 * i) as i64, num(3 + 3 * i) as i64, num(4 + 3 * i) == 1);
                    if u { t.add(f, l, i as u32) } else { t.add_resolved(f, l) }
                }
                let before = t.flag();
                let b = 2 + 3 * n;
                if num(b + 2) == 1 { t.add(num(b) as i64, num(b + 1) as i64, 1000) } else { t.add_resolved(num(b) as i64, num(b + 1) as i64) }
                let unresolved = (0..t.len()).filter(|i| t.get(*i).2 != u32::MAX).count();
                format!("before={} after={} unresolved_after={}", before, t.flag(), unresolved)
            }
            // tinfo <table>:<first>:<last>:<unresolved 0|1> ...: TabletsInfo built by real adds; prints the flags and every table's ranges
            "tinfo" => {
                let mut info = vh::TabletsOfTables::new();
                let mut names: Vec<String> = Vec::new();
                let mut flags: Vec<String> = Vec::new();
                for op in &a[1..] {
                    let p: Vec<&str> = op.split(':').collect();
                    info.add(p[0], p[1].parse().unwrap(), p[2].parse().unwrap(), p[3] == "1");
                    if !names.contains(&p[0].to_string()) { names.push(p[0].to_string()); }
                    flags.push(if info.flag() { "1".into() } else { "0".into() });
                }
                names.sort();
                let mut out = format!("flags={}", flags.join(""));
                for nme in names {
                    let (fl, rs) = info.table(&nme).unwrap();
                    out += &format!(" {}={}:{}", nme, if fl { 1 } else { 0 }, rs.iter().map(|(x, y)| format!("{},{}", x, y)).collect::<Vec<_>>().join(";"));
                }
                out
            }
            // nts <rf> <rack code 0..3 per node>...: NetworkTopologyStrategy replicas (node indices) of a one-datacenter ring, walk starting at the first node
            "nts" => {
                let racks: Vec<Option<String>> = (2..a.len()).map(|i| match num(i) { 0 => None, r => Some(format!("r{}", r)) }).collect();
                let got = vh::nts_walk(&racks, 0, num(1) as usize);
                if got.is_empty() { "-".to_string() } else { got.iter().map(|i| i.to_string()).collect::<Vec<_>>().join(",") }
            }
            // ringrf <compressed max rf | -> <above keys k1,k2,..|-> <rf>: tag of the pre-computed ring handed out (0 = compressed, i+1 = i-th key) or None
            "ringrf" => {
                let c = if a[1] == "-" { None } else { Some(a[1].parse::<usize>().unwrap()) };
                let above: Vec<usize> = a[2].split(',').filter(|s| *s != "-").map(|s| s.parse().unwrap()).collect();
                match vh::precomputed_ring_for_rf(c, &above, a[3].parse().unwrap()) { Some(t) => t.to_string(), None => "None".to_string() }
            }
            // mdparams <ext 0|1> <use_cached 0|1> <column count> <metadata id hex|none>: skip_metadata / cached metadata used / id sent, decided by a real Connection
            "mdparams" => {
                let unhex = |s: &str| -> Vec<u8> { (0..s.len() / 2).map(|i| u8::from_str_radix(&s[2 * i..2 * i + 2], 16).unwrap()).collect() };
                let id = if a[4] == "none" { None } else { Some(unhex(a[4])) };
                let (skip, cached, sent) = vh::metadata_params(a[1] == "1", a[2] == "1", a[3].parse().unwrap(), id);
                let sent = match sent { None => "none".to_string(), Some(v) if v.is_empty() => "empty".to_string(), Some(v) => v.iter().map(|b| format!("{:02x}", b)).collect() };
                format!("skip={} cached={} id={}", skip as u8, cached as u8, sent)
            }
            // mdafter <current column count> <current id hex|none> <new column count> <new id hex|none>: the statement's metadata after a ROWS response
            "mdafter" => {
                let unhex = |s: &str| -> Vec<u8> { (0..s.len() / 2).map(|i| u8::from_str_radix(&s[2 * i..2 * i + 2], 16).unwrap()).collect() };
                let opt = |s: &str| if s == "none" { None } else { Some(unhex(s)) };
                let (cols, id) = vh::metadata_after_rows((a[1].parse().unwrap(), opt(a[2])), (a[3].parse().unwrap(), opt(a[4])));
                format!("{} {}", cols, match id { None => "none".to_string(), Some(v) => v.iter().map(|b| format!("{:02x}", b)).collect() })
            }
            // tmaint <n> (<first> <last> <unresolved 0|1> <resolvable now 0|1> <replica on a removed node 0|1>)*n <any node removed 0|1> <any node re-created 0|1>
            "tmaint" => {
                let n = num(1) as usize;
                let mut t = vh::Tablets::new();
                let (mut removed, mut known): (Vec<u128>, Vec<u128>) = (Vec::new(), Vec::new());
                let any_removed = num(2 + 5 * n) == 1;
                let any_recreated = num(3 + 5 * n) == 1;
                for i in 0..n {
                    let b = 2 + 5 * i;
                    let (f, l, unresolved, resolvable, on_removed) = (num(b) as i64, num(b + 1) as i64, num(b + 2) == 1, num(b + 3) == 1, num(b + 4) == 1);
                    let id = 1000 + i as u128;
                    t.add_on(f, l, id, !unresolved);
                    if unresolved && resolvable { known.push(id); }
                    if on_removed && any_removed { removed.push(id); }
                }
                if any_removed && removed.is_empty() { removed.push(9999); }
                let recreated: Vec<u128> = if any_recreated { vec![8888] } else { vec![] };
                let before = t.flag();
                t.maintain(&removed, &known, &recreated);
                let left: Vec<String> = (0..t.len()).map(|i| { let (a, b, _) = t.get(i); format!("{},{}{}", a, b, if t.is_unresolved(i) { "!" } else { "" }) }).collect();
                format!("before={} after={} left={}", before, t.flag(), if left.is_empty() { "-".to_string() } else { left.join(";") })
            }
            // shardopts <shard> <nr_shards> <msb>: each `-` (option missing), `e` (empty list), `x` (unparsable text) or a number: ShardInfo::try_from(&SUPPORTED options)
            "shardopts" => {
                use std::collections::HashMap;
                let mut opts: HashMap<String, Vec<String>> = HashMap::new();
                opts.insert("COMPRESSION".into(), vec!["lz4".into()]);
                for (k, v) in [("SCYLLA_SHARD", a[1]), ("SCYLLA_NR_SHARDS", a[2]), ("SCYLLA_SHARDING_IGNORE_MSB", a[3])] {
                    match v {
                        "-" => {}
                        "e" => { opts.insert(k.into(), vec![]); }
                        "x" => { opts.insert(k.into(), vec!["12ab".into(), "7".into()]); }
                        n => { opts.insert(k.into(), vec![n.to_string(), "bogus-second-entry".into()]); }
                    }
                }
                match vh::shard_info_from_options(&opts) {
                    Some((shard, nr, msb)) => format!("OK {} {} {}", shard, nr.get(), msb),
                    None => "ERR".to_string(),
                }
            }
            // tmaint2 <n> (<first> <last> <unresolved 0|1> <known now 0|1> <replica on a removed node 0|1> <node re-created 0|1>)*n <any node removed 0|1>:
            // maintenance with the maps ClusterState would pass (re-created nodes share the object of the current-nodes map)
            "tmaint2" => {
                let n = num(1) as usize;
                let mut t = vh::Tablets::new();
                let (mut removed, mut known, mut recreated): (Vec<u128>, Vec<u128>, Vec<u128>) = (Vec::new(), Vec::new(), Vec::new());
                let any_removed = num(2 + 6 * n) == 1;
                for i in 0..n {
                    let b = 2 + 6 * i;
                    let (f, l, unresolved, known_now, on_removed, rec) = (num(b) as i64, num(b + 1) as i64, num(b + 2) == 1, num(b + 3) == 1, num(b + 4) == 1, num(b + 5) == 1);
                    let id = 1000 + i as u128;
                    t.add_on(f, l, id, !unresolved);
                    if known_now { known.push(id); }
                    if on_removed && any_removed { removed.push(id); }
                    if rec { recreated.push(id); }
                }
                if any_removed && removed.is_empty() { removed.push(9999); }
                catch_unwind(std::panic::AssertUnwindSafe(|| {
                    t.maintain(&removed, &known, &recreated);
                    let left: Vec<String> = (0..t.len()).map(|i| { let (a, b, _) = t.get(i); format!("{},{}{}", a, b, if t.is_unresolved(i) { "!" } else { "" }) }).collect();
                    format!("after={} left={}", t.flag(), if left.is_empty() { "-".to_string() } else { left.join(";") })
                })).unwrap_or("PANIC (perform_maintenance panicked)".into())
            }
            // tmaint3 <n> (<first> <last> <unresolved 0|1>)*n <known-mask> <recreated-mask>: tablet i has two replicas (ids 1000+2i, 1001+2i) in one datacenter;
            // bit r of a mask applies to the r-th replica of every tablet. Reports panic, and whether per-DC lists mirror the full lists / re-created replicas were swapped.
            "tmaint3" => {
                let n = num(1) as usize;
                let (km, rm) = (num(2 + 3 * n), num(3 + 3 * n));
                let mut t = vh::Tablets::new();
                let (mut known, mut recreated): (Vec<u128>, Vec<u128>) = (Vec::new(), Vec::new());
                for i in 0..n {
                    let b = 2 + 3 * i;
                    let ids = [1000 + 2 * i as u128, 1001 + 2 * i as u128];
                    t.add_on_many(num(b) as i64, num(b + 1) as i64, &ids, num(b + 2) != 1);
                    for r in 0..2 {
                        if (km >> r) & 1 == 1 { known.push(ids[r]); }
                        if (rm >> r) & 1 == 1 { recreated.push(ids[r]); }
                    }
                }
                let before: Vec<_> = (0..t.len()).map(|i| (t.get(i).0, t.is_unresolved(i), t.replica_lists(i).0)).collect();
                catch_unwind(std::panic::AssertUnwindSafe(|| {
                    t.maintain(&[], &known, &recreated);
                    let (mut mirror, mut swapped) = (true, true);
                    for i in 0..t.len() {
                        let (all, per_dc) = t.replica_lists(i);
                        let flat: Vec<(u128, usize)> = per_dc.iter().flat_map(|(_, l)| l.iter().cloned()).collect();
                        if flat != all { mirror = false; }
                        if let Some((_, was_unresolved, old)) = before.iter().find(|(f, _, _)| *f == t.get(i).0) {
                            for (k, (id, ptr)) in all.iter().enumerate() {
                                if !*was_unresolved && recreated.contains(id) && old.get(k).map(|o| o.1) == Some(*ptr) { swapped = false; }
                            }
                        }
                    }
                    format!("left={} per_dc_mirrors_all={} recreated_swapped={}", t.len(), mirror, swapped)
                })).unwrap_or("PANIC (perform_maintenance panicked)".into())
            }
            // prepmeta <flags> <column count> <pk count>: a PREPARED result whose prepared metadata consists of just these three ints (then the body ends)
            "prepmeta" => {
                use bytes::BufMut;
                let mut b: Vec<u8> = Vec::new();
                b.put_i32(4);                       // kind = Prepared
                b.put_u16(2); b.put_slice(b"id");   // statement id
                b.put_u32(num(1) as u32); b.put_u32(num(2) as u32); b.put_u32(num(3) as u32);
                let feats = scylla_cql::frame::protocol_features::ProtocolFeatures::default();
                match scylla_cql::frame::response::result::deserialize_with_features(bytes::Bytes::from(b), None, &feats) {
                    Ok(_) => "OK".to_string(),
                    Err(_) => "ERR".to_string(),
                }
            }
            "token_new" => Token::new(num(1) as i64).value().to_string(),
            _ => "UNKNOWN".to_string(),
        };
        println!("{}", out);
    }
}
