//! C02 — stream-id reservation kernel (StreamIdSet): one allocate/free step from an arbitrary bitmap.
use scylla::verif_hooks::StreamIds;

const BLOCKS: usize = 512;

fn bit(bm: &[u64], id: usize) -> bool {
    (bm[id / 64] >> (id % 64)) & 1 == 1
}

/// allocate from: blocks [0,b) full, block b symbolic and not full, blocks after b symbolic.
fn alloc_at(b: usize) {
    let mut bm = [0u64; BLOCKS];
    let mut i = 0;
    while i < b {
        bm[i] = !0;
        i += 1;
    }
    let blk: u64 = kani::any();
    kani::assume(blk != !0);
    bm[b] = blk;
    // two more symbolic blocks after b (the rest zero): allocation must not look at / touch them
    let r1: u64 = kani::any();
    let r2: u64 = kani::any();
    if b + 1 < BLOCKS {
        bm[b + 1] = r1;
    }
    if b + 2 < BLOCKS {
        bm[BLOCKS - 1] = r2;
    }
    let before = bm;
    let mut s = StreamIds::from_bitmap(Box::new(bm));
    let got = s.allocate();
    let id = match got {
        Some(id) => id,
        None => {
            assert!(false, "allocate returned None although a stream id is free");
            return;
        }
    };
    assert!(id >= 0, "negative stream id");
    let id = id as usize;
    assert!(id < BLOCKS * 64);
    assert!(!bit(&before, id), "allocated a stream id that was already in use");
    let after = s.bitmap();
    assert!(bit(after, id), "allocated id not marked as used");
    // lowest free id
    assert!(id / 64 == b, "allocation skipped a block with free ids");
    let off = id % 64;
    assert!(off == 0 || (blk & ((1u64 << off) - 1)) == (1u64 << off) - 1, "not the lowest free id");
    // every other bit unchanged (symbolic probe)
    let p: usize = kani::any();
    kani::assume(p < BLOCKS * 64 && p != id);
    assert!(bit(after, p) == bit(&before, p), "allocate changed another stream id's state");
    kani::cover!(off == 63, "reach_end");
    std::mem::forget(s);
}

macro_rules! vk_c02_alloc {
    ($name:ident, $b:expr) => {
        #[kani::proof]
        #[kani::unwind(514)]
        pub fn $name() {
            alloc_at($b);
        }
    };
}

// VK: prop=C02 tier=quick cap=900
// VK-funcs: StreamIdSet::allocate (via hook StreamIds)
// VK-bounds: bitmap of 512 blocks: blocks before b=0 full, block b any u64 != all-ones, block b+1 and last block any u64; symbolic probe id; unwind 514 (512 blocks)
// VK-out: ResponseHandlerMap / router / orphaner tasks / channels: the delivery clause and all schedule quantifiers of C02 are not decided (HashMap + tokio, not encodable)
vk_c02_alloc!(c02_alloc_b0, 0);
// VK: prop=C02 tier=thorough cap=1800
// VK-funcs: StreamIdSet::allocate
// VK-bounds: as c02_alloc_b0 with b=1
vk_c02_alloc!(c02_alloc_b1, 1);
// VK: prop=C02 tier=thorough cap=1800
// VK-funcs: StreamIdSet::allocate
// VK-bounds: as c02_alloc_b0 with b=255
vk_c02_alloc!(c02_alloc_b255, 255);
// VK: prop=C02 tier=quick cap=900
// VK-funcs: StreamIdSet::allocate
// VK-bounds: as c02_alloc_b0 with b=511 (last block; id up to 32767 = i16::MAX)
vk_c02_alloc!(c02_alloc_b511, 511);
// VK: prop=C02 tier=thorough cap=1800
// VK-funcs: StreamIdSet::allocate
// VK-bounds: as c02_alloc_b0 with b=256 (first id above i16 half range)
vk_c02_alloc!(c02_alloc_b256, 256);
// VK: prop=C02 tier=thorough cap=1800
// VK-funcs: StreamIdSet::allocate
// VK-bounds: as c02_alloc_b0 with b=510
vk_c02_alloc!(c02_alloc_b510, 510);

// VK: prop=C02 tier=thorough cap=1800
// VK-funcs: StreamIdSet::{new,allocate}
// VK-bounds: exhausted id space (all 32768 bits set): allocate returns None and changes nothing; fresh set: first id is 0; unwind 514
#[kani::proof]
#[kani::unwind(514)]
pub fn c02_alloc_exhausted_and_fresh() {
    let bm = [!0u64; BLOCKS];
    let mut s = StreamIds::from_bitmap(Box::new(bm));
    assert!(s.allocate().is_none(), "allocated a stream id from an exhausted set");
    let p: usize = kani::any();
    kani::assume(p < BLOCKS * 64);
    assert!(bit(s.bitmap(), p));
    let mut f = StreamIds::new();
    assert!(f.bitmap().len() == BLOCKS);
    assert!(f.allocate() == Some(0));
    assert!(f.allocate() == Some(1));
    kani::cover!(true, "reach_end");
    std::mem::forget(s);
    std::mem::forget(f);
}

// VK: prop=C02 tier=quick cap=900
// VK-funcs: StreamIdSet::free, StreamIdSet::allocate
// VK-bounds: arbitrary bitmap (all 512 u64 symbolic), any id in 0..=32767: free clears exactly that bit; symbolic probe; then (bitmap otherwise full up to the id's block) the freed id is what allocate hands out next
#[kani::proof]
#[kani::unwind(514)]
pub fn c02_free_any() {
    let bm: [u64; BLOCKS] = kani::any();
    let before = bm;
    let mut s = StreamIds::from_bitmap(Box::new(bm));
    let id: i16 = kani::any();
    kani::assume(id >= 0);
    s.free(id);
    let after = s.bitmap();
    assert!(!bit(after, id as usize), "freed id still marked in use");
    let p: usize = kani::any();
    kani::assume(p < BLOCKS * 64 && p != id as usize);
    assert!(bit(after, p) == bit(&before, p), "free changed another stream id's state");
    kani::cover!(bit(&before, id as usize), "reach_end");
    std::mem::forget(s);
}
