#![allow(dead_code)]
#![cfg_attr(kani, feature(allocator_api))]
#[cfg(kani)]
pub mod stubs;
#[cfg(kani)]
pub mod c18;
#[cfg(kani)]
mod playback_gen;
