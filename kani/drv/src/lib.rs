#![allow(dead_code)]
#![cfg_attr(kani, feature(allocator_api))]
#[cfg(kani)]
pub mod stubs;
#[cfg(kani)]
pub mod c18;
#[cfg(kani)]
pub mod c06;
#[cfg(kani)]
pub mod c20;
#[cfg(kani)]
pub mod c11;
#[cfg(kani)]
pub mod c15;
#[cfg(kani)]
pub mod c04;
#[cfg(kani)]
pub mod c02;
#[cfg(kani)]
mod playback_gen;
