//! NOTE: these Kani harnesses are retired (tier=off): CBMC 6.11 does not get past symbolic execution of any access
//! to a `RequestAttemptError::DbError` payload (exponential `pointer_offset_bits` on the deeply nested error unions,
//! see DESIGN.md). C06 is decided by engine S (vlib/smt_c06.py) on the MIR of the same functions instead.
//! C06 — retry policy decision half: a non-idempotent request is re-sent only after a failure
//! that proves it was not applied; Default never retries at serial consistency; Fallthrough never
//! retries; same-target retries are bounded along any history.
use scylla::errors::{BrokenConnectionErrorKind, DbError, RequestAttemptError, WriteType};
use scylla_cql::frame::response::error::OperationType;
use scylla_cql::frame::response::CqlResponseKind;
use scylla::policies::retry::{
    DefaultRetryPolicy, DowngradingConsistencyRetryPolicy, FallthroughRetryPolicy, RequestInfo,
    RetryDecision, RetryPolicy, RetrySession,
};
use scylla::statement::Consistency;

fn any_consistency() -> Consistency {
    match kani::any::<u8>() % 11 {
        0 => Consistency::Any,
        1 => Consistency::One,
        2 => Consistency::Two,
        3 => Consistency::Three,
        4 => Consistency::Quorum,
        5 => Consistency::All,
        6 => Consistency::LocalQuorum,
        7 => Consistency::EachQuorum,
        8 => Consistency::LocalOne,
        9 => Consistency::Serial,
        _ => Consistency::LocalSerial,
    }
}

fn any_write_type() -> WriteType {
    match kani::any::<u8>() % 9 {
        0 => WriteType::Simple,
        1 => WriteType::Batch,
        2 => WriteType::UnloggedBatch,
        3 => WriteType::Counter,
        4 => WriteType::BatchLog,
        5 => WriteType::Cas,
        6 => WriteType::View,
        7 => WriteType::Cdc,
        _ => WriteType::Other(String::new()),
    }
}

/// error class as the property statement names them
#[derive(Clone, Copy, PartialEq, Eq)]
enum Class {
    Unavailable,
    Bootstrapping,
    NoStreamId,
    ReadTimeout,
    WriteTimeout,
    BrokenConnection,
    OverloadedServerTruncate,
    Other,
}

/// Build one symbolic error and take the decision *inside the branch that built it*, so that CBMC
/// never has to merge differently shaped heap values (Strings, Vecs, Arc<dyn Error>) before use.
fn decide_on_any_error(
    session: &mut dyn RetrySession,
    idem: bool,
    cl: Consistency,
) -> (RetryDecision, Class) {
    macro_rules! go {
        ($e:expr, $c:expr) => {{
            let err: RequestAttemptError = $e;
            let d = session.decide_should_retry(RequestInfo::verif_new(&err, idem, cl));
            std::mem::forget(err);
            (d, $c)
        }};
    }
    macro_rules! db {
        ($e:expr, $c:expr) => {
            go!(RequestAttemptError::DbError($e, String::new()), $c)
        };
    }
    let c = any_consistency();
    let (a, b, n): (i32, i32, i32) = (kani::any(), kani::any(), kani::any());
    let flag: bool = kani::any();
    match kani::any::<u8>() % 25 {
        0 => db!(DbError::SyntaxError, Class::Other),
        1 => db!(DbError::Invalid, Class::Other),
        2 => db!(DbError::AlreadyExists { keyspace: String::new(), table: String::new() }, Class::Other),
        3 => db!(
            DbError::FunctionFailure { keyspace: String::new(), function: String::new(), arg_types: Vec::new() },
            Class::Other
        ),
        4 => db!(DbError::AuthenticationError, Class::Other),
        5 => db!(DbError::Unauthorized, Class::Other),
        6 => db!(DbError::ConfigError, Class::Other),
        7 => db!(DbError::Unavailable { consistency: c, required: a, alive: b }, Class::Unavailable),
        8 => db!(DbError::Overloaded, Class::OverloadedServerTruncate),
        9 => db!(DbError::IsBootstrapping, Class::Bootstrapping),
        10 => db!(DbError::TruncateError, Class::OverloadedServerTruncate),
        11 => db!(
            DbError::ReadTimeout { consistency: c, received: a, required: b, data_present: flag },
            Class::ReadTimeout
        ),
        12 => db!(
            DbError::WriteTimeout { consistency: c, received: a, required: b, write_type: any_write_type() },
            Class::WriteTimeout
        ),
        13 => db!(
            DbError::ReadFailure { consistency: c, received: a, required: b, numfailures: n, data_present: flag },
            Class::Other
        ),
        14 => db!(
            DbError::WriteFailure { consistency: c, received: a, required: b, numfailures: n, write_type: any_write_type() },
            Class::Other
        ),
        15 => db!(DbError::Unprepared { statement_id: bytes::Bytes::new() }, Class::Other),
        16 => db!(DbError::ServerError, Class::OverloadedServerTruncate),
        17 => db!(DbError::ProtocolError, Class::Other),
        18 => db!(
            DbError::RateLimitReached {
                op_type: if flag { OperationType::Read } else { OperationType::Write },
                rejected_by_coordinator: kani::any(),
            },
            Class::Other
        ),
        19 => db!(DbError::Other(n), Class::Other),
        20 => go!(RequestAttemptError::UnableToAllocStreamId, Class::NoStreamId),
        21 => go!(
            RequestAttemptError::BrokenConnectionError(BrokenConnectionErrorKind::ChannelError.into()),
            Class::BrokenConnection
        ),
        22 => go!(RequestAttemptError::NonfinishedPagingState, Class::Other),
        23 => go!(RequestAttemptError::RepreparedIdMissingInBatch, Class::Other),
        _ => go!(RequestAttemptError::UnexpectedResponse(CqlResponseKind::Ready), Class::Other),
    }
}

#[derive(Clone, Copy, PartialEq, Eq)]
enum Pol {
    Default,
    Downgrading,
    Fallthrough,
}

/// A history of K decisions on one session; `reset()` interleaved symbolically.
fn history<const K: usize>(pol: Pol) {
    let mut session = match pol {
        Pol::Default => DefaultRetryPolicy::new().new_session(),
        Pol::Downgrading => DowngradingConsistencyRetryPolicy::new().new_session(),
        Pol::Fallthrough => FallthroughRetryPolicy::new().new_session(),
    };
    let mut same_target_retries: u32 = 0;
    let mut saw_retry_nonidem = false;
    for _ in 0..K {
        if kani::any::<bool>() {
            session.reset();
            same_target_retries = 0;
        }
        let idem: bool = kani::any();
        let cl = any_consistency();
        let (d, class) = decide_on_any_error(&mut *session, idem, cl);
        let resend = matches!(d, RetryDecision::RetrySameTarget(_) | RetryDecision::RetryNextTarget(_));
        if matches!(d, RetryDecision::RetrySameTarget(_)) {
            same_target_retries += 1;
        }
        if !idem && resend {
            saw_retry_nonidem = true;
            // re-sent only after a failure proving the attempt was not applied
            assert!(
                matches!(class, Class::Unavailable | Class::Bootstrapping | Class::NoStreamId | Class::ReadTimeout),
                "non-idempotent request re-sent after a failure that may have applied it"
            );
        }
        if !idem {
            // explicit negative list of the statement
            if matches!(class, Class::BrokenConnection | Class::OverloadedServerTruncate | Class::WriteTimeout) {
                assert!(!resend, "non-idempotent request re-sent after broken connection / overloaded / server / truncate / write timeout");
            }
        }
        match pol {
            Pol::Default => {
                if cl.is_serial() {
                    assert!(d == RetryDecision::DontRetry, "default policy retried at serial consistency");
                }
                assert!(d != RetryDecision::IgnoreWriteError);
            }
            Pol::Fallthrough => assert!(d == RetryDecision::DontRetry, "fallthrough policy retried"),
            Pol::Downgrading => {
                if !idem {
                    // IgnoreWriteError would silently swallow a write error of a non-idempotent write: only for idempotent
                    assert!(d != RetryDecision::IgnoreWriteError);
                }
            }
        }
    }
    // bounded number of same-node retries between resets
    let bound = match pol {
        Pol::Default => 2,
        Pol::Downgrading => 1,
        Pol::Fallthrough => 0,
    };
    assert!(same_target_retries <= bound, "same-target retries exceed the policy's fixed constant");
    kani::cover!(saw_retry_nonidem, "a non-idempotent request was retried at least once");
    kani::cover!(same_target_retries == bound, "bound is tight");
    kani::cover!(true, "reach_end");
    std::mem::forget(session);
}

macro_rules! vk_c06 {
    ($name:ident, $k:expr, $pol:expr) => {
        #[kani::proof]
        #[kani::unwind(6)]
        #[kani::stub(tracing::__macro_support::__is_enabled, crate::stubs::tracing_is_enabled)]
        #[kani::stub(tracing_core::callsite::DefaultCallsite::interest, crate::stubs::tracing_interest)]
        #[kani::stub(tracing_core::Event::dispatch, crate::stubs::tracing_event_dispatch)]
        pub fn $name() {
            history::<$k>($pol);
        }
    };
}

// VK: prop=C06 tier=off cap=600 stubbed=1
// VK-funcs: DefaultRetryPolicy::new_session, DefaultRetrySession::{decide_should_retry,reset}, Consistency::is_serial
// VK-bounds: history of 3 decisions on one session, reset() interleaved symbolically; each step: symbolic error over 5 RequestAttemptError variants (UnableToAllocStreamId, BrokenConnectionError, NonfinishedPagingState, RepreparedIdMissingInBatch, UnexpectedResponse) + DbError + all 20 DbError variants with all scalar fields symbolic (i32 counts, data_present, all 9 WriteTypes, error consistency), symbolic is_idempotent, request consistency over all 11 levels
// VK-assumes: tracing stubbed; string/bytes payloads of errors empty; parse-error variants of RequestAttemptError (BodyExtensionsParseError, CqlErrorParseError, CqlRequestSerialization, CqlResultParseError, SerializationError) and RepreparedIdChanged (CBMC does not finish on its three heap fields) not constructed
// VK-out: the executor honouring the decision (async run_request_speculative_fiber); histories longer than 3 (3 one-shot flags => every reachable session state is covered)
vk_c06!(c06_default_k3, 3, Pol::Default);

// VK: prop=C06 tier=off cap=600 stubbed=1
// VK-funcs: DowngradingConsistencyRetryPolicy::new_session, DowngradingConsistencyRetrySession::{decide_should_retry,reset}
// VK-bounds: as c06_default_k3 (history 3)
// VK-assumes: as c06_default_k3
// VK-out: as c06_default_k3; whether the downgraded consistency is sensible
vk_c06!(c06_downgrading_k3, 3, Pol::Downgrading);

// VK: prop=C06 tier=off cap=300 stubbed=1
// VK-funcs: FallthroughRetryPolicy::new_session, FallthroughRetrySession::decide_should_retry
// VK-bounds: history 2
// VK-assumes: as c06_default_k3
vk_c06!(c06_fallthrough_k2, 2, Pol::Fallthrough);

// VK: prop=C06 tier=off cap=1800 stubbed=1
// VK-funcs: DefaultRetrySession::{decide_should_retry,reset}
// VK-bounds: history 5
// VK-assumes: as c06_default_k3
vk_c06!(c06_default_k5, 5, Pol::Default);

// VK: prop=C06 tier=off cap=1800 stubbed=1
// VK-funcs: DowngradingConsistencyRetrySession::{decide_should_retry,reset}
// VK-bounds: history 5
// VK-assumes: as c06_default_k3
vk_c06!(c06_downgrading_k5, 5, Pol::Downgrading);

#[kani::proof]
#[kani::unwind(6)]
#[kani::stub(tracing::__macro_support::__is_enabled, crate::stubs::tracing_is_enabled)]
#[kani::stub(tracing_core::callsite::DefaultCallsite::interest, crate::stubs::tracing_interest)]
#[kani::stub(tracing_core::Event::dispatch, crate::stubs::tracing_event_dispatch)]
pub fn dbg_k1() {
    history::<1>(Pol::Default);
}
