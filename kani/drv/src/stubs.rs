//! Environment stubs shared by the drv harnesses (Kani `-Z stubbing`).
//! Every stub is listed in the VK-assumes line of the harness that uses it.

use std::time::{Duration, SystemTime, UNIX_EPOCH};

// ---- tracing: "nobody is listening" (reaching the real dispatcher ICEs Kani 0.68)
pub fn tracing_is_enabled(
    _meta: &tracing_core::Metadata<'static>,
    _interest: tracing_core::subscriber::Interest,
) -> bool {
    false
}
pub fn tracing_interest(_cs: &'static tracing_core::callsite::DefaultCallsite) -> tracing_core::subscriber::Interest {
    tracing_core::subscriber::Interest::never()
}
pub fn tracing_event_dispatch<'a>(
    _metadata: &'static tracing_core::Metadata<'static>,
    _fields: &'a tracing_core::field::ValueSet<'_>,
) where
    'a: 'a,
{
}

// ---- std::hash::RandomState::new: fixed keys (only ever used for maps that stay empty)
pub fn random_state_new() -> std::hash::RandomState {
    // RandomState is two u64 keys
    unsafe { std::mem::transmute::<[u64; 2], std::hash::RandomState>([0x0123_4567, 0x89ab_cdef]) }
}

// ---- Arc::drop_slow: leak (drop glue of Arc<Node> ICEs Kani 0.68; harnesses never hold a live Node)
pub fn arc_drop_slow<T: ?Sized, A: std::alloc::Allocator>(_this: &mut std::sync::Arc<T, A>) {}

// ---- clocks
pub fn zero_instant() -> std::time::Instant {
    unsafe { std::mem::transmute::<[u8; std::mem::size_of::<std::time::Instant>()], std::time::Instant>([0u8; std::mem::size_of::<std::time::Instant>()]) }
}
/// arbitrary monotonic-clock reading
pub fn any_std_instant() -> std::time::Instant {
    let secs: u64 = kani::any();
    let nanos: u32 = kani::any();
    kani::assume(secs < (1 << 40));
    kani::assume(nanos < 1_000_000_000);
    zero_instant() + Duration::new(secs, nanos)
}
pub fn std_instant_now() -> std::time::Instant {
    any_std_instant()
}

/// arbitrary wall-clock reading: any instant after the epoch (secs < 2^40) or any pre-epoch instant
pub fn any_system_time() -> SystemTime {
    let secs: u64 = kani::any();
    let nanos: u32 = kani::any();
    let before: bool = kani::any();
    kani::assume(secs < (1 << 40));
    kani::assume(nanos < 1_000_000_000);
    let d = Duration::new(secs, nanos);
    if before { UNIX_EPOCH - d } else { UNIX_EPOCH + d }
}

// ---- rand: thread RNG replaced by an arbitrary-value source
#[repr(align(16))]
pub struct FakeRngCore([u8; 512]);
pub fn fake_thread_rng() -> rand::rngs::ThreadRng {
    let rc = std::rc::Rc::new(std::cell::UnsafeCell::new(FakeRngCore([0u8; 512])));
    // keep one extra strong count so that dropping the fake never frees
    std::mem::forget(rc.clone());
    unsafe { std::mem::transmute::<std::rc::Rc<std::cell::UnsafeCell<FakeRngCore>>, rand::rngs::ThreadRng>(rc) }
}
pub fn rng_next_u32(_r: &mut rand::rngs::ThreadRng) -> u32 {
    kani::any()
}
pub fn rng_next_u64(_r: &mut rand::rngs::ThreadRng) -> u64 {
    kani::any()
}
