//! C11 — iterator/draw glue over the lowest-port arithmetic (which engine S decides for all inputs):
//! with the thread RNG replaced by an arbitrary-value source, every possible draw / pivot is covered.
use scylla::routing::{ShardAwarePortRange, Sharder};
use scylla::verif_hooks::{draw_from_range, iter_from_range};
use std::num::NonZeroU16;

const W: u16 = 24; // window bound: hi - lo < W

fn setup(n: u16, w: u16) -> (Sharder, u16, u16, u16, ShardAwarePortRange) {
    let lo: u16 = kani::any();
    let hi: u16 = kani::any();
    kani::assume(lo >= 1024 && lo <= hi && hi - lo < w);
    let shard: u16 = kani::any();
    kani::assume(shard < n);
    let r = match ShardAwarePortRange::new(lo..=hi) {
        Ok(r) => r,
        Err(_) => {
            assert!(false, "valid range rejected");
            unreachable!()
        }
    };
    (Sharder::new(NonZeroU16::new(n).unwrap(), 0), shard, lo, hi, r)
}

/// number of ports p in [lo,hi] with p % n == shard, and the lowest one
fn expected(n: u16, shard: u16, lo: u16, hi: u16) -> (u32, Option<u16>) {
    let mut cnt = 0u32;
    let mut first = None;
    let mut p = lo as u32;
    while p <= hi as u32 {
        if p % n as u32 == shard as u32 {
            cnt += 1;
            if first.is_none() {
                first = Some(p as u16);
            }
        }
        p += 1;
    }
    (cnt, first)
}

fn draw(n: u16) {
    let (s, shard, lo, hi, r) = setup(n, W);
    let (cnt, _first) = expected(n, shard, lo, hi);
    match draw_from_range(&s, shard as u32, &r) {
        Some(p) => {
            assert!(p >= lo && p <= hi, "drawn port outside the range");
            assert!(p % n == shard, "drawn port not congruent to the shard");
        }
        None => assert!(cnt == 0, "nothing drawn although a congruent port exists"),
    }
    kani::cover!(cnt >= 2, "reach_end");
}

fn iter(n: u16) {
    let (s, shard, lo, hi, r) = setup(n, 8);
    let (cnt, _first) = expected(n, shard, lo, hi);
    let mut seen = 0u32; // bitmask over offsets from lo (W <= 32)
    let mut got = 0u32;
    for p in iter_from_range(&s, shard as u32, &r) {
        assert!(p >= lo && p <= hi, "iterated port outside the range");
        assert!(p % n == shard, "iterated port not congruent to the shard");
        let bit = 1u32 << (p - lo);
        assert!(seen & bit == 0, "port visited twice");
        seen |= bit;
        got += 1;
    }
    assert!(got == cnt, "iterator does not visit every congruent port exactly once");
    kani::cover!(cnt >= 2, "reach_end");
}

macro_rules! vk_c11 {
    ($name:ident, $f:ident, $n:expr, $unwind:expr) => {
        #[kani::proof]
        #[kani::unwind($unwind)]
        #[kani::stub(rand::rngs::thread::rng, crate::stubs::fake_thread_rng)]
        #[kani::stub(<rand::rngs::ThreadRng as rand::RngCore>::next_u32, crate::stubs::rng_next_u32)]
        #[kani::stub(<rand::rngs::ThreadRng as rand::RngCore>::next_u64, crate::stubs::rng_next_u64)]
        pub fn $name() {
            $f($n);
        }
    };
}

// VK: prop=C11 tier=quick cap=900 stubbed=1 replay=native-rng
// VK-funcs: Sharder::draw_source_port_for_shard_from_range (+ calculate_lowest_port_for_shard_in_range, StepBy::nth, rand random_range)
// VK-bounds: nr_shards=3; symbolic shard<3; symbolic port window 1024<=lo<=hi, hi-lo<24; every value the RNG can return; unwind 26
// VK-assumes: rand::rng() replaced by a source of arbitrary u32/u64 values (stubs: rand::rngs::thread::rng, ThreadRng::next_u32/next_u64)
// VK-out: windows of 24 or more ports (arithmetic covered for all windows by the SMT obligations)
vk_c11!(c11_draw_n3, draw, 3, 26);
// VK: prop=C11 tier=thorough cap=2400 stubbed=1 replay=native-rng
// VK-funcs: as c11_draw_n3
// VK-bounds: nr_shards=7; otherwise as c11_draw_n3
// VK-assumes: as c11_draw_n3
vk_c11!(c11_draw_n7, draw, 7, 26);
// VK: prop=C11 tier=off cap=900 stubbed=1 replay=native-rng
// VK-funcs: Sharder::iter_source_ports_for_shard_from_range (+ lowest port, StepBy/Skip/Take/Chain)
// VK-bounds: nr_shards=3; symbolic shard; window hi-lo<24; every pivot the RNG can choose; unwind 26
// VK-assumes: as c11_draw_n3
vk_c11!(c11_iter_n3, iter, 3, 26);
// VK: prop=C11 tier=off cap=900 stubbed=1 replay=native-rng
// VK-funcs: as c11_iter_n3
// VK-bounds: nr_shards=7; otherwise as c11_iter_n3
// VK-assumes: as c11_draw_n3
vk_c11!(c11_iter_n7, iter, 7, 26);
// VK: prop=C11 tier=off cap=1800 stubbed=1 replay=native-rng
// VK-funcs: as c11_iter_n3
// VK-bounds: nr_shards=1 (every port congruent)
// VK-assumes: as c11_draw_n3
vk_c11!(c11_iter_n1, iter, 1, 26);
// VK: prop=C11 tier=off cap=1800 stubbed=1 replay=native-rng
// VK-funcs: as c11_draw_n3
// VK-bounds: nr_shards=1000 (window shorter than the shard count)
// VK-assumes: as c11_draw_n3
vk_c11!(c11_draw_n1000, draw, 1000, 26);
// VK: prop=C11 tier=off cap=1800 stubbed=1 replay=native-rng
// VK-funcs: as c11_iter_n3
// VK-bounds: nr_shards=2
// VK-assumes: as c11_draw_n3
vk_c11!(c11_iter_n2, iter, 2, 26);
