//! C18 — MonotonicTimestampGenerator: thread-modular (rely/guarantee) step obligation.
//!
//! Environment model, installed as the stub of `SystemTime::now` (which the real code calls
//! exactly between its `load` of `last` and its `compare_exchange`):
//!   (a) up to R interfering *successful* updates by other threads, each `last := v' > last`
//!       with symbolic v' (the rely: other threads obey the same guarantee);
//!   (b) an arbitrary clock reading (after or before the epoch; stalled/repeating/backwards
//!       clocks are all instances).
//! Guarantee proved for the calling thread: the value it returns is strictly greater than every
//! value handed out before its successful exchange, and `last` equals it afterwards.
use scylla::policies::timestamp_generator::{MonotonicTimestampGenerator, TimestampGenerator};
use std::sync::atomic::Ordering;
use std::time::SystemTime;

static mut GEN: *const MonotonicTimestampGenerator = std::ptr::null();
static mut HANDED_MAX: i64 = 0; // ghost: maximum timestamp handed out so far (by anybody)
static mut BUDGET: u32 = 0; // remaining interfering updates
static mut NOW_CALLS: u32 = 0;
static mut LAST_CLOCK_US: i128 = 0; // ghost: last clock reading in microseconds (for covers)

/// one scheduling point: another thread may complete a whole next_timestamp() here, i.e. (rely) CAS `last` upwards
/// to a value it then hands out
fn env_step() {
    unsafe {
        if BUDGET > 0 && kani::any::<bool>() {
            BUDGET -= 1;
            let cell = (&*GEN).verif_last().as_ptr();
            let cur = *cell;
            let v: i64 = kani::any();
            kani::assume(v > cur);
            kani::assume(v < i64::MAX - 8);
            *cell = v;
            HANDED_MAX = v;
        }
    }
}

pub fn env_system_time_now() -> SystemTime {
    unsafe {
        NOW_CALLS += 1;
    }
    env_step();
    crate::stubs::any_system_time()
}

// Every atomic access of the generator is a scheduling point: the stubs first let the environment run, then perform the
// operation on the cell (Kani executes one thread, so a plain read-modify-write through as_ptr() is the atomic op).
pub fn atomic_load(a: &std::sync::atomic::AtomicI64, _o: Ordering) -> i64 {
    env_step();
    unsafe { *a.as_ptr() }
}
pub fn atomic_cas(a: &std::sync::atomic::AtomicI64, current: i64, new: i64, _s: Ordering, _f: Ordering) -> Result<i64, i64> {
    env_step();
    unsafe {
        let p = a.as_ptr();
        let old = *p;
        if old == current {
            *p = new;
            Ok(old)
        } else {
            Err(old)
        }
    }
}
pub fn atomic_fetch_max(a: &std::sync::atomic::AtomicI64, v: i64, _o: Ordering) -> i64 {
    env_step();
    unsafe {
        let p = a.as_ptr();
        let old = *p;
        if v > old {
            *p = v;
        }
        old
    }
}
pub fn atomic_store(a: &std::sync::atomic::AtomicI64, v: i64, _o: Ordering) {
    env_step();
    unsafe { *a.as_ptr() = v }
}
pub fn atomic_swap(a: &std::sync::atomic::AtomicI64, v: i64, _o: Ordering) -> i64 {
    env_step();
    unsafe {
        let p = a.as_ptr();
        let old = *p;
        *p = v;
        old
    }
}
pub fn atomic_fetch_add(a: &std::sync::atomic::AtomicI64, v: i64, _o: Ordering) -> i64 {
    env_step();
    unsafe {
        let p = a.as_ptr();
        let old = *p;
        *p = old.wrapping_add(v);
        old
    }
}

fn step(with_warnings: bool, r: u32) {
    let g = if with_warnings {
        let thr_s: u64 = kani::any();
        let int_s: u64 = kani::any();
        kani::assume(thr_s < 1 << 20 && int_s < 1 << 20);
        MonotonicTimestampGenerator::new().with_warning_times(
            std::time::Duration::from_secs(thr_s),
            std::time::Duration::from_secs(int_s),
        )
    } else {
        MonotonicTimestampGenerator::new().without_warnings()
    };
    let init: i64 = kani::any();
    // bound: `last + 1` must not overflow (DESIGN §7: i64::MAX is outside the claim)
    kani::assume(init < i64::MAX - 8);
    unsafe {
        *g.verif_last().as_ptr() = init;
        GEN = &g;
        HANDED_MAX = init;
        BUDGET = r;
        NOW_CALLS = 0;
    }
    let t = g.next_timestamp();
    let handed = unsafe { HANDED_MAX };
    assert!(t > handed, "returned timestamp not above every timestamp handed out before");
    assert!(unsafe { *g.verif_last().as_ptr() } == t, "last != returned value");
    kani::cover!(unsafe { NOW_CALLS } > 1, "retried_after_interference");
    kani::cover!(true, "reach_end");
    std::mem::forget(g);
}

// VK: prop=C18 tier=quick cap=300 stubbed=1
// VK-funcs: MonotonicTimestampGenerator::{new,without_warnings,next_timestamp,compute_next}
// VK-bounds: initial last any i64 < i64::MAX-8; up to R=2 interfering successful updates by other threads per call; any clock reading (post-epoch secs<2^40 or pre-epoch); unwind 4 (=R+2) with unwinding assertion
// VK-assumes: every AtomicI64 access (load/compare_exchange/fetch_max/store/swap/fetch_add) and SystemTime::now are scheduling points where the environment (other threads obeying the same guarantee) may CAS last upwards and hand that value out; arbitrary clock; tokio/std Instant::now stubbed (arbitrary); tracing stubbed; atomics sequentially consistent (Kani); rely: other threads only ever CAS last upwards
// VK-out: last >= i64::MAX-8; memory orderings weaker than SeqCst; statement-level explicit timestamps (async Connection code)
#[kani::proof]
#[kani::unwind(5)]
#[kani::stub(std::time::SystemTime::now, env_system_time_now)]
#[kani::stub(std::sync::atomic::Atomic::<i64>::load, atomic_load)]
#[kani::stub(std::sync::atomic::Atomic::<i64>::compare_exchange, atomic_cas)]
#[kani::stub(std::sync::atomic::Atomic::<i64>::fetch_max, atomic_fetch_max)]
#[kani::stub(std::sync::atomic::Atomic::<i64>::store, atomic_store)]
#[kani::stub(std::sync::atomic::Atomic::<i64>::swap, atomic_swap)]
#[kani::stub(std::sync::atomic::Atomic::<i64>::fetch_add, atomic_fetch_add)]
#[kani::stub(std::time::Instant::now, crate::stubs::std_instant_now)]
#[kani::stub(tracing::__macro_support::__is_enabled, crate::stubs::tracing_is_enabled)]
#[kani::stub(tracing_core::callsite::DefaultCallsite::interest, crate::stubs::tracing_interest)]
#[kani::stub(tracing_core::Event::dispatch, crate::stubs::tracing_event_dispatch)]
pub fn c18_step_nowarn_r2() {
    step(false, 2);
}

// VK: prop=C18 tier=quick cap=600 stubbed=1
// VK-funcs: MonotonicTimestampGenerator::{new,with_warning_times,next_timestamp,compute_next} incl. the clock-skew warning branch (Mutex<Instant>, checked_add)
// VK-bounds: as c18_step_nowarn_r2 with R=1; warning threshold/interval any whole seconds < 2^20; unwind 3
// VK-assumes: as c18_step_nowarn_r2 (scheduling points at every atomic access); Instant::now arbitrary; tracing stubbed
// VK-out: as c18_step_nowarn_r2
#[kani::proof]
#[kani::unwind(4)]
#[kani::stub(std::time::SystemTime::now, env_system_time_now)]
#[kani::stub(std::sync::atomic::Atomic::<i64>::load, atomic_load)]
#[kani::stub(std::sync::atomic::Atomic::<i64>::compare_exchange, atomic_cas)]
#[kani::stub(std::sync::atomic::Atomic::<i64>::fetch_max, atomic_fetch_max)]
#[kani::stub(std::sync::atomic::Atomic::<i64>::store, atomic_store)]
#[kani::stub(std::sync::atomic::Atomic::<i64>::swap, atomic_swap)]
#[kani::stub(std::sync::atomic::Atomic::<i64>::fetch_add, atomic_fetch_add)]
#[kani::stub(std::time::Instant::now, crate::stubs::std_instant_now)]
#[kani::stub(tracing::__macro_support::__is_enabled, crate::stubs::tracing_is_enabled)]
#[kani::stub(tracing_core::callsite::DefaultCallsite::interest, crate::stubs::tracing_interest)]
#[kani::stub(tracing_core::Event::dispatch, crate::stubs::tracing_event_dispatch)]
pub fn c18_step_warn_r1() {
    step(true, 1);
}
