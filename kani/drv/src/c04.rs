//! C04 — ring-walk kernel: TokenRing<T> "first member clockwise from the token, then every member once".
use scylla::routing::Token;
use scylla::verif_hooks::ring_new;

fn walk<const N: usize>() {
    let mut toks = [0i64; N];
    let mut i = 0;
    while i < N {
        toks[i] = kani::any();
        kani::assume(toks[i] != i64::MIN); // Token::new maps MIN to MAX; MIN is not a ring position
        i += 1;
    }
    let ring = ring_new((0..N).map(|i| (Token::new(toks[i]), i as u8)));
    let q: i64 = kani::any();
    kani::assume(q != i64::MIN);
    let qt = Token::new(q);

    // expected first token: smallest token >= q, else global minimum
    let mut min_all = i64::MAX;
    let mut min_ge: Option<i64> = None;
    let mut i = 0;
    while i < N {
        if toks[i] < min_all {
            min_all = toks[i];
        }
        if toks[i] >= q && min_ge.map_or(true, |m| toks[i] < m) {
            min_ge = Some(toks[i]);
        }
        i += 1;
    }
    let expect_first = min_ge.unwrap_or(min_all);

    let mut seen: u32 = 0;
    let mut count = 0usize;
    let mut prev: Option<i64> = None;
    let mut wraps = 0;
    let mut first_elem: Option<u8> = None;
    for (t, e) in ring.ring_range_full(qt) {
        let tv = t.value();
        assert!((*e as usize) < N && toks[*e as usize] == tv, "element/token pairing broken");
        assert!(seen & (1 << *e) == 0, "ring member visited twice");
        seen |= 1 << *e;
        if count == 0 {
            assert!(tv == expect_first, "walk does not start at the first member clockwise from the token");
            first_elem = Some(*e);
        }
        if let Some(p) = prev {
            if tv < p {
                wraps += 1;
                assert!(tv == min_all, "after wrapping the walk must continue from the lowest token");
            }
        }
        prev = Some(tv);
        count += 1;
    }
    assert!(count == N, "walk does not visit every member exactly once");
    assert!(wraps <= 1, "more than one wrap-around");
    if N > 0 {
        // tokens before the wrap are all >= q, tokens after are all < q: checked via first + monotone + single wrap
        let g = ring.get_elem_for_token(qt);
        assert!(g.copied() == first_elem, "get_elem_for_token disagrees with the walk");
        // ring_range yields the same elements in the same order (first one checked)
        assert!(ring.ring_range(qt).next().copied() == first_elem);
    } else {
        assert!(ring.get_elem_for_token(qt).is_none());
    }
    assert!(ring.len() == N);
    kani::cover!(wraps == 1 || N < 2, "reach_end");
    std::mem::forget(ring);
}

macro_rules! vk_c04 {
    ($name:ident, $n:expr, $unwind:expr) => {
        #[kani::proof]
        #[kani::unwind($unwind)]
        pub fn $name() {
            walk::<$n>();
        }
    };
}

// VK: prop=C04 tier=quick cap=300
// VK-funcs: TokenRing::<u8>::{new,ring_range_full,ring_range,get_elem_for_token,len} (generic code shared with TokenRing<Arc<Node>> / TokenRing<Vec<Arc<Node>>>)
// VK-bounds: ring of 1 member, fully symbolic token (duplicates n/a), symbolic query token; unwind 4
// VK-out: SimpleStrategy/NTS replica selection, PrecomputedReplicas, ReplicaSet views, datacenter restriction (HashMap/HashSet/itertools::unique code not encodable in CBMC)
vk_c04!(c04_ring_n1, 1, 4);
// VK: prop=C04 tier=quick cap=300
// VK-funcs: as c04_ring_n1
// VK-bounds: ring of 2 members, fully symbolic tokens (duplicates allowed), symbolic query; unwind 5
vk_c04!(c04_ring_n2, 2, 5);
// VK: prop=C04 tier=quick cap=600
// VK-funcs: as c04_ring_n1
// VK-bounds: ring of 3 members, fully symbolic tokens (duplicates allowed), symbolic query; unwind 6
vk_c04!(c04_ring_n3, 3, 6);
// VK: prop=C04 tier=quick cap=900
// VK-funcs: as c04_ring_n1
// VK-bounds: ring of 4 members; unwind 7
vk_c04!(c04_ring_n4, 4, 7);
// VK: prop=C04 tier=thorough cap=3000
// VK-funcs: as c04_ring_n1
// VK-bounds: ring of 5 members; unwind 8
vk_c04!(c04_ring_n5, 5, 8);
// VK: prop=C04 tier=quick cap=120
// VK-funcs: as c04_ring_n1
// VK-bounds: empty ring
vk_c04!(c04_ring_n0, 0, 3);
