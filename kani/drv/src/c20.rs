//! C20 — local validation clause: a name that is not a valid keyspace identifier is rejected
//! locally (so it can never be interpolated into `USE <name>`); a valid one is kept unchanged.
use scylla::errors::BadKeyspaceName;
use scylla::verif_hooks::verify_keyspace_name;

fn allowed(c: char) -> bool {
    matches!(c, 'a'..='z' | 'A'..='Z' | '0'..='9' | '_')
}

/// independent UTF-8 scalar decoding of a *valid* UTF-8 byte string: (number of chars, first char not allowed)
fn scan(bytes: &[u8]) -> (usize, Option<char>) {
    let mut i = 0;
    let mut n = 0;
    let mut bad: Option<char> = None;
    while i < bytes.len() {
        let b = bytes[i] as u32;
        let (cp, len) = if b < 0x80 {
            (b, 1)
        } else if b < 0xE0 {
            (((b & 0x1F) << 6) | (bytes[i + 1] as u32 & 0x3F), 2)
        } else if b < 0xF0 {
            (((b & 0x0F) << 12) | ((bytes[i + 1] as u32 & 0x3F) << 6) | (bytes[i + 2] as u32 & 0x3F), 3)
        } else {
            (
                ((b & 0x07) << 18)
                    | ((bytes[i + 1] as u32 & 0x3F) << 12)
                    | ((bytes[i + 2] as u32 & 0x3F) << 6)
                    | (bytes[i + 3] as u32 & 0x3F),
                4,
            )
        };
        let c = char::from_u32(cp).unwrap();
        if bad.is_none() && !allowed(c) {
            bad = Some(c);
        }
        n += 1;
        i += len;
    }
    (n, bad)
}

/// RFC 3629 well-formedness (Unicode table 3-7), written independently of std
fn valid_utf8(b: &[u8]) -> bool {
    let mut i = 0;
    while i < b.len() {
        let x = b[i];
        let need = if x < 0x80 {
            0
        } else if (0xC2..=0xDF).contains(&x) {
            1
        } else if (0xE0..=0xEF).contains(&x) {
            2
        } else if (0xF0..=0xF4).contains(&x) {
            3
        } else {
            return false;
        };
        if need >= 1 {
            if i + need >= b.len() {
                return false;
            }
            let y = b[i + 1];
            let (lo, hi) = match x {
                0xE0 => (0xA0, 0xBF),
                0xED => (0x80, 0x9F),
                0xF0 => (0x90, 0xBF),
                0xF4 => (0x80, 0x8F),
                _ => (0x80, 0xBF),
            };
            if y < lo || y > hi {
                return false;
            }
            let mut k = 2;
            while k <= need {
                let z = b[i + k];
                if z < 0x80 || z > 0xBF {
                    return false;
                }
                k += 1;
            }
        }
        i += need + 1;
    }
    true
}

fn check_name(bytes: Vec<u8>) {
    let orig = bytes.clone();
    kani::assume(valid_utf8(&orig));
    // validity was assumed with the independent predicate above (RFC 3629 table)
    let s = unsafe { String::from_utf8_unchecked(bytes) };
    let cs: bool = kani::any();
    let (nchars, bad) = scan(&orig);
    let r = verify_keyspace_name(s, cs);
    match r {
        Ok((kept, kept_cs)) => {
            assert!(nchars >= 1 && nchars <= 48, "accepted a name of illegal length");
            assert!(bad.is_none(), "accepted a name with an illegal character");
            assert!(kept.as_bytes().len() == orig.len());
            let kb = kept.as_bytes();
            let mut i = 0;
            while i < orig.len() {
                assert!(kb[i] == orig[i], "accepted name was altered");
                i += 1;
            }
            assert!(kept_cs == cs);
            std::mem::forget(kept);
        }
        Err(e) => {
            match &e {
                BadKeyspaceName::Empty => assert!(orig.is_empty(), "Empty reported for non-empty name"),
                BadKeyspaceName::TooLong(_, n) => {
                    assert!(nchars > 48, "TooLong reported for a name of <= 48 chars");
                    assert!(*n == nchars);
                }
                BadKeyspaceName::IllegalCharacter(_, c) => {
                    assert!(nchars >= 1 && nchars <= 48);
                    assert!(bad == Some(*c), "wrong offending character reported");
                }
                _ => assert!(false, "unknown BadKeyspaceName variant"),
            }
            assert!(orig.is_empty() || nchars > 48 || bad.is_some(), "rejected a valid name");
            std::mem::forget(e);
        }
    }
    kani::cover!(true, "reach_end");
}

macro_rules! vk_c20_short {
    ($name:ident, $len:expr, $unwind:expr) => {
        #[kani::proof]
        #[kani::unwind($unwind)]
        pub fn $name() {
            let arr: [u8; $len] = kani::any();
            check_name(arr.to_vec());
        }
    };
}

// VK: prop=C20 tier=quick cap=300
// VK-funcs: VerifiedKeyspaceName::new, VerifiedKeyspaceName::verify_keyspace_name_is_valid, VerifiedKeyspaceName::as_str (via hook verify_keyspace_name)
// VK-bounds: every valid-UTF-8 byte string of length 0 (the empty name); unwind 6
// VK-out: ordering clauses of C20 (tokio pools/tasks); quoting in async Connection::use_keyspace
vk_c20_short!(c20_len0, 0, 6);
// VK: prop=C20 tier=quick cap=300
// VK-funcs: as c20_len0
// VK-bounds: every valid-UTF-8 byte string of length 1
vk_c20_short!(c20_len1, 1, 6);
// VK: prop=C20 tier=quick cap=300
// VK-funcs: as c20_len0
// VK-bounds: every valid-UTF-8 byte string of length 2 (incl. 2-byte scalars)
vk_c20_short!(c20_len2, 2, 6);
// VK: prop=C20 tier=quick cap=600
// VK-funcs: as c20_len0
// VK-bounds: every valid-UTF-8 byte string of length 3 (incl. 3-byte scalars)
vk_c20_short!(c20_len3, 3, 7);
// VK: prop=C20 tier=thorough cap=1200
// VK-funcs: as c20_len0
// VK-bounds: every valid-UTF-8 byte string of length 4 (incl. 4-byte scalars)
vk_c20_short!(c20_len4, 4, 8);

/// long names: all positions a fixed letter except two symbolic positions holding symbolic bytes
fn long_name<const L: usize>() {
    let mut arr = [b'k'; L];
    // two adjacent symbolic bytes at the end (so a 2-byte scalar can occur) and one at the front
    arr[0] = kani::any();
    arr[L - 2] = kani::any();
    arr[L - 1] = kani::any();
    check_name(arr.to_vec());
}

macro_rules! vk_c20_long {
    ($name:ident, $len:expr, $unwind:expr) => {
        #[kani::proof]
        #[kani::unwind($unwind)]
        pub fn $name() {
            long_name::<$len>();
        }
    };
}

// VK: prop=C20 tier=off cap=900
// VK-funcs: as c20_len0 (length limit boundary)
// VK-bounds: names of byte length 48 = 'k' everywhere except positions 0, L-2, L-1 which hold symbolic bytes (valid UTF-8 assumed); unwind 50
vk_c20_long!(c20_len48, 48, 50);
// VK: prop=C20 tier=off cap=900
// VK-funcs: as c20_len0 (length limit boundary)
// VK-bounds: names of byte length 49, symbolic bytes at positions 0, L-2, L-1 (a 2-byte scalar makes it 48 chars); unwind 51
vk_c20_long!(c20_len49, 49, 51);
// VK: prop=C20 tier=off cap=1800
// VK-funcs: as c20_len0
// VK-bounds: names of byte length 50, symbolic bytes at positions 0, L-2, L-1; unwind 52
vk_c20_long!(c20_len50, 50, 52);
