//! C15 — per-table tablet list: one `add_tablet` step from an arbitrary invariant-satisfying
//! pre-state keeps the list sorted/disjoint and makes lookup "latest wins, never stale".
use scylla::verif_hooks::Tablets;

const NEW_TAG: u32 = 1000;

fn step<const N: usize>() {
    let mut t = Tablets::new();
    let mut pre = [(0i64, 0i64); N];
    let mut i = 0;
    while i < N {
        let f: i64 = kani::any();
        let l: i64 = kani::any();
        // representation invariant: non-empty ranges, sorted, pairwise disjoint; i64::MIN is not a token
        kani::assume(f != i64::MIN && f <= l);
        if i > 0 {
            kani::assume(pre[i - 1].1 < f);
        }
        pre[i] = (f, l);
        t.push_raw(f, l, i as u32);
        i += 1;
    }
    let nf: i64 = kani::any();
    let nl: i64 = kani::any();
    kani::assume(nf != i64::MIN && nf <= nl);

    t.add(nf, nl, NEW_TAG);

    // ---- oracle
    let mut overlapped = 0usize;
    let mut i = 0;
    while i < N {
        if pre[i].0 <= nl && nf <= pre[i].1 {
            overlapped += 1;
        }
        i += 1;
    }
    let len = t.len();
    assert!(len == N - overlapped + 1, "wrong number of tablets after insert");
    // sorted, disjoint, well-formed; the new tablet present exactly once
    let mut news = 0;
    let mut i = 0;
    while i < len {
        let (f, l, tag) = t.get(i);
        assert!(f <= l);
        if i + 1 < len {
            let (f2, _, _) = t.get(i + 1);
            assert!(l < f2, "tablets overlap or are out of order");
        }
        if tag == NEW_TAG {
            assert!(f == nf && l == nl);
            news += 1;
        } else {
            // survivors are untouched pre-state tablets that do not overlap the new one
            let k = tag as usize;
            assert!(k < N && pre[k] == (f, l), "a surviving tablet was altered");
            assert!(!(f <= nl && nf <= l), "an overlapped tablet survived");
        }
        i += 1;
    }
    assert!(news == 1, "new tablet missing or duplicated");

    // lookup of an arbitrary token: latest wins, never stale
    let q: i64 = kani::any();
    kani::assume(q != i64::MIN);
    let r = t.lookup(q);
    if nf <= q && q <= nl {
        assert!(r == Some((nf, nl, NEW_TAG)), "token inside the new tablet not answered by it");
    } else {
        let mut expect: Option<(i64, i64, u32)> = None;
        let mut i = 0;
        while i < N {
            let (f, l) = pre[i];
            if f <= q && q <= l && !(f <= nl && nf <= l) {
                expect = Some((f, l, i as u32));
            }
            i += 1;
        }
        assert!(r == expect, "token answered by stale or wrong tablet");
    }
    kani::cover!(overlapped == N, "reach_end");
    std::mem::forget(t);
}

macro_rules! vk_c15 {
    ($name:ident, $n:expr, $unwind:expr) => {
        #[kani::proof]
        #[kani::unwind($unwind)]
        #[kani::stub(std::hash::RandomState::new, crate::stubs::random_state_new)]
        #[kani::stub(std::sync::Arc::drop_slow, crate::stubs::arc_drop_slow)]
        #[kani::stub(tracing::__macro_support::__is_enabled, crate::stubs::tracing_is_enabled)]
        #[kani::stub(tracing_core::callsite::DefaultCallsite::interest, crate::stubs::tracing_interest)]
        #[kani::stub(tracing_core::Event::dispatch, crate::stubs::tracing_event_dispatch)]
        pub fn $name() {
            step::<$n>();
        }
    };
}

// VK: prop=C15 tier=quick cap=300 stubbed=1 replay=playback
// VK-funcs: TableTablets::{add_tablet,tablet_for_token} (via hooks Tablets::{add,lookup,get,len}); slice::partition_point, Vec::{drain,insert}
// VK-bounds: pre-state = empty list; new tablet [f,l] any i64 pair f<=l (f != i64::MIN); any query token; unwind 4
// VK-assumes: tablets carry empty replica lists (identity via a tag); RandomState::new stubbed (maps stay empty); Arc::drop_slow stubbed (no live Node); tracing stubbed
// VK-out: TabletsInfo (hashbrown map per table), perform_maintenance, per-DC replica restriction, RawTablet::from_custom_payload range validation
vk_c15!(c15_add_n0, 0, 4);
// VK: prop=C15 tier=off cap=3000 stubbed=1 replay=playback
// VK-funcs: as c15_add_n0
// VK-bounds: arbitrary pre-state of 1 tablet satisfying the invariant (fully symbolic i64 bounds), symbolic new tablet, symbolic query; unwind 5
// VK-assumes: as c15_add_n0
vk_c15!(c15_add_n1, 1, 5);
// VK: prop=C15 tier=off cap=3000 stubbed=1 replay=playback
// VK-funcs: as c15_add_n0
// VK-bounds: arbitrary pre-state of 2 tablets satisfying the invariant, symbolic new tablet (all overlap relations incl. spanning both, touching at one token, ending at i64::MAX), symbolic query; unwind 6
// VK-assumes: as c15_add_n0
// VK-out: a single insert draining 3 or more tablets
vk_c15!(c15_add_n2, 2, 6);
// VK: prop=C15 tier=off cap=3000 stubbed=1 replay=playback
// VK-funcs: as c15_add_n0
// VK-bounds: arbitrary pre-state of 3 tablets; unwind 7
// VK-assumes: as c15_add_n0
vk_c15!(c15_add_n3, 3, 7);
