BASELINE = ("cd /repo && cargo nextest run --workspace --no-fail-fast --tool-config-file pb:/w/lib/nextest.toml "
            "--profile pb --test-threads 8 --offline || cargo test --workspace --no-fail-fast --offline")

NA = {
 "C05": "Plans are built from ClusterState/ReplicaLocator over Arc<Node>, HashMap<String,..>, itertools::unique and HashSet-based unique_by; HashMap insertion alone did not finish in CBMC in 10 min and there is no loop-free integer kernel to hand to SMT.",
 "C07": "The pager is a tokio producer task + bounded mpsc + Stream consumer over a live Connection; neither Kani (no runtime, no concurrency) nor a MIR->SMT encoding reaches async state machines and channels.",
 "C10": "Liveness under connection failure across try_join of reader/writer/orphaner/keepaliver tasks, sockets and timers; schedules and crash points of an I/O event loop are not encodable for a bounded model checker of sequential code.",
 "C12": "End-to-end composition through Session::execute, metadata fetch, pools and sockets; every link is async/IO; the pure pieces are decided under C03/C04/C11/C15.",
 "C13": "speculative_execution::execute is futures::select! over FuturesUnordered and tokio::time::sleep; needs a runtime and timer wheel; the only synchronous piece (can_be_ignored) decides none of the stated clauses on its own.",
 "C14": "Re-prepare / metadata-id logic lives inside async Connection::{execute_raw_with_consistency, batch, reprepare} around network round-trips and ArcSwap state; not symbolically executable with Kani or a MIR->SMT encoder.",
 "C19": "tokio::sync::Notify + async recv state machine: a fixed 3-step poll/modify/poll scenario exhausted 14 GB in CBMC (probe); symbolic schedules are out of reach and Kani has no thread interleavings.",
}

# property -> (design_ref, level text, level_note, technique)
CLAIMED = {
 "C01": ("DESIGN.md §5 C01",
         "Bounded model checking of the real serialize/deserialize code (Kani/CBMC) against an independent wire-format oracle, plus SMT obligations over the MIR of the vint kernels: for every value inside each obligation's bound the emitted bytes equal the CQL v4 encoding and decode back to the value.",
         "Bounds per obligation are in the evidence (content lengths <= 3, collections <= 2, nesting <= 2); Hash* and third-party carriers are outside. Trusts Kani/CBMC/CaDiCaL, the harness-side reference encoder, and for vint the mir2smt translator (validated per run against native execution).",
         "bounded model checking (Kani/CBMC SAT) + SMT (z3/cvc5) over MIR-derived encodings"),
}

def manifest():
    checks = []
    for pid, (ref, text, note, tech) in sorted(CLAIMED.items()):
        checks.append({
            "property_id": pid,
            "quick_cmd": f"bin/vcheck {pid} --tier quick",
            "thorough_cmd": f"bin/vcheck {pid} --tier thorough",
            "evidence_file": f"/verif/evidence/{pid}.json",
            "replay_cmd_template": "bin/vreplay {path}",
            "engine": "vcheck",
            "level_claimed": {"category": "model_checking", "text": text, "design_ref": ref},
            "level_note": note,
            "technique": tech,
        })
    na = [{"property_id": k, "reason": v} for k, v in sorted(NA.items())]
    allp = [f"C{i:02d}" for i in range(1, 21)]
    for p in allp:
        if p not in CLAIMED and p not in NA:
            na.append({"property_id": p, "reason": "check not built yet in this revision of /verif (planned, see DESIGN.md §5); not claimed until its solver-based check exists and passes on the unchanged tree"})
    return {
        "version": 1,
        "setup_cmd": "bin/vsetup",
        "hooks": {
            "guard": "cargo feature `scylla-verif` (scylla, scylla-cql, scylla-cql-core)",
            "enable": "harness crates under /verif/kani/* depend on /repo crates by path with features = [\"scylla-verif\"]; MIR dumps pass --features scylla-verif",
            "baseline_off_cmd": BASELINE,
            "source_commits": HOOK_COMMITS,
            "add_only": True,
        },
        "engines": [
            {"name": "K", "path": "/verif/kani + /verif/vlib/kanirun.py", "serves_properties": sorted(CLAIMED),
             "kind_free_text": "Kani 0.68 proof harnesses (CBMC 6.11 + CaDiCaL) over the real crates via path dependencies; recompiled from /repo on every run"},
            {"name": "S", "path": "/verif/mir2smt", "serves_properties": [p for p in sorted(CLAIMED) if p in ("C01", "C03", "C09", "C11")],
             "kind_free_text": "MIR (nightly -Zunpretty=mir of the real crate) -> SMT-LIB2 translator; z3 4.8 / z3 5.1 / cvc5 portfolio"},
        ],
        "checks": checks,
        "not_applicable": sorted(na, key=lambda x: x["property_id"]),
        "notes": "Technique family: solver-based checking of the real code. exit 0 = all obligations discharged within stated bounds; exit 1 = reproducing counterexample; exit 2 = inconclusive (never reported as pass).",
    }

HOOK_COMMITS = []
