BASELINE = ("cd /repo && cargo nextest run --workspace --no-fail-fast --tool-config-file pb:/w/lib/nextest.toml "
            "--profile pb --test-threads 8 --offline || cargo test --workspace --no-fail-fast --offline")

NA = {
 "C05": "Plans are built from ClusterState/ReplicaLocator over Arc<Node>, HashMap<String,..>, itertools::unique and HashSet-based unique_by; HashMap insertion alone did not finish in CBMC in 10 min and there is no loop-free integer kernel to hand to SMT.",
 "C07": "The pager is a tokio producer task + bounded mpsc + Stream consumer over a live Connection; neither Kani (no runtime, no concurrency) nor a MIR->SMT encoding reaches async state machines and channels.",
 "C10": "Liveness under connection failure across try_join of reader/writer/orphaner/keepaliver tasks, sockets and timers; schedules and crash points of an I/O event loop are not encodable for a bounded model checker of sequential code.",
 "C12": "End-to-end composition through Session::execute, metadata fetch, pools and sockets; every link is async/IO; the pure pieces are decided under C03/C04/C11/C15.",
 "C13": "speculative_execution::execute is futures::select! over FuturesUnordered and tokio::time::sleep; needs a runtime and timer wheel; the only synchronous piece (can_be_ignored) decides none of the stated clauses on its own.",
 "C19": "tokio::sync::Notify + async recv state machine: a fixed 3-step poll/modify/poll scenario exhausted 14 GB in CBMC (probe); symbolic schedules are out of reach and Kani has no thread interleavings.",
}

# property -> (design_ref, level text, level_note, technique)
K = "bounded model checking (Kani 0.68 / CBMC 6.11 SAT)"
S = "SMT (z3 4.8 / z3 5.1 / cvc5 portfolio) over symbolic execution of the MIR of the real functions (mir2smt)"
CLAIMED = {
 "C01": ("DESIGN.md §5 C01",
         "Bounded model checking of the real serialize/deserialize code (Kani/CBMC) against an independent wire-format oracle, plus SMT obligations over the MIR of the vint kernels (zig-zag and unsigned vint encode/decode for ALL 64-bit values): for every value inside each obligation's bound the emitted bytes equal the CQL v4 encoding and decode back to the value.",
         "Bounds per obligation are in the evidence (content lengths <= 3, collections <= 2, nesting <= 2); Hash* and third-party carriers are outside. Trusts Kani/CBMC/CaDiCaL, the harness-side reference encoder, and for vint the mir2smt translator (validated per run against native execution).",
         K + " + " + S),
 "C02": ("DESIGN.md §5 C02",
         "Two composable layers. (K) one StreamIdSet::allocate / free step from symbolic bitmaps (512 blocks) by CBMC: lowest free id handed out, never an id in use, exactly one bit changes, None iff exhausted. (S) the connection's response-handler table ResponseHandlerMap, inductively: one allocate / lookup / orphan step (MIR) from EVERY table satisfying the representation invariant, hash maps as total z3 arrays over all 65536 stream slots and 2^64 request ids: allocate never hands out an id whose bit is set (ids of orphaned, still unanswered requests included), registers exactly the given handler and touches nothing else; lookup(s) returns exactly the handler registered under s (or Orphaned / Missing) and only then releases the id; orphan(r) moves r's stream to the orphanage WITHOUT releasing the id; each step re-establishes the invariant, so the clauses hold for histories of any length.",
         "Layer S uses StreamIdSet through the contract layer K decides (compositional). The tasks that call these steps (router / writer / orphaner: tokio channels, write coalescing, cancellation points) and whether they call them at the right moments are NOT decided; request ids are assumed unique (atomic counter). K: allocation checked for the first non-full block at concrete indices {0,511} quick / {0,1,255,256,510,511} thorough with symbolic contents.",
         K + " + " + S),
 "C03": ("DESIGN.md §5 C03",
         "The Murmur3 partitioner hasher is decided against an independent bit-vector definition of Cassandra's MurmurHash3_x64_128 (signed-byte tail, Long.MIN_VALUE -> Long.MAX_VALUE): block mix and fmix for all inputs; finish() from an arbitrary hasher state for every tail length 0..15; token of every byte string of the listed lengths; every 2-way (and a grid of 3-way) chunking reaches the same hasher state; CDC partitioner = first 8 bytes big-endian, short keys give the invalid token. Composite keys: deser_prepared_metadata keeps (marker index, pk position) pairs together and sorts them by marker for ALL distinct marker indices (k <= 3 quick, 4 thorough); PartitionKey::new + write_encoded_partition_key hand the hasher the single column's bytes, or len_be16|bytes|0 per component in partition-key order, for EVERY injective placement of k key columns on m bind markers (k<=3 of m<=4 quick; k<=5 of m<=6 thorough) with non-key markers (value / null / unset) interleaved and all component bytes symbolic; calculate_token (Murmur3 and CDC) of such keys equals the specification's token.",
         "Lengths: quick {0,1,7,8,9,15,16,17,31,32,33}, thorough 0..48 and 63..65, 70. Key shapes beyond 5 components / 6 markers, component length profiles other than the listed ones, null key components and the choice of partitioner from table metadata are outside. Iterator adaptors (map is lazy, closures run from their MIR), Vec/SmallVec, sort_unstable_by_key (= any key-ordered permutation) and byteorder reads are library models. Trusted: mir2smt translator + library models.",
         S),
 "C04": ("DESIGN.md §5 C04",
         "Kernels, composable: (K) TokenRing<T> walk (new/sort, ring_range_full, ring_range, get_elem_for_token) for rings of 0..4 (thorough 5) members with fully symbolic tokens and query: starts at the first member clockwise from the token, visits each member once, wraps once. (S) NetworkTopologyStrategy selection along that walk: ReplicationInfo::nts_replicas_in_datacenter + NtsReplicasInDatacenterIterator::next drained to the end for a datacenter of n <= 4 (thorough 6) distinct nodes with SYMBOLIC racks (rack-less included) and every RF 0..n+2 equal the servers' rule (new rack, or a repeat while RF - rack count repeats remain, until min(RF, n) found); the prefix property that justifies the compressed pre-computed ring; DatacenterPrecomputedReplicas::get_replica_ring_for_rf hands out the compressed ring iff its maximum RF covers the request, otherwise the ring stored under exactly the requested RF.",
         "NOT decided: SimpleStrategy (walk + unique + take are library code), PrecomputedReplicas::compute, ReplicaLocator's HashMap plumbing and its precomputed/on-the-fly switch, DC restriction, ReplicaSet views; vnodes / duplicate ring entries in the NTS check (Itertools::unique modelled as identity); more than 4 rack values. (CBMC cannot execute HashMap insertion here.)",
         K + " + " + S),
 "C06": ("DESIGN.md §5 C06",
         "Policy-decision half, decided inductively: one decide_should_retry step of Default / DowngradingConsistency / Fallthrough from an ARBITRARY session state, every RequestAttemptError and DbError variant with all scalar fields symbolic: non-idempotent requests are re-sent only after unavailable/bootstrapping/no-stream-id/read-timeout, never after broken connection/overloaded/server/truncate/write-timeout; Default never retries at serial consistency; same-target retries consume one-shot flags (bound 2 / 1 / 0); reset clears the flags.",
         "The executor honouring the decisions (async run_request_speculative_fiber, pager, speculative execution) is NOT decided. Trusted: mir2smt translator, models of derived PartialEq / reference comparisons / tracing-disabled, enum variant order parsed from source.",
         S),
 "C08": ("DESIGN.md §5 C08",
         "Two layers. (K) absence of panic / out-of-bounds / arithmetic overflow (Kani's built-in checks, dev profile) for the synchronous low-level parsers on EVERY byte string of the stated small sizes: primitive readers, typed cells of 11 native carriers at every interesting body length, the tracing-id part of parse_response_body_extensions; successful reads advance the cursor by exactly the bytes consumed. (S) response bodies decoded from MIR against an independent CQL v4 encoder, all scalar fields and text bytes symbolic: ERROR bodies of every error code (+ negotiated rate-limit code, + arbitrary unknown code) decode to exactly what was encoded and every truncation of them is refused; column-type ids - ALL 65536 ids symbolic (the 20 native ids map to the protocol table, everything else refused) plus list/set/map/tuple/UDT encodings to depth 2 with exact consumption and every truncation; result metadata for all 16 flag combinations x metadata-id extension (column count, id, paging state, table spec / name / type per column, exact consumption, id with NO_METADATA refused); EVENT bodies (topology / status with IPv4 / IPv6, schema changes of all targets, unknown kinds refused, every truncation); AUTHENTICATE / AUTH_SUCCESS / AUTH_CHALLENGE (token absent for every negative length) / SUPPORTED; the opcode tables for all 256 bytes.",
         "K sizes are tiny (<= 17 bytes) and lengths concrete per case. NOT decided: the resource clauses (stack depth, allocation out of proportion: no stack/heap-size model; see DESIGN §7 for the sites observed), rows and the lazily decoded ROWS metadata, the custom type parser (type id 0), warnings and custom payload extensions, LZ4/Snappy, the async frame reader, non-ASCII text (from_utf8 is library code), arbitrary corruption of inner length fields beyond the truncation sweeps.",
         K + " + " + S),
 "C09": ("DESIGN.md §5 C09",
         "Every request kind the driver builds is decided against an independent CQL v4 request encoder, byte for byte, with all scalar fields and content bytes symbolic: QUERY (QueryParameters::serialize for every subset of the optional fields x small value lists; whole frame incl. the compressed shape), EXECUTE (statement id, optional result-metadata id, parameters; legacy Execute too), PREPARE, OPTIONS, AUTH_RESPONSE (no token / empty / bytes), STARTUP (string map), REGISTER (event names through the Display impl), BATCH (mixed prepared / unprepared statements, per-statement value lists with patched counts, type, consistency, serial / timestamp flags) - each under SerializedRequest::make: version 4, tracing flag, stream 0, the request's opcode, length = body size. Value-list / statement count mismatches in BATCH are refused in both directions; the numeric values of Consistency / SerialConsistency / BatchType / RequestOpcode variants as compiled equal the protocol's codes; the checked length writers refuse every oversize length (all usize values) and otherwise write the exact big-endian prefix.",
         "Shapes are small and concrete in length (ids <= 16 bytes, texts <= 3 bytes, <= 3 (4) batch statements, <= 2 cells per list, paging state <= 2 bytes); LZ4/Snappy bodies are replaced by an opaque body (only the header of compressed frames is checked); BATCH is instantiated with Vec<SerializedValues> (the typed RawBatchValuesAdapter path is C01/C17 territory); HashMap iteration order is an arbitrary fixed order. Trusted: mir2smt + library models (byte sink, iterator adaptors, Display-to-string).",
         S),
 "C11": ("DESIGN.md §5 C11",
         "shard_of == ScyllaDB's formula and < nr_shards for ALL tokens x shard counts 1..=65535 x msb 0..=63; lowest-port rule for ALL valid port ranges and shard counts (Some = lowest congruent port in range, None iff none exists); ShardInfo::new rejects iff shard >= nr_shards; ShardInfo::try_from(&SUPPORTED options) yields a ShardInfo iff the three SCYLLA_* options are present, non-empty, parse, nr_shards != 0 and shard < nr_shards (27 presence patterns x arbitrary parse results); draw_source_port_for_shard_from_range and iter_source_ports_for_shard_from_range decided for ALL ranges/shard counts with the RNG draw a symbolic value and the iterator chain given abstract sequence semantics (every yielded port is in range and congruent, every such port is yielded once, none when there is none); Kani cross-check of the same glue on small windows.",
         "INT encoding (explicit mod 2^k) for the arithmetic; translator validated every run against native execution on seeded inputs. Lemma L1 ((x + y*m) mod m == x mod m) is an ASSUMPTION of the glue obligations (no installed solver discharges it in INT or 34-bit BV within the cap; listed in the obligation's assumes). msb_ignore >= 64 and the decimal parsing of option values (std) outside.",
         S + " + " + K),
 "C14": ("DESIGN.md §5 C14",
         "Decision kernels only: Connection::calculate_cached_metadata_params and Connection::handle_result_metadata_new_id (pure functions inside the asynchronous execute path), for every combination of negotiated metadata-id extension, statement setting, cached metadata with any column count and with or without an id: the response's metadata may be omitted only when cached metadata with at least one column exists and then exactly that metadata is handed to the row decoder; a result-metadata id goes into EXECUTE iff the extension was negotiated, and it is the id of the metadata that will decode the rows (empty when there is none or when fresh metadata is requested); after a ROWS response the statement's current metadata is replaced - by exactly the response's metadata - iff that carries an id that differs from the current one, or equals it while the current metadata has no columns and the response's has some.",
         "Everything else of C14 is asynchronous connection code and NOT decided: reacting to UNPREPARED, re-preparing on the same node, comparing the re-prepared id, repeating the request with the same values, batches. Metadata = (column count, optional id), ids are abstract identities. Native replay drives a real Connection (to a local listener that never answers) and real PreparedStatement objects through hooks.",
         S),
 "C15": ("DESIGN.md §5 C15",
         "One TableTablets::add_tablet step from an ARBITRARY invariant-satisfying pre-state of N tablets (N <= 4 quick, <= 6 thorough; all bounds symbolic i64) followed by tablet_for_token on an arbitrary token: list stays sorted/disjoint, exactly the overlapped tablets disappear, lookup = newest covering tablet or nothing (never stale). Unknown-replica bookkeeping (what lets maintenance be skipped): TableTablets::add_tablet and TabletsInfo::add_tablet preserve 'unresolved tablet => table flag => info flag' and never clear a flag; TabletsInfo::add_tablet routes the tablet to the table named by its TableSpec (creating it if missing) and leaves other tables untouched. TableTablets::perform_maintenance (N <= 2, thorough 3) with the environment's answers symbolic (tablet resolvable now / has a replica on a removed node, any node removed / re-created): exactly the resolved-or-resolvable tablets without a replica on a removed node remain, in order with their old ranges, none unresolved, flag cleared - a discarded tablet's tokens are answered by nothing rather than stale data; with node objects tracked (re-created nodes share the object of the current-nodes map, as ClusterState passes them) maintenance never panics and remaining replicas of re-created hosts end at the current object.",
         "Vec/slice operations are modelled as sequence operations (partition_point on partitioned slices, drain, insert, get); the hashbrown map of TabletsInfo is an association list over concrete table names (2 existing tables + 1 new). TabletsInfo::perform_maintenance (dropping tables, HashMap::retain), the contents of replica lists (from_raw_replicas, update_stale_nodes), per-DC restriction and RawTablet::from_custom_payload validation are NOT decided.",
         S + " (+ one Kani cross-check on the empty list)"),
 "C16": ("DESIGN.md §5 C16",
         "The code GENERATED by the derive macros (MIR of the harness crate, regenerated from /repo/scylla-macros on every run) is symbolically executed for a family of 3-field structs with all field values symbolic. SerializeValue: by-name plain / allow_missing on 1st / 2nd field / forbid_excess_udt_fields / rename / skip, and enforce_order plain / forbid_excess / skip_name_checks, x 25-30 database-side field lists (all 6 permutations, every single missing field, unknown fields at every position): values land in the database's positions, unknown fields become null cells unless trailing (or an error when forbidden), a missing field is an error unless allow_missing, the ordered flavour accepts exactly the declared order (prefix rule for excess fields). DeserializeValue (type_check + deserialize, with the driver contract that deserialize runs only on type-checked types): by-name plain / allow_missing / default_when_null + Option / forbid_excess / rename + skip, and enforce_order plain / forbid_excess / skip_name_checks / allow_missing + default_when_null, x 16-21 field lists x null and absent-from-bytes patterns: every field is filled from the like-named (ordered: same-position, name-checked) UDT field, excess fields ignored unless forbidden, missing fields are type-check errors unless allow_missing, null is an error for i32 unless default_when_null and None for Option, and the generated code never panics on type-checked input.",
         "Structs of 3 fields of type i32 / Option<i32>; flatten, lifetimes/borrowed fields, > 3 fields and the row derives (SerializeRow / DeserializeRow) are NOT decided. For DeserializeValue the runtime API under the generated code (UdtIterator, leaf deserializers) is an abstract model; closures of one derive expansion share a source span, so their MIR bodies are identified by creation-site order (checked against the closure count). (Kani on the same generated code did not finish in 25 min.)",
         S),
 "C17": ("DESIGN.md §5 C17",
         "Type-check matrix: for each of 19 native carriers (integers, floats, bool, Counter, date/time/timestamp, uuid/timeuuid, inet, String, blob, varint, decimal, duration) the column type ranges symbolically over all 20 native CQL types: serialization succeeds and type_check passes iff the documented mapping allows the pair, and a refused value writes no byte; container carriers (Vec, BTreeSet, BTreeMap, tuple - empty ones included) are refused by every native column. Rollback: after a failing add_value (top-level mismatch; thorough: nested tuple failure after a partial write) SerializedValues is byte-for-byte and count-for-count unchanged, the count equals the number of encoded cells, and the object stays usable.",
         "Column types are natives (non-native columns against native carriers and two-level container mismatches are not in the quick tier); the too-many-values failure kind needs 65535 prior cells and is outside; error-path stubs as in C01 (ColumnType::clone, Arc::drop_slow).",
         K),
 "C18": ("DESIGN.md §5 C18",
         "Thread-modular (rely/guarantee) step obligation on the real next_timestamp/compute_next: an environment step (up to R interfering successful upward updates of `last` by other threads) is scheduled at EVERY atomic access of the generator (load, compare_exchange, and any fetch_max/store/swap/fetch_add a change might introduce) and the clock reading is arbitrary; the returned timestamp exceeds every timestamp handed out before and `last` equals it.",
         "Kani atomics are sequentially consistent; rely: other threads only CAS `last` upwards. last >= i64::MAX-8 excluded. 'Explicit statement timestamp wins' lives in async Connection code and is NOT decided.",
         K),
 "C20": ("DESIGN.md §5 C20",
         "Local-validation clause only: VerifiedKeyspaceName::new accepts exactly the names of 1..=48 characters from [A-Za-z0-9_], over names of every length 0..=60 made of arbitrary Unicode scalar values (quick: lengths 0,1,2,3,5,47..50,60), reports the right error variant / first offending character, and keeps accepted names unchanged; Kani cross-check at byte level (valid UTF-8 of length 0..3).",
         "All ordering clauses of C20 (pool refill, reconnects, concurrent requests) are tokio/socket code and NOT decided. &str is modelled as a sequence of scalar values in engine S.",
         S + " + " + K),
}

def manifest():
    checks = []
    for pid, (ref, text, note, tech) in sorted(CLAIMED.items()):
        checks.append({
            "property_id": pid,
            "quick_cmd": f"bin/vcheck {pid} --tier quick",
            "thorough_cmd": f"bin/vcheck {pid} --tier thorough",
            "evidence_file": f"/verif/evidence/{pid}.json",
            "replay_cmd_template": "bin/vreplay {path}",
            "engine": "vcheck",
            "level_claimed": {"category": "model_checking", "text": text, "design_ref": ref},
            "level_note": note,
            "technique": tech,
        })
    na = [{"property_id": k, "reason": v} for k, v in sorted(NA.items())]
    allp = [f"C{i:02d}" for i in range(1, 21)]
    for p in allp:
        if p not in CLAIMED and p not in NA:
            na.append({"property_id": p, "reason": "check not built yet in this revision of /verif (planned, see DESIGN.md §5); not claimed until its solver-based check exists and passes on the unchanged tree"})
    return {
        "version": 1,
        "setup_cmd": "bin/vsetup",
        "hooks": {
            "guard": "cargo feature `scylla-verif` (scylla, scylla-cql, scylla-cql-core)",
            "enable": "harness crates under /verif/kani/* depend on /repo crates by path with features = [\"scylla-verif\"]; MIR dumps pass --features scylla-verif",
            "baseline_off_cmd": BASELINE,
            "source_commits": HOOK_COMMITS,
            "add_only": True,
        },
        "engines": [
            {"name": "K", "path": "/verif/kani + /verif/vlib/kanirun.py", "serves_properties": sorted(CLAIMED),
             "kind_free_text": "Kani 0.68 proof harnesses (CBMC 6.11 + CaDiCaL) over the real crates via path dependencies; recompiled from /repo on every run"},
            {"name": "S", "path": "/verif/mir2smt", "serves_properties": [p for p in sorted(CLAIMED) if p in ("C01", "C02", "C03", "C04", "C06", "C09", "C11", "C14", "C15", "C16", "C20")],
             "kind_free_text": "MIR (nightly -Zunpretty=mir of the real crate) -> SMT-LIB2 translator; z3 4.8 / z3 5.1 / cvc5 portfolio"},
        ],
        "checks": checks,
        "not_applicable": sorted(na, key=lambda x: x["property_id"]),
        "notes": "Technique family: solver-based checking of the real code. exit 0 = all obligations discharged within stated bounds; exit 1 = reproducing counterexample; exit 2 = inconclusive (never reported as pass).",
    }

HOOK_COMMITS = ['1dd854c', 'c81cb68', '3bca3b6', '3ff90ff', 'ace7ba7', '423595e', '1865a12', '55a0502', '6db07cc', '8989f50', 'b07dfd2', '2f1ba89', '2f862e8', 'adaafd7', '8ddb525', 'a6c1b91', 'c0e73a9', 'd95edf8', '8ca7451']
