"""C15 (additions) — engine S: the 'some replica is unknown' bookkeeping that lets maintenance be skipped.

`TableTablets::add_tablet` and `TabletsInfo::add_tablet` (MIR of scylla/src/routing/locator/tablets.rs) from arbitrary pre-states:
the flag invariant  (some tablet carries unresolved replicas  =>  its table's flag is set  =>  the TabletsInfo flag is set)  is
preserved and the flags are never cleared by an insertion (maintenance skips the re-resolution pass when the flag is clear, so a
falsely clear flag leaves tablets with unknown replicas in place for ever); the tablet lands in the table named by the TableSpec,
a missing table is created, the other tables are untouched."""
import z3
from mir2smt import mir, stdmodels as sm
from mir2smt.mir import Int, Bool, Tup, Enum, Ref, Cell, Seq, Opaque, Unit
from . import smt_c15 as c15

FILE = c15.FILE
LIB = c15.LIB + ("; hashbrown::HashMap<TableSpec, TableTablets> = association list over concrete table names with entry()/or_insert_with_key() "
                 "(the closure's MIR builds the new table), TableSpec::clone = identity, tracing level check = disabled")
OPTION = mir.ENUM_VARIANTS["Option"]


def bv(v, w): return z3.BitVecVal(v, w)


def tablet(f, l, tag, failed):
    d = z3.If(failed, bv(1, 64), bv(0, 64))
    return Tup([Tup([Int(f, 64, True)], "Token"), Tup([Int(l, 64, True)], "Token"), Int(bv(tag, 32), 32, False),
                Enum(Int(d, 64, True), {1: Tup([Opaque("raw")])}, OPTION, "Option")], "Tablet")


def m_entry(it, p, callee, args):
    return Tup([args[0], args[1]], "Entry")


def m_or_insert_with_key(it, p, callee, args):
    ent, clo = args
    mref, key = ent.f
    items = sm.deref(mref).items
    for i, kv in enumerate(items):
        if kv.f[0].name == key.name:
            return Ref(mref.cell, tuple(mref.path) + (("index_const", i), ("field", 1)))
    target = sm.find_closure_by_value(it, clo, callee)
    res = it.call_mir(target, p, [clo, Ref(Cell(key))])
    if len(res) != 1 or res[0][1] is mir.PANIC:
        raise mir.Unsupported("or_insert_with_key closure does not run on a single returning path")
    q, val = res[0]
    qref = sm._reref(p, q, mref)
    sm.deref(qref).items.append(Tup([key, val]))
    n = len(sm.deref(qref).items)
    return [(q, Ref(qref.cell, tuple(qref.path) + (("index_const", n - 1), ("field", 1))))]


def models():
    m = dict(c15.models())
    m[r"^hashbrown::HashMap::<TableSpec<'_>, TableTablets>::entry$"] = m_entry
    m[r"^hashbrown::hash_map::Entry::<.*>::or_insert_with_key::<"] = m_or_insert_with_key
    m[r"^<TableSpec<'_> as Clone>::clone$"] = lambda it, p, c, a: sm.deref(a[0])
    m[r"^<Vec<Tablet> as Default>::default$"] = lambda it, p, c, a: Seq([])
    m[r"^<Level as PartialOrd<LevelFilter>>::le$"] = lambda it, p, c, a: Bool(z3.BoolVal(False))
    m["__consts__"] = {"tracing::Level::DEBUG": Opaque("level"), "tracing::level_filters::STATIC_MAX_LEVEL": Opaque("lf")}
    return m


INLINE = [r"(^|::)TableTablets::(add_tablet|new)$"]


def table_flag(ctx, mf, N):
    """TableTablets::add_tablet: flag invariant and stickiness"""
    add = mf.find(r"tablets\.rs:\d+:1: \d+:18>::add_tablet\(_1: &mut TableTablets")
    f = [z3.BitVec(f"f{i}", 64) for i in range(N)]; l = [z3.BitVec(f"l{i}", 64) for i in range(N)]
    fd = [z3.Bool(f"failed{i}") for i in range(N)]
    nf, nl = z3.BitVecs("nf nl", 64); nfd = z3.Bool("new_failed"); fl0 = z3.Bool("flag0")
    MIN = bv(1 << 63, 64)
    pre = [nf != MIN, nf <= nl, z3.Implies(z3.Or(fd) if fd else z3.BoolVal(False), fl0)]
    for i in range(N):
        pre += [f[i] != MIN, f[i] <= l[i]]
        if i > 0:
            pre.append(l[i - 1] < f[i])
    table = Tup([Opaque("spec"), Seq([tablet(f[i], l[i], i, fd[i]) for i in range(N)]), Bool(fl0)], "TableTablets")
    it = mir.Interp(mf, mir.BVBackend(), models(), max_steps=3000)
    paths = it.run(add, [Ref(Cell(table)), tablet(nf, nl, c15.NEW, nfd)], pre)
    goals, cover = [], []
    for p in paths:
        pc = z3.And(p.pc) if p.pc else z3.BoolVal(True)
        if p.outcome[0] != "return":
            goals.append(z3.Not(pc)); continue
        cover.append(pc)
        tab = sm.deref(p.locals[1].v)
        post_flag = tab.f[2].t
        conj = [z3.Implies(fl0, post_flag), z3.Implies(nfd, post_flag)]
        for t in tab.f[1].items:
            conj.append(z3.Implies(t.f[3].discr.t == 1, post_flag))
        goals.append(z3.Implies(pc, z3.And(conj)))
    goals.append(z3.Or(cover) if cover else z3.BoolVal(False))
    ctx.prove(f"c15_table_flag_n{N}_unknown_replicas_never_forgotten", pre, z3.And(goals), inputs=f + l + fd + [nf, nl, nfd, fl0],
              functions=f"TableTablets::add_tablet [{FILE}]",
              bounds=f"arbitrary table of N={N} sorted disjoint tablets, each with or without unresolved replicas (symbolic), flag consistent with them; arbitrary new tablet: "
                     "afterwards every tablet with unresolved replicas implies the flag, and a set flag stays set",
              backend="BV", assumes=LIB, witness=True, outside="perform_maintenance itself (HashSet/HashMap of Arc<Node>)", replay=lambda m, N=N: replay_table(m, N))


def info_step(ctx, mf):
    """TabletsInfo::add_tablet for a table that exists (first / second entry) or is new"""
    add = mf.find(r"::add_tablet\(_1: &mut TabletsInfo")
    goals, inputs, pre_all = [], [], []
    for case, key in enumerate(("t0", "t1", "tnew")):
        fl = [z3.Bool(f"tflag{j}_{case}") for j in range(2)]
        fd = [z3.Bool(f"tfailed{j}_{case}") for j in range(2)]
        fs = [z3.BitVec(f"tf{j}_{case}", 64) for j in range(2)]; ls = [z3.BitVec(f"tl{j}_{case}", 64) for j in range(2)]
        nf, nl = z3.BitVecs(f"inf_{case} inl_{case}", 64); nfd = z3.Bool(f"inew_failed_{case}"); gfl = z3.Bool(f"info_flag_{case}")
        MIN = bv(1 << 63, 64)
        pre = [nf != MIN, nf <= nl] + [z3.And(fs[j] != MIN, fs[j] <= ls[j]) for j in range(2)]
        pre += [z3.Implies(fd[j], fl[j]) for j in range(2)] + [z3.Implies(z3.Or(fl), gfl)]
        tables = Seq([Tup([Opaque(f"table:t{j}"), Tup([Opaque(f"table:t{j}"), Seq([tablet(fs[j], ls[j], j, fd[j])]), Bool(fl[j])], "TableTablets")]) for j in range(2)])
        info = Tup([tables, Bool(gfl)], "TabletsInfo")
        it = mir.Interp(mf, mir.BVBackend(), models(), inline=INLINE, max_steps=4000)
        paths = it.run(add, [Ref(Cell(info)), Opaque("table:" + key), tablet(nf, nl, c15.NEW, nfd)], pre)
        cover = []
        for p in paths:
            pc = z3.And(p.pc) if p.pc else z3.BoolVal(True)
            if p.outcome[0] != "return":
                goals.append(z3.Implies(z3.And(pre), z3.Not(pc))); continue
            cover.append(pc)
            post = sm.deref(p.locals[1].v)
            items = post.f[0].items
            gpost = post.f[1].t
            conj = [z3.Implies(gfl, gpost), z3.Implies(nfd, gpost), z3.BoolVal(len(items) == (3 if key == "tnew" else 2))]
            for kv in items:
                name, tab = kv.f[0].name, kv.f[1]
                conj.append(z3.Implies(tab.f[2].t, gpost))                       # table flag => info flag
                for t in tab.f[1].items:
                    conj.append(z3.Implies(t.f[3].discr.t == 1, tab.f[2].t))     # unresolved tablet => table flag
                tags = [z3.simplify(t.f[2].t).as_long() for t in tab.f[1].items]
                if name == "table:" + key:
                    conj.append(z3.BoolVal(c15.NEW in tags))                      # the tablet went into the named table
                else:
                    j = int(name[-1])
                    conj.append(z3.BoolVal(tags == [j]))                          # other tables untouched
                    if tags == [j]:
                        t = tab.f[1].items[0]
                        conj += [t.f[0].f[0].t == fs[j], t.f[1].f[0].t == ls[j], tab.f[2].t == fl[j]]
            goals.append(z3.Implies(z3.And(pre + [pc]), z3.And(conj)))
        goals.append(z3.Implies(z3.And(pre), z3.Or(cover) if cover else z3.BoolVal(False)))
        inputs += fl + fd + fs + ls + [nf, nl, nfd, gfl]; pre_all += pre
    ctx.prove("c15_info_add_tablet_routes_to_the_named_table_and_keeps_flags", [], z3.And(goals), inputs=inputs,
              functions=f"TabletsInfo::add_tablet + its or_insert_with_key closure, TableTablets::{{new,add_tablet}} [{FILE}]",
              bounds="TabletsInfo with two tables of one tablet each (bounds, unresolved-replica marks and flags symbolic, flags consistent), a new tablet for the first, "
                     "the second, or a not yet known table: the tablet lands in that table (created if missing), the other tables are untouched, and the three-level flag "
                     "invariant holds afterwards with no flag cleared",
              backend="BV", assumes=LIB, witness=False, outside="perform_maintenance; more than two tables (the code does not depend on the number of other tables)",
              replay=lambda m: replay_info(m))


def _s64(v):
    v = (v or 0) & ((1 << 64) - 1)
    return v - (1 << 64) if v >= (1 << 63) else v


def replay_table(m, N):
    """native: the table is built by real adds (so its flag is the OR of the marks), then the step; the flag must be set iff-needed"""
    from . import native
    nat = native.Native("drv")
    pre = [(_s64(m.get(f"f{i}")), _s64(m.get(f"l{i}")), 1 if m.get(f"failed{i}") else 0) for i in range(N)]
    nf, nl, nfd = _s64(m.get("nf")), _s64(m.get("nl")), 1 if m.get("new_failed") else 0
    if m.get("flag0") and not any(u for _, _, u in pre):
        # a set flag with no marked tablet left: reached natively by a marked tablet that a later add replaced (same range as the first tablet, or as the new one)
        pre = ([(pre[0][0], pre[0][1], 1)] + pre) if pre else [(nf, nl, 1)]
    cmd = f"tflag {len(pre)} " + " ".join(f"{a} {b} {u}" for a, b, u in pre) + f" {nf} {nl} {nfd}"
    got = nat.ask(cmd)
    nat.close()
    d = dict(kv.split("=") for kv in got.split()) if "=" in got else {}
    built = any(u for _, _, u in pre)                      # a marked tablet was added while building the table: the flag must be set from then on
    bad = not d or (built and d.get("before") != "true") or (d.get("before") == "true" and d.get("after") != "true") or (nfd and d.get("after") != "true") or \
        (int(d.get("unresolved_after", "0")) > 0 and d.get("after") != "true")
    return native.record("C15", f"table_flag_n{N}", {"cmd": cmd, "native": got, "expected": "after=true whenever before=true, the new tablet is unresolved, or any unresolved tablet remains"}, bool(bad))


def replay_info(m):
    from . import native
    nat = native.Native("drv")
    bad = []
    for case, key in enumerate(("t0", "t1", "tnew")):
        ops, marks = [], []
        for j in range(2):
            rng = f"{_s64(m.get(f'tf{j}_{case}'))}:{_s64(m.get(f'tl{j}_{case}'))}"
            if m.get(f"tflag{j}_{case}") and not m.get(f"tfailed{j}_{case}"):
                ops.append(f"t{j}:{rng}:1"); marks.append((f"t{j}", 1))      # set flag without a marked tablet: a marked tablet that is replaced next
            u = 1 if m.get(f"tfailed{j}_{case}") else 0
            ops.append(f"t{j}:{rng}:{u}"); marks.append((f"t{j}", u))
        nf, nl, nfd = _s64(m.get(f"inf_{case}")), _s64(m.get(f"inl_{case}")), 1 if m.get(f"inew_failed_{case}") else 0
        ops.append(f"{key}:{nf}:{nl}:{nfd}"); marks.append((key, nfd))
        got = nat.ask("tinfo " + " ".join(ops))
        # expectations: no flag ever drops; the info flag is set once any unresolved tablet was added, a table's flag once one was added to it; the new range is in
        # the named table; other tables keep theirs
        parts = dict(kv.split("=", 1) for kv in got.split()) if "=" in got else {}
        flags = parts.get("flags", "")
        want_flags = "".join("1" if any(u for _, u in marks[:k + 1]) else "0" for k in range(len(marks)))
        ok = flags == want_flags and f"{nf},{nl}" in parts.get(key, "")
        for t in {t for t, _ in marks}:
            want_t = "1" if any(u for tt, u in marks if tt == t) else "0"
            ok = ok and parts.get(t, "").startswith(want_t + ":")
        for j in range(2):
            if f"t{j}" != key:
                ok = ok and parts.get(f"t{j}", "").endswith(f":{_s64(m.get(f'tf{j}_{case}'))},{_s64(m.get(f'tl{j}_{case}'))}")
        if not ok:
            bad.append({"case": key, "ops": ops, "native": got, "expected_info_flags": want_flags})
    nat.close()
    return native.record("C15", "info_add_tablet", {"mismatches": bad[:4]}, bool(bad))


def run(ctx, mf, tier):
    steps = [(f"table_flag_n{N}", (lambda N=N: table_flag(ctx, mf, N))) for N in ((0, 1, 2) if tier == "quick" else (0, 1, 2, 3, 4))]
    steps.append(("info_step", lambda: info_step(ctx, mf)))
    for name, f in steps:
        try:
            f()
        except mir.Unsupported as e:
            ctx.add(name=f"smt:c15_translate_{name}", engine="smt:mir2smt", status="inconclusive",
                    reason="translator rejected the current source: " + str(e), functions=FILE)
        except (AttributeError, KeyError, IndexError, TypeError, ValueError) as e:
            ctx.add(name=f"smt:c15_translate_{name}", engine="smt:mir2smt", status="inconclusive",
                    reason=f"translator failed on the current source ({type(e).__name__}: {e})", functions=FILE)
