"""C04 (second part) — engine S: what `ReplicationInfo::new` computes per datacenter.

`ReplicationInfo::new` is executed from the MIR of scylla/src/routing/locator/replication_info.rs for a ring of `len(shape)` ring
entries (vnodes: an entry names one of the nodes; which node and which datacenter is fixed per case, every node's RACK is
symbolic, rack-less included).  Decided: the datacenter's ring holds exactly that datacenter's entries in ring order, its unique
node list holds each of its nodes once in first-occurrence order, and its `rack_count` — the number the NetworkTopologyStrategy
walk (c04_nts_walk_*) subtracts from RF — equals the number of distinct racks of the datacenter's nodes, a missing rack counting
as a rack of its own."""
import z3
from mir2smt import dump, mir, solve, oblig, rustenum, stdmodels as sm, itermodels as im
from mir2smt.mir import Int, Bool, Tup, Enum, Ref, Cell, Seq, Opaque, Unit

FILE = "scylla/src/routing/locator/replication_info.rs"
LIB = ("library models (trusted): TokenRing::new over entries given in token order = those entries (the sort is engine K's part), TokenRing::iter = slice iterator, "
       "HashMap<&str, Vec<_>> / HashMap<String, DatacenterNodes> = association lists over concrete datacenter names (entry/or_default/push/into_iter/insert), "
       "Itertools::unique = keep an element iff it differs from every earlier one (equality of Option<&String> racks symbolic, of nodes by object), "
       "Iterator::{map (lazy), cloned, collect, count, filter, filter_map, flatten}, Arc<Node> deref / clone transparent, Option::as_deref / as_ref identity")
OPTION = mir.ENUM_VARIANTS["Option"]


def bv(v, w): return z3.BitVecVal(v, w)


def opt_code(code, width=8):
    """Option<String>-like value from a code: 0 = None, k = Some(string number k)"""
    if isinstance(code, int):
        return Enum(Int(bv(1 if code else 0, 64), 64, True), ({1: Tup([Int(bv(code, width), width, False)])} if code else {}), OPTION, "Option")
    return Enum(Int(z3.If(code == 0, bv(0, 64), bv(1, 64)), 64, True), {1: Tup([Int(code, width, False)])}, OPTION, "Option")


def node(i, dc, rack):
    # Node { host_id, address, datacenter, rack, pool }; the object identity of the Arc is the extra trailing field
    return Tup([Int(bv(i + 1, 128), 128, False), Opaque("addr"), opt_code(dc), opt_code(rack), Opaque("pool"), Int(bv(i, 32), 32, False)], "Node")


# ---- guarded lists: the elements an iterator yields, each under a condition (symbolic filtering) -------------------------
def glist(items):
    return Tup([Seq([Tup([Bool(g), v]) for g, v in items])], "GList")


def to_glist(it, p, v):
    """-> (path', [(guard, value)])"""
    if isinstance(v, Tup) and v.name == "GList":
        return p, [(e.f[0].t, e.f[1]) for e in v.f[0].items]
    q, items = im.drain(it, p, v)
    return q, [(z3.BoolVal(True), x) for x in items]


def plain(x):
    for _ in range(4):
        if isinstance(x, Ref):
            x = sm.deref(x)
    return x


def same(a, b):
    """equality term of two plain values"""
    a, b = plain(a), plain(b)
    if isinstance(a, Int) and isinstance(b, Int):
        return a.t == b.t
    if isinstance(a, Enum) and isinstance(b, Enum):
        both = [same(a.payloads[k].f[0], b.payloads[k].f[0]) for k in a.payloads if k in b.payloads and a.payloads[k].f and b.payloads[k].f]
        return z3.And(a.discr.t == b.discr.t, z3.Or(a.discr.t == 0, *both) if both else a.discr.t == 0)
    if isinstance(a, Tup) and isinstance(b, Tup) and a.name == "Node":
        return a.f[5].t == b.f[5].t
    if isinstance(a, Tup) and isinstance(b, Tup) and len(a.f) == len(b.f):
        return z3.And([same(x, y) for x, y in zip(a.f, b.f)]) if a.f else z3.BoolVal(True)
    raise mir.Unsupported(f"equality of {str(a)[:60]} and {str(b)[:60]}")


def m_unique(it, p, callee, args):
    q, items = to_glist(it, p, args[0])
    out = []
    for i, (g, v) in enumerate(items):
        dup = [z3.And(items[j][0], same(v, items[j][1])) for j in range(i)]
        keep = z3.simplify(z3.And(g, z3.Not(z3.Or(dup)) if dup else z3.BoolVal(True)))
        if z3.is_false(keep):
            continue
        out.append((keep, v))
    if all(z3.is_true(g) for g, _ in out):
        return [(q, im.eager([v for _, v in out]))]
    return [(q, glist(out))]


def m_count(it, p, callee, args):
    q, items = to_glist(it, p, args[0])
    t = bv(0, 64)
    for g, _ in items:
        t = t + z3.If(g, bv(1, 64), bv(0, 64))
    return [(q, Int(z3.simplify(t), 64, False))]


def _closure_each(it, p, callee, args, combine):
    """run the closure on each element of args[0]; combine(guard, element, closure result) -> (guard', value') or None"""
    q, items = to_glist(it, p, args[0])
    clo = args[1]
    target = sm.find_closure_by_value(it, clo, callee)
    key, cref = im.stash(q, clo)
    out = []
    for g, v in items:
        res = it.call_mir(target, q, [cref, v])
        if len(res) != 1:
            raise mir.Unsupported(f"iterator closure forks into {len(res)} paths")
        q2, r = res[0]
        if r is mir.PANIC:
            raise mir.Panic("panic inside an iterator closure")
        cref = sm._reref(q, q2, cref); q = q2
        e = combine(g, v, r)
        if e is not None:
            out.append(e)
    im.unstash(q, key)
    return q, out


def m_filter_map(it, p, callee, args):
    def comb(g, v, r):
        r = plain(r)
        if 1 not in r.payloads:
            return None
        return (z3.simplify(z3.And(g, r.discr.t == 1)), r.payloads[1].f[0])
    q, out = _closure_each(it, p, callee, args, comb)
    out = [(g, v) for g, v in out if not z3.is_false(g)]
    return [(q, im.eager([v for _, v in out]) if all(z3.is_true(g) for g, _ in out) else glist(out))]


def m_filter(it, p, callee, args):
    def comb(g, v, r):
        return (z3.simplify(z3.And(g, plain(r).t)), v)
    q, items = to_glist(it, p, args[0])
    clo = args[1]
    target = sm.find_closure_by_value(it, clo, callee)
    key, cref = im.stash(p, clo)
    out = []
    for g, v in items:
        res = it.call_mir(target, q, [cref, Ref(Cell(v))])
        if len(res) != 1:
            raise mir.Unsupported("filter closure forks")
        q2, r = res[0]
        cref = sm._reref(q, q2, cref); q = q2
        out.append(comb(g, v, r))
    im.unstash(q, key)
    out = [(g, v) for g, v in out if not z3.is_false(g)]
    return [(q, im.eager([v for _, v in out]) if all(z3.is_true(g) for g, _ in out) else glist(out))]


def m_flatten(it, p, callee, args):
    q, items = to_glist(it, p, args[0])
    out = []
    for g, v in items:
        r = plain(v)
        if isinstance(r, Enum) and 1 in r.payloads:
            out.append((z3.simplify(z3.And(g, r.discr.t == 1)), r.payloads[1].f[0]))
        elif not isinstance(r, Enum):
            raise mir.Unsupported("flatten over non-Option elements")
    out = [(g, v) for g, v in out if not z3.is_false(g)]
    return [(q, im.eager([v for _, v in out]) if all(z3.is_true(g) for g, _ in out) else glist(out))]


def m_cloned(it, p, callee, args):
    q, items = to_glist(it, p, args[0])
    cp = [(g, mir.copy_value(plain(v))) for g, v in items]
    return [(q, im.eager([v for _, v in cp]) if all(z3.is_true(g) for g, _ in cp) else glist(cp))]


def m_len_like(it, p, callee, args):
    q, items = to_glist(it, p, args[0])
    return m_count(it, p, callee, args)


# ---- association lists keyed by concrete codes -------------------------------------------------------------------------
def key_of(k):
    k = plain(k)
    if isinstance(k, Enum):
        k = k.payloads[1].f[0]
    t = z3.simplify(k.t)
    if not z3.is_bv_value(t):
        raise mir.Unsupported("datacenter name is symbolic on this path")
    return t.as_long()


def m_map_new(it, p, callee, args):
    return Tup([Seq([])], "AssocMap")


def m_entry(it, p, callee, args):
    return Tup([args[0], args[1]], "AssocEntry")


def m_or_default(it, p, callee, args):
    e = args[0]
    mref, k = e.f[0], e.f[1]
    mp = sm.deref(mref)
    for i, ent in enumerate(mp.f[0].items):
        if key_of(ent.f[0]) == key_of(k):
            return Ref(mref.cell, tuple(mref.path) + (("field", 0), ("index_const", i), ("field", 1)))
    mp.f[0].items.append(Tup([k, Seq([])]))
    return Ref(mref.cell, tuple(mref.path) + (("field", 0), ("index_const", len(mp.f[0].items) - 1), ("field", 1)))


def m_push(it, p, callee, args):
    sm.deref(args[0]).items.append(args[1])
    return Unit()


def m_map_into_iter(it, p, callee, args):
    return im.eager([Tup([e.f[0], e.f[1]]) for e in plain(args[0]).f[0].items])


def m_map_insert(it, p, callee, args):
    mp = sm.deref(args[0])
    for ent in mp.f[0].items:
        if key_of(ent.f[0]) == key_of(args[1]):
            old = ent.f[1]; ent.f[1] = args[2]
            return sm.some(it, old)
    mp.f[0].items.append(Tup([args[1], args[2]]))
    return sm.none(it)


def m_ring_new(it, p, callee, args):
    q, items = im.drain(it, p, args[0])
    toks = []
    for x in items:
        t = z3.simplify(plain(x).f[0].f[0].t)
        if not z3.is_bv_value(t):
            raise mir.Unsupported("ring tokens must be concrete in this obligation")
        toks.append(t.as_signed_long())
    if toks != sorted(toks):
        raise mir.Unsupported("ring entries must be supplied in token order in this obligation")
    return [(q, Tup([Seq([plain(x) for x in items])], "TokenRing"))]


def models():
    m = {}
    m.update(sm.SLICE_MODELS)
    m.update(im.ITER_MODELS)
    m[r"^TokenRing::<Arc<Node>>::new::<"] = m_ring_new
    m[r"^TokenRing::<Arc<Node>>::iter$"] = lambda it, p, c, a: im.eager([Ref(a[0].cell, tuple(a[0].path) + (("field", 0), ("index_const", i))) for i in range(len(sm.deref(a[0]).f[0].items))])
    m[r" as Itertools>::unique$"] = m_unique
    m[r" as Itertools>::dedup$"] = None
    m[r" as Iterator>::cloned::<"] = m_cloned
    m[r" as Iterator>::count$"] = m_count
    m[r" as Iterator>::filter_map::<"] = m_filter_map
    m[r" as Iterator>::filter::<"] = m_filter
    m[r" as Iterator>::flatten$"] = m_flatten
    m[r" as Iterator>::collect::<Vec<"] = lambda it, p, c, a: _collect(it, p, c, a)
    m[r" as IntoIterator>::into_iter$"] = lambda it, p, c, a: (im.m_vec_into_iter(it, p, c, a) if isinstance(plain(a[0]), Seq) else
                                                             (m_map_into_iter(it, p, c, a) if isinstance(plain(a[0]), Tup) and plain(a[0]).name == "AssocMap" else a[0]))
    m[r" as Iterator>::next$"] = im.m_next
    m[r"^std::collections::HashMap::<.*>::new$"] = m_map_new
    m[r"^<std::collections::HashMap<.*> as Default>::default$"] = m_map_new
    m[r"^std::collections::HashMap::<&str, Vec<.*>>::entry$"] = m_entry
    m[r"^std::collections::hash_map::Entry::<'_, &str, Vec<.*>>::or_default$"] = m_or_default
    m[r"^Vec::<\(Token, Arc<Node>\)>::push$"] = m_push
    m[r"^std::collections::HashMap::<String, DatacenterNodes>::insert$"] = m_map_insert
    m[r"^<Arc<Node> as Deref>::deref$"] = sm.m_identity
    m[r"^<Arc<Node> as Clone>::clone$"] = lambda it, p, c, a: mir.copy_value(plain(a[0]))
    m[r"^Option::<String>::as_(deref|ref)$"] = lambda it, p, c, a: mir.copy_value(plain(a[0]))
    m[r"^<str as ToOwned>::to_owned$"] = lambda it, p, c, a: a[0]
    m[r"^<Vec<.*> as Deref>::deref$"] = sm.m_identity
    m[r"^<String as Deref>::deref$"] = sm.m_identity
    m[r"^String::as_str$"] = sm.m_identity
    m[r"^Option::<&String>::(map|cloned|copied)"] = lambda it, p, c, a: a[0]
    m[r"^Option::<.*>::is_(some|none)$"] = lambda it, p, c, a: Bool(plain(a[0]).discr.t == (1 if c.endswith("is_some") else 0))
    m[r"^Vec::<Arc<Node>>::len$"] = lambda it, p, c, a: it.const_int(len(plain(a[0]).items), "usize")
    del m[r" as Itertools>::dedup$"]
    return m


def _collect(it, p, callee, args):
    q, items = to_glist(it, p, args[0])
    if not all(z3.is_true(g) for g, _ in items):
        raise mir.Unsupported("collect over a symbolically filtered iterator")
    return [(q, Seq([v for _, v in items]))]


SHAPES_QUICK = [
    # (entry -> node, node -> datacenter code (0 = none))
    ([0], [1]),
    ([0, 1], [1, 1]),
    ([0, 1, 2], [1, 1, 1]),
    ([0, 1, 0, 2], [1, 1, 1]),               # vnodes
    ([0, 1, 2, 3], [1, 2, 1, 2]),            # two datacenters interleaved
    ([0, 1, 2, 1, 0], [1, 0, 1]),            # a node without datacenter, vnodes
    ([0, 1, 2, 3], [1, 1, 1, 1]),
]
SHAPES_THOROUGH = SHAPES_QUICK + [
    ([0, 1, 2, 3, 4], [1, 1, 1, 1, 1]),
    ([0, 1, 2, 3, 4, 5], [1, 2, 1, 2, 1, 2]),
    ([0, 1, 2, 0, 1, 2, 3], [1, 1, 2, 1]),
    ([0, 1, 2, 3, 4, 5], [1, 1, 1, 1, 1, 1]),
]


def count_distinct(racks):
    out = bv(0, 64)
    for i, r in enumerate(racks):
        first = z3.And([r != racks[j] for j in range(i)]) if i else z3.BoolVal(True)
        out = out + z3.If(first, bv(1, 64), bv(0, 64))
    return out


def info_new(ctx, mf, k, entries, dcs):
    fn = mf.find(r"replication_info\.rs[^>]*>::new\(_1: impl Iterator<Item = \(Token, Arc<Node>\)>")
    nn = len(dcs)
    racks = [z3.BitVec(f"rack{i}", 8) for i in range(nn)]
    pre = [z3.ULE(r, 3) for r in racks]
    nodes = [node(i, dcs[i], racks[i]) for i in range(nn)]
    ring = im.eager([Tup([Tup([Int(bv((j + 1) * 100, 64), 64, True)], "Token"), mir.copy_value(nodes[e])]) for j, e in enumerate(entries)])
    it = mir.Interp(mf, mir.BVBackend(), models(), max_steps=60000)
    paths = it.run(fn, [ring], pre)
    from . import smt_c04 as c04
    rf = z3.BitVec("rf", 64)
    pre.append(z3.ULE(rf, nn + 2))
    goals, cover = [], []
    for p in paths:
        pc = z3.And(p.pc[len(pre) - 1:]) if len(p.pc) > len(pre) - 1 else z3.BoolVal(True)
        if p.outcome[0] != "return":
            goals.append(z3.Not(pc)); continue
        cover.append(pc)
        info = p.outcome[1]
        conj = []
        g_ring, g_unique, dmap = info.f[0], info.f[1], info.f[2]
        conj.append(z3.BoolVal([z3.simplify(plain(x).f[1].f[5].t).as_long() for x in g_ring.f[0].items] == list(entries)))
        first_seen = []
        for e in entries:
            if e not in first_seen: first_seen.append(e)
        conj.append(z3.BoolVal([z3.simplify(plain(x).f[5].t).as_long() for x in g_unique.items] == first_seen))
        want_dcs = sorted({d for d in dcs if d and any(dcs[e] == d for e in entries)})
        got = {key_of(ent.f[0]): ent.f[1] for ent in dmap.f[0].items}
        conj.append(z3.BoolVal(sorted(got) == want_dcs))
        for d in want_dcs:
            if d not in got: continue
            dn = got[d]
            d_entries = [e for e in entries if dcs[e] == d]
            d_nodes = []
            for e in d_entries:
                if e not in d_nodes: d_nodes.append(e)
            conj.append(z3.BoolVal([z3.simplify(plain(x).f[1].f[5].t).as_long() for x in dn.f[0].f[0].items] == d_entries))
            conj.append(z3.BoolVal([z3.simplify(plain(x).f[5].t).as_long() for x in dn.f[1].items] == d_nodes))
            # the stored rack count is what the walk subtracts from RF: with it, the servers' rule must select the same nodes as with the true number of racks
            rk = [racks[e] for e in d_nodes]
            t_code, t_true = c04.spec_walk(rk, rf, dn.f[2].t), c04.spec_walk(rk, rf, count_distinct(rk))
            conj.append(z3.And([a == b for a, b in zip(t_code, t_true)]) if rk else z3.BoolVal(True))
        goals.append(z3.Implies(pc, z3.And(conj)))
    goals.append(z3.Or(cover) if cover else z3.BoolVal(False))
    ctx.prove(f"c04_replication_info_new_case{k}_rings_unique_nodes_and_rack_counts", pre, z3.And(goals), inputs=racks + [rf],
              functions=f"ReplicationInfo::new [{FILE}]",
              bounds=f"ring of {len(entries)} entries in token order owned by nodes {entries} (node -> datacenter {dcs}, 0 = no datacenter), every assignment of racks "
                     "{none, r1, r2, r3} to the nodes (symbolic): global ring and unique node list as given; exactly the named datacenters present; each datacenter's ring = its "
                     "entries in order, its unique nodes = first occurrences, and for every RF 0..=nodes+2 the servers' rule run with the stored rack_count selects the same nodes as with the true "
                     "number of distinct racks of the datacenter's nodes (rack-less nodes counting as one rack)",
              backend="BV", assumes=LIB, witness=True, outside="token sorting inside TokenRing::new (engine K), more than 4 racks, shapes not listed",
              replay=lambda m, entries=entries, dcs=dcs, k=k: replay_info(m, entries, dcs, k))


def replay_info(m, entries, dcs, k=0):
    """native: ReplicationInfo::new is reached through the `nts` command (one datacenter, one entry per node): a wrong rack count shows as a wrong replica list for some RF"""
    from . import native
    nn = len(dcs)
    racks = [int(m.get(f"rack{i}") or 0) & 0xff for i in range(nn)]
    d_nodes = [i for i in range(nn) if dcs[i] == 1]
    rk = [racks[i] for i in d_nodes]
    nat = native.Native("drv")
    bad = []
    n = len(rk)
    for rf in [int(m.get("rf") or 0) % (n + 3)]:
        got = nat.ask(f"nts {rf} " + " ".join(map(str, rk)))
        rc = len(set(rk))
        left, rep, used, want = min(rf, n), max(rf - rc, 0), set(), []
        for i, r in enumerate(rk):
            if left == 0:
                break
            if r not in used:
                used.add(r); left -= 1; want.append(i)
            elif rep > 0:
                rep -= 1; left -= 1; want.append(i)
        want_s = ",".join(map(str, want)) or "-"
        if got != want_s:
            bad.append({"racks": rk, "rf": rf, "native": got, "expected": want_s})
    nat.close()
    return native.record("C04", f"replication_info_new_case{k}", {"racks_of_dc1_nodes": rk, "mismatches": bad[:6]}, bool(bad))


def run(ctx, mf, tier):
    shapes = SHAPES_QUICK if tier == "quick" else SHAPES_THOROUGH
    for k, (entries, dcs) in enumerate(shapes):
        name = f"c04_replication_info_new_case{k}_rings_unique_nodes_and_rack_counts"
        if ctx.skip(name):
            continue
        try:
            info_new(ctx, mf, k, entries, dcs)
        except mir.Unsupported as e:
            ctx.add(name=f"smt:c04_translate_info_new_case{k}", engine="smt:mir2smt", status="inconclusive",
                    reason="translator rejected the current source: " + str(e), functions=FILE)
        except (AttributeError, KeyError, IndexError, TypeError, ValueError) as e:
            ctx.add(name=f"smt:c04_translate_info_new_case{k}", engine="smt:mir2smt", status="inconclusive",
                    reason=f"translator failed on the current source ({type(e).__name__}: {e})", functions=FILE)
