"""C17 (rollback clause) — engine S: a value that fails to serialize leaves the bound values exactly as they were.

`SerializedValues::add_value::<T>` is executed from the MIR of scylla-cql-core/src/serialize/row.rs from an ARBITRARY value
list (buffer bytes and element count symbolic).  The value's own serializer is a type parameter; it is modelled as the most
general behaviour the trait allows: it appends some bytes to the buffer it was handed (symbolic bytes, 0 / 1 / 3 of them)
and then answers Ok or Err — with an error of ANY kind (every question the code asks about the error is answered
arbitrarily).  Decided: on Err the buffer and the element count are exactly what they were; on Ok the count grew by one and
the old bytes are an untouched prefix; a full list (65535 values) is refused without touching anything; no panic."""
import re
import z3
from mir2smt import dump, mir, solve, oblig, rustenum, stdmodels as sm, itermodels as im
from mir2smt.mir import Int, Bool, Tup, Enum, Ref, Cell, Seq, Opaque, Unit

FILE = "scylla-cql-core/src/serialize/row.rs"
LIB = ("library models (trusted): Vec<u8>::{len, resize, truncate}, CellWriter::new = a handle on the same buffer, Arc::new / unsizing transparent, mk_ser_err opaque, "
       "dyn Error downcast_ref / is / source = arbitrary answer")
OPTION, RESULT = mir.ENUM_VARIANTS["Option"], mir.ENUM_VARIANTS["Result"]


def bv(v, w): return z3.BitVecVal(v, w)


def models(junk, ok, counter):
    m = {}
    m.update(sm.SLICE_MODELS)
    m[r"^Vec::<u8>::len$"] = lambda it, p, c, a: it.const_int(len(sm.deref(a[0]).items), "usize")
    def resize(it, p, callee, args):
        v = sm.deref(args[0]); n = z3.simplify(args[1].t)
        if not z3.is_bv_value(n):
            raise mir.Unsupported("Vec::resize to a symbolic length")
        n = n.as_long()
        if n <= len(v.items):
            del v.items[n:]
        else:
            v.items.extend([mir.copy_value(args[2]) for _ in range(n - len(v.items))])
        return Unit()
    m[r"^Vec::<u8>::resize$"] = resize
    m[r"^Vec::<u8>::truncate$"] = lambda it, p, c, a: resize(it, p, c, [a[0], a[1], Int(bv(0, 8), 8, False)])
    m[r"^CellWriter::<'_>::new$"] = lambda it, p, c, a: Tup([a[0]], "CellWriter")
    m[r"mk_ser_err::<"] = sm.m_opaque("ser-error")
    m[r"^(std::sync::)?Arc::<.*>::new$"] = sm.m_identity
    def value_serialize(it, p, callee, args):
        w = args[2]
        buf = sm.deref(w.f[0])
        buf.items.extend([Int(b, 8, False) for b in junk])
        return Enum(Int(z3.If(ok, bv(0, 64), bv(1, 64)), 64, True), {0: Tup([Opaque("proof")]), 1: Tup([Tup([Opaque("dyn-error")], "SerializationError")])}, RESULT, "Result")
    m[r"^<T as SerializeValue>::serialize$"] = value_serialize
    def arbitrary_option(it, p, callee, args):
        counter[0] += 1
        d = z3.Bool(f"error_question_{counter[0]}")
        return Enum(Int(z3.If(d, bv(1, 64), bv(0, 64)), 64, True), {1: Tup([Ref(Cell(Opaque("downcast")))])}, OPTION, "Option")
    m[r"downcast_ref::<"] = arbitrary_option
    m[r"(^|::)source$"] = arbitrary_option
    m[r"<dyn .*>::is::<"] = lambda it, p, c, a: Bool(z3.Bool("error_is_question"))
    val = lambda x: sm.deref(x) if isinstance(x, Ref) else x
    m[r"^Option::<.*>::is_some$"] = lambda it, p, c, a: Bool(val(a[0]).discr.t == 1)
    m[r"^Option::<.*>::is_none$"] = lambda it, p, c, a: Bool(val(a[0]).discr.t == 0)
    m[r"^<Arc<dyn .*> as Deref>::deref$"] = sm.m_identity
    m[r"^<Arc<dyn .*> as AsRef<.*>>::as_ref$"] = sm.m_identity
    return m


def add_value(ctx, core, n0, nj):
    name = f"c17_add_value_is_atomic_prefix{n0}_partial_write{nj}"
    if ctx.skip(name):
        return
    fn = core.find(r"row\.rs[^>]*>::add_value\(_1: &mut SerializedValues")
    pre_bytes = [z3.BitVec(f"bound{i}", 8) for i in range(n0)]
    junk = [z3.BitVec(f"partial{i}", 8) for i in range(nj)]
    count = z3.BitVec("element_count", 16)
    ok = z3.Bool("value_serializes")
    counter = [0]
    sv = Cell(Tup([Seq([Int(b, 8, False) for b in pre_bytes]), Int(count, 16, False)], "SerializedValues"))
    it = mir.Interp(core, mir.BVBackend(), models(junk, ok, counter), inline=[r"SerializedValues::element_count$"], max_steps=4000)
    paths = it.run(fn, [Ref(sv), Ref(Cell(Opaque("value"))), Ref(Cell(Opaque("column-type")))], [])
    goals, cover = [], []
    for p in paths:
        pc = z3.And(p.pc) if p.pc else z3.BoolVal(True)
        if p.outcome[0] != "return":
            goals.append(z3.Not(pc)); continue
        cover.append(pc)
        r = p.outcome[1]
        after = sm.deref(p.locals[1].v)
        items, cnt = after.f[0].items, after.f[1].t
        unchanged = z3.And([z3.BoolVal(len(items) == n0), cnt == count] + ([x.t == b for x, b in zip(items, pre_bytes)] if len(items) == n0 else []))
        grown = z3.And([z3.BoolVal(len(items) == n0 + nj), cnt == count + 1] + [x.t == b for x, b in zip(items, pre_bytes + junk)])
        full = count == 0xffff
        goals.append(z3.Implies(pc, z3.And(z3.Implies(r.discr.t == 1, unchanged), z3.Implies(r.discr.t == 0, z3.And(grown, z3.Not(full), ok)),
                                           z3.Implies(full, r.discr.t == 1), z3.Implies(z3.And(z3.Not(full), ok), r.discr.t == 0), z3.Implies(z3.Not(ok), r.discr.t == 1))))
    goals.append(z3.Or(cover) if cover else z3.BoolVal(False))
    ctx.prove(name, [], z3.And(goals), inputs=pre_bytes + junk + [count, ok],
              functions=f"SerializedValues::{{add_value, element_count}} [{FILE}]",
              bounds=f"arbitrary value list: {n0} buffer bytes and the element count (any u16) symbolic; the value's serializer writes {nj} arbitrary byte(s) and then answers Ok or Err with "
                     "an error about which every question is answered arbitrarily: Err leaves buffer and count exactly as they were; Ok adds one to the count and keeps the old bytes as a "
                     "prefix; a list of 65535 values is refused untouched; no panic",
              backend="BV", assumes=LIB, witness=False, outside="the serializers of concrete value types (engine K's matrix / C01), write_to_request",
              replay=lambda m, n0=n0: replay_add(m, n0))


def replay_add(m, n0):
    """native: real SerializedValues with `prefix` bound ints, then values that fail at different depths — a plain mismatch, a tuple whose second field fails after the first
    was written, a UDT value with an excess field (writes its fields, then fails the type check)"""
    from . import native
    nat = native.Native("core")
    bad = []
    for prefix in (0, 1, 2):
        for what in ("mismatch", "tuple_second", "udt_excess", "udt_missing"):
            got = nat.ask(f"addvalue {prefix} {what}")
            if not got.startswith("ERR-UNCHANGED"):
                bad.append({"prefix": prefix, "failing_value": what, "native": got})
    nat.close()
    return native.record("C17", "add_value_atomic", {"expected": "ERR-UNCHANGED for every failing value", "mismatches": bad[:6]}, bool(bad))


# ---------------------------------------------------------------------------------------------------- the special empty value
RESULT_RS = "scylla-cql-core/src/frame/response/result.rs"
NOT_EMPTIABLE_NATIVES = ("Counter", "Duration")          # ScyllaDB refuses a 0-byte value for these (and for collections / UDTs); every other native type has one
NOT_EMPTIABLE_KINDS = ("Collection", "UserDefinedType")


def empty_support(ctx, core, reg):
    """`MaybeEmpty<T>` and `CqlValue::Empty` are bound to a column only if `ColumnType::supports_special_empty_value` says so.  The column type is symbolic: ANY variant of
    ColumnType and, inside Native, ANY native type."""
    name = "c17_empty_value_is_accepted_exactly_for_the_column_types_that_have_one"
    if ctx.skip(name):
        return
    ct, nt = reg.get("ColumnType"), reg.get("NativeType")
    fn = core.find(r"result\.rs[^>]*>::supports_special_empty_value\(_1: &ColumnType")
    kind, nat = z3.BitVec("column_type_variant", 64), z3.BitVec("native_type", 64)
    kinds, nats = [v[1] for v in ct.variants], [v[1] for v in nt.variants]
    pre = [z3.Or([kind == k for k in kinds]), z3.Or([nat == n for n in nats])]
    payloads = {}
    for vname, d, fields in ct.variants:
        payloads[d] = Tup([Enum(Int(nat, 64, True), {}, nt.variant_map(), nt.name)]) if vname == "Native" else Tup([Opaque(f"{vname}.{f}") for f in fields])
    typ = Enum(Int(kind, 64, True), payloads, ct.variant_map(), ct.name)
    it = mir.Interp(core, mir.BVBackend(), {}, registry=reg, max_steps=4000)
    paths = it.run(fn, [Ref(Cell(typ))], pre)
    refused = z3.Or([z3.And(kind == ct.discr("Native"), nat == nt.discr(n)) for n in NOT_EMPTIABLE_NATIVES] + [kind == ct.discr(k) for k in NOT_EMPTIABLE_KINDS])
    goals, cover = [], []
    for p in paths:
        pc = z3.And(p.pc[len(pre):]) if len(p.pc) > len(pre) else z3.BoolVal(True)
        if p.outcome[0] != "return":
            goals.append(z3.Not(pc)); continue
        cover.append(pc)
        r = p.outcome[1]
        goals.append(z3.Implies(pc, r.t == z3.Not(refused)))
    goals.append(z3.Or(cover) if cover else z3.BoolVal(False))
    ctx.prove(name, pre, z3.And(goals), inputs=[kind, nat],
              functions=f"ColumnType::supports_special_empty_value [{RESULT_RS}] — the gate of <MaybeEmpty<T> as SerializeValue>::serialize and of CqlValue::Empty in serialize_cql_value",
              bounds=f"the column type is ANY of the {len(kinds)} ColumnType variants and, for Native, ANY of the {len(nats)} native types (both discriminants symbolic; variant lists read from "
                     "the current source): the empty value is refused for counter, duration, every collection and every UDT and accepted for everything else; no panic",
              backend="BV", assumes="reference table: ScyllaDB's set of types without an empty value (counter, duration, collections, UDTs), as the function's documentation states it",
              witness=True, outside="the callers' own two-line use of the answer (replayed natively through MaybeEmpty / CqlValue::Empty for a counterexample); Cassandra's larger refusal set",
              replay=lambda m: replay_empty(m, ct, nt))


def symbolic_column_type(reg):
    ct, nt = reg.get("ColumnType"), reg.get("NativeType")
    kind, nat = z3.BitVec("column_type_variant", 64), z3.BitVec("native_type", 64)
    pre = [z3.Or([kind == v[1] for v in ct.variants]), z3.Or([nat == v[1] for v in nt.variants])]
    payloads = {}
    for vname, d, fields in ct.variants:
        payloads[d] = Tup([Enum(Int(nat, 64, True), {}, nt.variant_map(), nt.name)]) if vname == "Native" else Tup([Opaque(f"{vname}.{f}") for f in fields])
    refused = z3.Or([z3.And(kind == ct.discr("Native"), nat == nt.discr(n)) for n in NOT_EMPTIABLE_NATIVES] + [kind == ct.discr(k) for k in NOT_EMPTIABLE_KINDS])
    return Enum(Int(kind, 64, True), payloads, ct.variant_map(), ct.name), kind, nat, pre, refused


def maybe_empty_carrier(ctx, core, reg):
    """<MaybeEmpty<T> as SerializeValue>::serialize and <MaybeEmpty<T> as DeserializeValue>::type_check from their MIR, T's own methods most general."""
    me = reg.get("MaybeEmpty")
    name = "c17_maybe_empty_writes_nothing_when_refused_and_defers_to_the_carrier_otherwise"
    if not ctx.skip(name):
        fn = core.find_by_callee("<MaybeEmpty<T> as SerializeValue>::serialize")
        typ, kind, nat, pre, refused = symbolic_column_type(reg)
        junk = [z3.BitVec(f"carrier_byte{i}", 8) for i in range(2)]
        ok, is_value = z3.Bool("carrier_serializes"), z3.Bool("holds_a_value")
        m = models(junk, ok, [0])
        def set_value(it, p, callee, args):
            buf = sm.deref(args[0].f[0]); data = sm.deref(args[1]) if isinstance(args[1], Ref) else args[1]
            if isinstance(data, Tup) and len(data.f) == 3 and isinstance(data.f[0], Ref):           # slice view of an array literal: (array, start, len)
                st, ln = z3.simplify(data.f[1].t), z3.simplify(data.f[2].t)
                if not (z3.is_bv_value(st) and z3.is_bv_value(ln)):
                    raise mir.Unsupported("set_value of a slice with symbolic bounds")
                elems = sm.deref(data.f[0]).f[st.as_long():st.as_long() + ln.as_long()]
            elif isinstance(data, Seq):
                elems = data.items
            else:
                raise mir.Unsupported(f"set_value of a non-literal slice: {type(data).__name__} {data!r:.200}")
            n = len(elems)
            buf.items.extend([Int(bv(b, 8), 8, False) for b in n.to_bytes(4, "big")] + [mir.copy_value(x) for x in elems])
            return Enum(Int(bv(0, 64), 64, True), {0: Tup([Opaque("proof")])}, RESULT, "Result")
        m[r"^CellWriter::<'_>::set_value$"] = set_value
        m[r"^Result::<WrittenCellProof<'_>, CellOverflowError>::unwrap$"] = lambda it, p, c, a: a[0].payloads[0].f[0]
        m[r"mk_typck_err::<"] = sm.m_opaque("typck-error")
        m[r"^(std::result::)?Result::<.*>::map_err::<"] = lambda it, p, c, a: Enum(a[0].discr, {**a[0].payloads, 1: Tup([Opaque("mapped-error")])}, RESULT, "Result")
        buf = Cell(Seq([]))
        val = Enum(Int(z3.If(is_value, bv(me.discr("Value"), 64), bv(me.discr("Empty"), 64)), 64, True), {me.discr("Value"): Tup([Opaque("carrier")])}, me.variant_map(), me.name)
        it = mir.Interp(core, mir.BVBackend(), m, inline=[r"supports_special_empty_value$"], registry=reg, max_steps=4000)
        paths = it.run(fn, [Ref(Cell(val)), Ref(Cell(typ)), Tup([Ref(buf)], "CellWriter")], pre)
        goals, cover = [], []
        for p in paths:
            pc = z3.And(p.pc[len(pre):]) if len(p.pc) > len(pre) else z3.BoolVal(True)
            if p.outcome[0] != "return":
                goals.append(z3.Not(pc)); continue
            cover.append(pc)
            r = p.outcome[1]
            items = sm.deref(p.locals[3].v.f[0]).items
            wrote = lambda bs: z3.And([z3.BoolVal(len(items) == len(bs))] + ([x.t == b for x, b in zip(items, bs)] if len(items) == len(bs) else []))
            goals.append(z3.Implies(pc, z3.And(
                z3.Implies(z3.And(refused, z3.Not(is_value)), z3.And(r.discr.t == 1, wrote([]))),
                z3.Implies(z3.And(z3.Not(refused), z3.Not(is_value)), z3.And(r.discr.t == 0, wrote([bv(0, 8)] * 4))),
                z3.Implies(z3.And(z3.Not(refused), is_value), z3.And((r.discr.t == 0) == ok, wrote(junk))),
                z3.Implies(z3.And(refused, is_value), z3.Implies(r.discr.t == 0, z3.And(ok, wrote(junk)))))))
        goals.append(z3.Or(cover) if cover else z3.BoolVal(False))
        ctx.prove(name, pre, z3.And(goals), inputs=[kind, nat, is_value, ok] + junk,
                  functions=f"<MaybeEmpty<T> as SerializeValue>::serialize [scylla-cql-core/src/serialize/value.rs], ColumnType::supports_special_empty_value [{RESULT_RS}]",
                  bounds="column type: any ColumnType variant x any native type (symbolic); value: Empty or Value(carrier), the carrier's serializer most general (writes 2 arbitrary bytes, then Ok or Err): "
                         "Empty bound to a column type without an empty value gets Err and NOT ONE BYTE in the buffer; otherwise Empty writes exactly the 0-length cell 00 00 00 00; Value is exactly what "
                         "the carrier wrote with the carrier's verdict (for a column type without an empty value the code refuses earlier — only 'Ok implies the carrier said Ok and wrote these bytes' "
                         "is demanded there, since every built-in Emptiable carrier refuses those types itself); no panic",
                  backend="BV", assumes=LIB + "; CellWriter::set_value of a literal slice = 4-byte big-endian length + bytes", witness=True,
                  outside="the carriers themselves (engine K's matrix)", replay=lambda m_: replay_empty(m_, reg.get("ColumnType"), reg.get("NativeType")))
    name = "c17_maybe_empty_type_check_is_the_carriers_type_check"
    if not ctx.skip(name):
        fn = core.find_by_callee("<MaybeEmpty<T> as DeserializeValue>::type_check")
        typ, kind, nat, pre, refused = symbolic_column_type(reg)
        t_ok = z3.Bool("carrier_type_check_passes")
        m = {r"^<T as DeserializeValue<'_, '_>>::type_check$": lambda it, p, c, a: Enum(Int(z3.If(t_ok, bv(0, 64), bv(1, 64)), 64, True), {0: Tup([Unit()]), 1: Tup([Opaque("typck-error")])}, RESULT, "Result"),
             r"^(std::result::)?Result::<.*>::map_err::<": lambda it, p, c, a: Enum(a[0].discr, {**a[0].payloads, 1: Tup([Opaque("mapped-error")])}, RESULT, "Result")}
        it = mir.Interp(core, mir.BVBackend(), m, registry=reg, max_steps=2000)
        paths = it.run(fn, [Ref(Cell(typ))], pre)
        goals, cover = [], []
        for p in paths:
            pc = z3.And(p.pc[len(pre):]) if len(p.pc) > len(pre) else z3.BoolVal(True)
            if p.outcome[0] != "return":
                goals.append(z3.Not(pc)); continue
            cover.append(pc)
            goals.append(z3.Implies(pc, (p.outcome[1].discr.t == 0) == t_ok))
        goals.append(z3.Or(cover) if cover else z3.BoolVal(False))
        ctx.prove(name, pre, z3.And(goals), inputs=[kind, nat, t_ok],
                  functions="<MaybeEmpty<T> as DeserializeValue>::type_check [scylla-cql-core/src/deserialize/value.rs]",
                  bounds="any column type (variant x native symbolic), the carrier's type_check most general (Ok or Err): MaybeEmpty<T> is type-checked exactly as T is — it never widens what T accepts; no panic",
                  backend="BV", assumes="Result::map_err keeps the discriminant", witness=True, outside="MaybeEmpty::deserialize (empty slice -> Empty)")


def maybe_empty_deserialize(ctx, core, reg):
    """<MaybeEmpty<T> as DeserializeValue>::deserialize: null -> Err, 0 bytes -> Empty without consulting T, otherwise T's verdict."""
    from . import smt_c16de as de
    name = "c17_maybe_empty_reads_zero_bytes_as_empty_and_everything_else_through_the_carrier"
    if ctx.skip(name):
        return
    me = reg.get("MaybeEmpty")
    fn = core.find_by_callee("<MaybeEmpty<T> as DeserializeValue>::deserialize")
    typ, kind, nat, pre, refused = symbolic_column_type(reg)
    is_null, t_ok, ln = z3.Bool("cell_is_null"), z3.Bool("carrier_deserializes"), z3.BitVec("cell_length", 32)
    pre = pre + [ln >= 0]
    m = {}
    m.update(sm.SLICE_MODELS)
    m[r"^(std::result::)?Result::<FrameSlice<'_>, DeserializationError>::map::<"] = lambda it, p, c, a: a[0]      # the closure is FrameSlice::as_slice: same length
    m[r"^<\{closure@.*\} as Fn(Mut|Once)?<.*>>::call(_mut|_once)?$"] = de.m_closure_call
    m[r"^Option::<.*>::ok_or_else::<"] = lambda it, p, c, a: Enum(Int(z3.If(a[0].discr.t == 1, bv(0, 64), bv(1, 64)), 64, True),
                                                                 {0: a[0].payloads[1], 1: Tup([Opaque("null-error")])}, RESULT, "Result")
    m[r"^<(std::result::)?Result<.*> as Try>::branch$"] = sm.m_result_branch
    m[r" as FromResidual<(std::result::)?Result<(std::convert::)?Infallible, .*>>>::from_residual$"] = sm.m_result_from_residual
    m[r"^FrameSlice::<'_>::as_slice$"] = lambda it, p, c, a: sm.deref(a[0])
    m[r"^core::slice::<impl \[u8\]>::is_empty$"] = lambda it, p, c, a: Bool((sm.deref(a[0]) if isinstance(a[0], Ref) else a[0]).f[0].t == 0)
    m[r"mk_deser_err::<"] = sm.m_opaque("deser-error")
    m[r"^(std::result::)?Result::<.*>::map_err::<"] = lambda it, p, c, a: Enum(a[0].discr, {**a[0].payloads, 1: Tup([Opaque("mapped-error")])}, RESULT, "Result")
    m[r"^<T as DeserializeValue<'_, '_>>::deserialize$"] = lambda it, p, c, a: Enum(Int(z3.If(t_ok, bv(0, 64), bv(1, 64)), 64, True), {0: Tup([Opaque("carrier-value")]), 1: Tup([Opaque("deser-error")])}, RESULT, "Result")
    cell = Enum(Int(z3.If(is_null, bv(0, 64), bv(1, 64)), 64, True), {1: Tup([Tup([Int(ln, 32, True)], "FrameSlice")])}, OPTION, "Option")
    it = mir.Interp(core, mir.BVBackend(), m, inline=[r"ensure_not_null_(frame_)?slice", r"ensure_not_null_slice::\{closure#0\}"], registry=reg, max_steps=6000)
    paths = it.run(fn, [Ref(Cell(typ)), cell], pre)
    goals, cover = [], []
    for p in paths:
        pc = z3.And(p.pc[len(pre):]) if len(p.pc) > len(pre) else z3.BoolVal(True)
        if p.outcome[0] != "return":
            goals.append(z3.Not(pc)); continue
        cover.append(pc)
        r = p.outcome[1]
        inner = r.payloads[0].f[0].discr.t if 0 in r.payloads and isinstance(r.payloads[0].f[0], Enum) else None
        is_empty = (inner == me.discr("Empty")) if inner is not None else z3.BoolVal(False)
        is_val = (inner == me.discr("Value")) if inner is not None else z3.BoolVal(False)
        goals.append(z3.Implies(pc, z3.And(
            z3.Implies(is_null, r.discr.t == 1),
            z3.Implies(z3.And(z3.Not(is_null), ln == 0), z3.And(r.discr.t == 0, is_empty)),
            z3.Implies(z3.And(z3.Not(is_null), ln != 0), z3.And((r.discr.t == 0) == t_ok, z3.Implies(r.discr.t == 0, is_val))))))
    goals.append(z3.Or(cover) if cover else z3.BoolVal(False))
    ctx.prove(name, pre, z3.And(goals), inputs=[kind, nat, is_null, ln, t_ok],
              functions="<MaybeEmpty<T> as DeserializeValue>::deserialize, ensure_not_null_slice, ensure_not_null_frame_slice [scylla-cql-core/src/deserialize/value.rs]",
              bounds="any column type, the cell null or of ANY length (symbolic i32 >= 0), the carrier's deserialize most general (Ok or Err): a null cell is an error, a 0-byte cell is "
                     "MaybeEmpty::Empty whatever the carrier would say, any other cell is Value(carrier's value) exactly when the carrier accepts it and its error otherwise; no panic",
              backend="BV", assumes="FrameSlice and the slice taken from it = their length (as in C16; Result::map(as_slice) keeps it); Option::ok_or_else / map_err keep the discriminant", witness=True, outside="the carriers themselves (engine K / C01)",
              replay=replay_empty_de)


def replay_empty_de(m):
    """native: an int column read as MaybeEmpty<i32> — null, 0 bytes, a well-formed and a malformed cell (the model says which of them the solver chose; all four are run)"""
    from . import native
    nat = native.Native("core")
    want = {"null": "ERR", "-": "EMPTY", "0000002a": "VALUE 42", "00002a": "ERR"}
    got = {c: nat.ask(f"emptyde {c}") for c in want}
    nat.close()
    return native.record("C17", "maybe_empty_deserialize", {"model": {k: str(v) for k, v in m.items()}, "expected": want, "native": got}, got != want)

# ---------------------------------------------------------------------------------------------------- native carriers against ANY column type
CARRIERS = {"i8": ["TinyInt"], "i16": ["SmallInt"], "i32": ["Int"], "i64": ["BigInt"], "f32": ["Float"], "f64": ["Double"], "bool": ["Boolean"],
            "value::Counter": ["Counter"], "CqlDate": ["Date"], "CqlTime": ["Time"], "CqlTimestamp": ["Timestamp"], "uuid::Uuid": ["Uuid"], "CqlTimeuuid": ["Timeuuid"],
            "str": ["Ascii", "Text"], "String": ["Ascii", "Text"]}      # IpAddr / CqlDuration / CqlVarint / CqlDecimal write through builders the models do not cover: engine K's matrix only


def carrier_vs_any_column(ctx, core, reg, carrier, accepted):
    """the matrix row of one fixed-size carrier extended to NON-NATIVE columns: the column type is any ColumnType variant x any native type"""
    short = carrier.split("::")[-1]
    name = f"c17_row_{short}_is_bound_only_to_{'_'.join(a.lower() for a in accepted)}_among_all_column_types"
    if ctx.skip(name):
        return
    ct, nt = reg.get("ColumnType"), reg.get("NativeType")
    fn = core.find(r"value\.rs[^>]*>::serialize\(_1: &" + re.escape(carrier) + r", _2: &ColumnType")
    typ, kind, nat, pre, _ = symbolic_column_type(reg)
    m = {}
    m.update(sm.SLICE_MODELS)
    def set_value(it, p, callee, args):
        sm.deref(args[0].f[0]).items.append(Opaque("cell")); return Enum(Int(bv(0, 64), 64, True), {0: Tup([Opaque("proof")])}, RESULT, "Result")
    m[r"^CellWriter::<'_>::set_value$"] = set_value
    m[r"^Result::<WrittenCellProof<'_>, CellOverflowError>::unwrap$"] = lambda it, p, c, a: a[0].payloads[0].f[0]
    m[r"mk_typck_err::<"] = sm.m_opaque("typck-error")
    m[r"^(std::result::)?Result::<.*>::map_err::<"] = lambda it, p, c, a: Enum(a[0].discr, {**a[0].payloads, 1: Tup([Opaque("mapped-error")])}, RESULT, "Result")
    m[r"^<(std::result::)?Result<.*> as Try>::branch$"] = sm.m_result_branch
    m[r" as FromResidual<(std::result::)?Result<(std::convert::)?Infallible, .*>>>::from_residual$"] = sm.m_result_from_residual
    m[r"to_be_bytes$"] = sm.m_opaque("big-endian bytes")
    m[r"as_slice$|as_bytes$|(^|::)to_bits$|>::as_ref$"] = sm.m_opaque("bytes of the value")
    m[r"^<[\w:]+ as (Into|From)<.*>>::(into|from)$"] = sm.m_opaque("converted value")
    buf = Cell(Seq([]))
    it = mir.Interp(core, mir.BVBackend(), m, registry=reg, max_steps=4000)
    shapes = {"bool": lambda: Bool(z3.Bool("the_value")), "value::Counter": lambda: Tup([Int(z3.BitVec("the_value", 64), 64, True)], "Counter"),
              "CqlDate": lambda: Tup([Int(z3.BitVec("the_value", 32), 32, False)], "CqlDate"), "CqlTime": lambda: Tup([Int(z3.BitVec("the_value", 64), 64, True)], "CqlTime"),
              "CqlTimestamp": lambda: Tup([Int(z3.BitVec("the_value", 64), 64, True)], "CqlTimestamp"),
              "uuid::Uuid": lambda: Tup([Opaque("16 bytes")], "Uuid"), "CqlTimeuuid": lambda: Tup([Tup([Opaque("16 bytes")], "Uuid")], "CqlTimeuuid")}
    value = shapes.get(carrier, lambda: Opaque("the value"))()
    paths = it.run(fn, [Ref(Cell(value)), Ref(Cell(typ)), Tup([Ref(buf)], "CellWriter")], pre)
    fits = z3.And(kind == ct.discr("Native"), z3.Or([nat == nt.discr(a) for a in accepted]))
    goals, cover = [], []
    for p in paths:
        pc = z3.And(p.pc[len(pre):]) if len(p.pc) > len(pre) else z3.BoolVal(True)
        if p.outcome[0] != "return":
            goals.append(z3.Implies(fits, z3.BoolVal(True)) if False else z3.Implies(pc, fits)); continue       # a panic while writing an ACCEPTED value is C01's subject; on a mismatch it is a violation
        cover.append(pc)
        r = p.outcome[1]
        n_written = len(sm.deref(p.locals[3].v.f[0]).items)
        goals.append(z3.Implies(pc, z3.And((r.discr.t == 0) == fits, z3.Implies(r.discr.t == 1, z3.BoolVal(n_written == 0)), z3.Implies(r.discr.t == 0, z3.BoolVal(n_written == 1)))))
    goals.append(z3.Or(cover) if cover else z3.BoolVal(False))
    ctx.prove(name, pre, z3.And(goals), inputs=[kind, nat],
              functions=f"<{carrier} as SerializeValue>::serialize [scylla-cql-core/src/serialize/value.rs]",
              bounds=f"carrier {carrier}; the column type is ANY of the ColumnType variants (collections, vectors, tuples, UDTs with arbitrary contents included) x ANY native type, both symbolic: "
                     f"the value is bound iff the column is native {' / '.join(accepted)}; a refusal writes nothing, an acceptance writes exactly one cell",
              backend="BV", assumes="the bytes of the value are opaque (their content is C01's subject); CellWriter::set_value = one cell appended; mk_typck_err opaque", witness=True,
              outside="the cell's bytes (C01), the other variable-size carriers (blob, inet, duration, varint, decimal: engine K's matrix over native columns)",
              replay=lambda m_, short=short, accepted=accepted: replay_row(m_, ct, nt, short, accepted))


def replay_row(m, ct, nt, short, accepted):
    from . import native
    k, n = int(m.get("column_type_variant") or 0), int(m.get("native_type") or 0)
    kname = next((v[0] for v in ct.variants if v[1] == k), "Native")
    nname = next((v[0] for v in nt.variants if v[1] == n), "Int")
    what = nname if kname == "Native" else kname
    want = "BOUND 1" if what in accepted else "REFUSED"
    nat = native.Native("core")
    got = nat.ask(f"bindrow {short} {what}")
    nat.close()
    return native.record("C17", f"row_{short}", {"carrier": short, "column_type": what, "expected": want, "native": got}, got != want)


DE_CARRIERS = {"i8": ["TinyInt"], "i16": ["SmallInt"], "i32": ["Int"], "i64": ["BigInt"], "f32": ["Float"], "f64": ["Double"], "bool": ["Boolean"],
               "CqlDate": ["Date"], "CqlTime": ["Time"], "CqlTimestamp": ["Timestamp"], "Uuid": ["Uuid"], "CqlTimeuuid": ["Timeuuid"], "CqlDuration": ["Duration"],
               "value::Counter": ["Counter"], "IpAddr": ["Inet"]}


def read_row_vs_any_column(ctx, core, reg, carrier, accepted):
    """the READ half: <carrier as DeserializeValue>::type_check (macro-generated, one MIR function per carrier, picked by the carrier named in its error constructor)"""
    short = carrier.split("::")[-1]
    name = f"c17_read_row_{short}_type_checks_only_against_{'_'.join(a.lower() for a in accepted)}_among_all_column_types"
    if ctx.skip(name):
        return
    ct, nt = reg.get("ColumnType"), reg.get("NativeType")
    fn = core.find_by_body(r"deserialize/value\.rs[^>]*>::type_check\(_1: &ColumnType", r"mk_typck_err::<(\w+::)*" + re.escape(short) + r", ")
    typ, kind, nat, pre, _ = symbolic_column_type(reg)
    m = {r"mk_typck_err::<": sm.m_opaque("typck-error")}
    it = mir.Interp(core, mir.BVBackend(), m, registry=reg, max_steps=4000)
    paths = it.run(fn, [Ref(Cell(typ))], pre)
    fits = z3.And(kind == ct.discr("Native"), z3.Or([nat == nt.discr(a) for a in accepted]))
    goals, cover = [], []
    for p in paths:
        pc = z3.And(p.pc[len(pre):]) if len(p.pc) > len(pre) else z3.BoolVal(True)
        if p.outcome[0] != "return":
            goals.append(z3.Not(pc)); continue
        cover.append(pc)
        goals.append(z3.Implies(pc, (p.outcome[1].discr.t == 0) == fits))
    goals.append(z3.Or(cover) if cover else z3.BoolVal(False))
    ctx.prove(name, pre, z3.And(goals), inputs=[kind, nat],
              functions=f"<{carrier} as DeserializeValue>::type_check [scylla-cql-core/src/deserialize/value.rs, impl_strict_type!]",
              bounds=f"carrier {carrier}; the column type is ANY ColumnType variant (collections, vectors, tuples, UDTs included) x ANY native type, both symbolic: type_check passes iff the "
                     f"column is native {' / '.join(accepted)}; no panic",
              backend="BV", assumes="mk_typck_err opaque; the promoted `expected` list of the error is whatever the MIR builds (not inspected)", witness=True,
              outside="deserialize itself (C01 / engine K), carriers with hand-written type checks (strings, blobs, varint, decimal: engine K's matrix over native columns)",
              replay=lambda m_, short=short, accepted=accepted: replay_read_row(m_, ct, nt, short, accepted))


def replay_read_row(m, ct, nt, short, accepted):
    from . import native
    k, n = int(m.get("column_type_variant") or 0), int(m.get("native_type") or 0)
    kname = next((v[0] for v in ct.variants if v[1] == k), "Native")
    nname = next((v[0] for v in nt.variants if v[1] == n), "Int")
    what = nname if kname == "Native" else kname
    want = "PASSES" if what in accepted else "REFUSED"
    nat = native.Native("core")
    got = nat.ask(f"readrow {short} {what}")
    nat.close()
    return native.record("C17", f"read_row_{short}", {"carrier": short, "column_type": what, "expected": want, "native": got}, got != want)


def replay_empty(m, ct, nt):
    from . import native
    k, n = int(m.get("column_type_variant") or 0), int(m.get("native_type") or 0)
    kname = next((v[0] for v in ct.variants if v[1] == k), "Native")
    nname = next((v[0] for v in nt.variants if v[1] == n), "Int")
    what = nname if kname == "Native" else kname
    want = "REFUSED" if (what in NOT_EMPTIABLE_NATIVES or what in NOT_EMPTIABLE_KINDS) else "ACCEPTED"
    nat = native.Native("core")
    got = nat.ask(f"emptyval {what}")
    nat.close()
    return native.record("C17", "empty_value", {"column_type": what, "expected": f"maybe_empty={want} cql_value={want}", "native": got},
                         got != f"maybe_empty={want} cql_value={want}")


def run(tier, seed, only):
    ctx = oblig.Ctx(tier, only)
    try:
        core = mir.MirFile(dump.dump("scylla-cql-core"))
    except Exception as e:
        return [{"name": "smt:c17_mir_dump", "engine": "smt:mir2smt", "status": "inconclusive", "reason": str(e)[:500]}]
    shapes = [(0, 0), (0, 3), (2, 1), (5, 3)] if tier == "quick" else [(a, b) for a in (0, 1, 2, 5, 9) for b in (0, 1, 3, 8)]
    for n0, nj in shapes:
        try:
            add_value(ctx, core, n0, nj)
        except mir.Unsupported as e:
            ctx.add(name=f"smt:c17_translate_add_value_{n0}_{nj}", engine="smt:mir2smt", status="inconclusive", reason="translator rejected the current source: " + str(e), functions=FILE)
        except (AttributeError, KeyError, IndexError, TypeError, ValueError) as e:
            ctx.add(name=f"smt:c17_translate_add_value_{n0}_{nj}", engine="smt:mir2smt", status="inconclusive", reason=f"translator failed on the current source ({type(e).__name__}: {e})", functions=FILE)
    try:
        reg = rustenum.Registry(["/repo/" + RESULT_RS, "/repo/scylla-cql-core/src/value.rs"])
        empty_support(ctx, core, reg)
        maybe_empty_carrier(ctx, core, reg)
        maybe_empty_deserialize(ctx, core, reg)
        for carrier, accepted in DE_CARRIERS.items():
            try:
                read_row_vs_any_column(ctx, core, reg, carrier, accepted)
            except mir.Unsupported as e:
                ctx.add(name=f"smt:c17_translate_read_row_{carrier.split('::')[-1]}", engine="smt:mir2smt", status="inconclusive", reason="translator rejected the current source: " + str(e), functions="scylla-cql-core/src/deserialize/value.rs")
        for carrier, accepted in CARRIERS.items():
            try:
                carrier_vs_any_column(ctx, core, reg, carrier, accepted)
            except mir.Unsupported as e:
                ctx.add(name=f"smt:c17_translate_row_{carrier.split('::')[-1]}", engine="smt:mir2smt", status="inconclusive", reason="translator rejected the current source: " + str(e), functions="scylla-cql-core/src/serialize/value.rs")
    except mir.Unsupported as e:
        ctx.add(name="smt:c17_translate_empty_support", engine="smt:mir2smt", status="inconclusive", reason="translator rejected the current source: " + str(e), functions=RESULT_RS)
    except (AttributeError, KeyError, IndexError, TypeError, ValueError) as e:
        ctx.add(name="smt:c17_translate_empty_support", engine="smt:mir2smt", status="inconclusive", reason=f"translator failed on the current source ({type(e).__name__}: {e})", functions=RESULT_RS)
    return ctx.results
