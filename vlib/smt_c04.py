"""C04 — engine S: the NetworkTopologyStrategy replica selection and the choice of a pre-computed ring.

`ReplicationInfo::nts_replicas_in_datacenter` (the glue: how many to take, how many rack repeats are allowed) and
`NtsReplicasInDatacenterIterator::next` (the rack-aware walk) are executed from the MIR of
scylla/src/routing/locator/replication_info.rs for a datacenter of n distinct nodes whose racks are SYMBOLIC (rack-less nodes
included) and a symbolic replication factor, and compared with the servers' rule: walk the datacenter's nodes clockwise, take a
node if its rack is new or if repeats are still allowed (RF - rack count), until min(RF, nodes) are found.
The prefix property that justifies the 'compressed' pre-computed ring (lists for RF <= RF' <= rack count are prefixes) is decided
on the same rule, and `DatacenterPrecomputedReplicas::get_replica_ring_for_rf` is decided to hand out exactly the ring computed
for the requested RF (compressed ring iff RF <= its maximum, otherwise the ring stored under that very RF).
The clockwise walk itself (`TokenRing::ring_range`) is engine K's part of C04."""
import z3
from mir2smt import dump, mir, solve, oblig, rustenum, stdmodels as sm, itermodels as im
from mir2smt.mir import Int, Bool, Tup, Enum, Ref, Cell, Seq, Opaque, Unit

FILE = "scylla/src/routing/locator/replication_info.rs"
LIB = ("library models (trusted): TokenRing::ring_range(token) = the datacenter's nodes in clockwise order from the token (engine K decides that walk), "
       "Itertools::unique = identity on already distinct nodes, HashMap<String, DatacenterNodes>::get = the datacenter's entry (or None), "
       "BTreeSet<Option<&str>> = set over rack codes (z3 array), Arc<Node> deref transparent, Option::as_deref identity, usize::min / saturating_sub, "
       "HashMap<usize, TokenRing>::get = total map over z3 arrays")
OPTION = mir.ENUM_VARIANTS["Option"]
RACK = z3.BitVecSort(8)


def bv(v, w): return z3.BitVecVal(v, w)


def node(i, rack):
    # Node fields used: .3 = rack: Option<String> (here: a rack code, 0 = no rack)
    return Tup([Opaque(f"host{i}"), Opaque("addr"), Opaque("dc"), Int(rack, 8, False), Int(bv(i, 32), 32, False)], "Node")


def m_mut_iter_next(it, p, callee, args):
    inner = sm.deref(args[0])          # &mut I stored in the local
    q, root, o = im.pull(it, p, inner)
    return [(q, o)]


def m_set_contains(it, p, callee, args):
    s = sm.deref(args[0])
    k = args[1]
    for _ in range(3):
        if isinstance(k, Ref):
            k = sm.deref(k)
    return Bool(z3.Select(s.f[0].t, k.t))


def m_set_insert(it, p, callee, args):
    s = sm.deref(args[0])
    k = args[1]
    old = z3.Select(s.f[0].t, k.t)
    s.f[0] = Int(z3.Store(s.f[0].t, k.t, z3.BoolVal(True)), 0, False)
    return Bool(z3.Not(old))


def models(dc_value=None):
    m = {}
    m.update(sm.SLICE_MODELS)
    m[r"^<&mut I as IntoIterator>::into_iter$"] = sm.m_identity
    m[r"^<&mut I as Iterator>::next$"] = m_mut_iter_next
    m[r"^<Arc<Node> as Deref>::deref$"] = sm.m_identity
    m[r"^Option::<String>::as_deref$"] = lambda it, p, c, a: sm.deref(a[0])
    m[r"^BTreeSet::<Option<&str>>::contains::<"] = m_set_contains
    m[r"^BTreeSet::<Option<&str>>::insert$"] = m_set_insert
    m[r"^BTreeSet::<Option<&str>>::new$"] = lambda it, p, c, a: Tup([Int(z3.K(RACK, z3.BoolVal(False)), 0, False)], "RackSet")
    m[r"^std::collections::HashMap::<String, DatacenterNodes>::get::<str>$"] = lambda it, p, c, a: sm.deref(a[0])      # the map value IS the lookup result here
    m[r"^Option::<&DatacenterNodes>::unwrap_or$"] = lambda it, p, c, a: (a[0].payloads[1].f[0] if z3.simplify(a[0].discr.t).as_long() == 1 else a[1])
    m[r"^Vec::<Arc<Node>>::len$"] = lambda it, p, c, a: it.const_int(len(sm.deref(a[0]).items), "usize")
    m[r"^TokenRing::<Arc<Node>>::ring_range$"] = lambda it, p, c, a: im.eager([Ref(a[0].cell, tuple(a[0].path) + (("index_const", i),)) for i in range(len(sm.deref(a[0]).items))])
    m[r" as Itertools>::unique$"] = sm.m_identity
    m[r"core::num::<impl usize>::saturating_sub$"] = lambda it, p, c, a: Int(z3.If(z3.UGE(a[0].t, a[1].t), a[0].t - a[1].t, bv(0, 64)), 64, False)
    m[r"^std::cmp::min::<usize>$"] = sm.m_usize_min
    return m


def spec_walk(racks, rf, rack_count):
    """the servers' rule, as terms: returns the list of 'node i is a replica' conditions"""
    n = len(racks)
    left = z3.If(z3.ULE(rf, bv(n, 64)), rf, bv(n, 64))
    repeats = z3.If(z3.UGE(rf, rack_count), rf - rack_count, bv(0, 64))
    used = z3.K(RACK, z3.BoolVal(False))
    taken = []
    for i in range(n):
        new = z3.Not(z3.Select(used, racks[i]))
        can = left != 0
        take_new = z3.And(can, new)
        take_rep = z3.And(can, z3.Not(new), repeats != 0)
        t = z3.Or(take_new, take_rep)
        taken.append(t)
        used = z3.If(take_new, z3.Store(used, racks[i], z3.BoolVal(True)), used)
        repeats = z3.If(take_rep, repeats - 1, repeats)
        left = z3.If(t, left - 1, left)
    return taken


def count_distinct(racks):
    terms = []
    for i, r in enumerate(racks):
        first = z3.And([r != racks[j] for j in range(i)]) if i else z3.BoolVal(True)
        terms.append(z3.If(first, bv(1, 64), bv(0, 64)))
    out = bv(0, 64)
    for t in terms:
        out = out + t
    return out


def run(tier, seed, only):
    ctx = oblig.Ctx(tier, only)
    try:
        mf = mir.MirFile(dump.dump("scylla"))
    except Exception as e:
        return [{"name": "smt:c04_mir_dump", "engine": "smt:mir2smt", "status": "inconclusive", "reason": str(e)[:500]}]
    steps = [(f"nts_n{n}", (lambda n=n: nts(ctx, mf, n))) for n in ((0, 1, 2, 3, 4) if tier == "quick" else (0, 1, 2, 3, 4, 5, 6))]
    steps += [(f"prefix_n{n}", (lambda n=n: prefix(ctx, n))) for n in ((3, 5) if tier == "quick" else (3, 5, 7))]
    steps += [("ring_for_rf", lambda: ring_for_rf(ctx, mf))]
    from . import smt_c04ri
    steps += [("replication_info_new", lambda: smt_c04ri.run(ctx, mf, tier))]
    for name, f in steps:
        try:
            f()
        except mir.Unsupported as e:
            ctx.add(name=f"smt:c04_translate_{name}", engine="smt:mir2smt", status="inconclusive",
                    reason="translator rejected the current source: " + str(e), functions=FILE)
        except (AttributeError, KeyError, IndexError, TypeError, ValueError) as e:
            ctx.add(name=f"smt:c04_translate_{name}", engine="smt:mir2smt", status="inconclusive",
                    reason=f"translator failed on the current source ({type(e).__name__}: {e})", functions=FILE)
    return ctx.results


def nts(ctx, mf, n):
    glue = mf.find(r"replication_info\.rs[^>]*>::nts_replicas_in_datacenter\(")
    nxt = mf.find(r"replication_info\.rs[^>]*>::next\(_1: &mut NtsReplicasInDatacenterIterator")
    racks = [z3.BitVec(f"rack{i}", 8) for i in range(n)]
    rf = z3.BitVec("rf", 64)
    pre = [z3.ULE(r, 3) for r in racks] + [z3.ULE(rf, n + 2)]
    rack_count = count_distinct(racks)
    nodes = Seq([node(i, racks[i]) for i in range(n)])
    dc = Tup([nodes, mir.copy_value(nodes), Int(rack_count, 64, False)], "DatacenterNodes")
    # the datacenters field holds the lookup result directly (model of HashMap::get above)
    info = Tup([Opaque("global_ring"), Opaque("unique_global"), Opaque("datacenters")], "ReplicationInfo")
    consts = {}
    import re
    mm = re.search(r"const (\{alloc\d+: &DatacenterNodes\})", glue.text)
    empty_dc = Tup([Seq([]), Seq([]), Int(bv(0, 64), 64, False)], "DatacenterNodes")
    mods = models()
    if mm:
        consts[mm.group(1)] = Ref(Cell(empty_dc))
    mods["__consts__"] = consts
    it = mir.Interp(mf, mir.BVBackend(), mods, max_steps=6000)
    info.f[2] = sm.some(it, Ref(Cell(dc)))
    paths = it.run(glue, [Ref(Cell(info)), Tup([Int(z3.BitVec("token", 64), 64, True)], "Token"), Opaque("str:dc"), Int(rf, 64, False)], pre)
    if len(paths) != 1 or paths[0].outcome[0] != "return":
        raise mir.Unsupported(f"nts_replicas_in_datacenter does not run on a single returning path: {[p.outcome[:2] for p in paths][:3]}")
    iterator = paths[0].outcome[1]
    pre = pre + list(paths[0].pc)
    # drain the iterator through the real next(): n+1 calls
    frontier = [(list(pre), iterator, [])]
    finished = []
    for step in range(n + 1):
        nxt_frontier = []
        for pc, itv, got in frontier:
            it2 = mir.Interp(mf, mir.BVBackend(), mods, max_steps=6000)
            cell = Cell(mir.copy_value(itv))
            for p in it2.run(nxt, [Ref(cell)], pc):
                if p.outcome[0] != "return":
                    finished.append((list(p.pc), None, got, "panic")); continue
                o = p.outcome[1]
                d = z3.simplify(o.discr.t)
                newit = sm.deref(p.locals[1].v)
                if z3.is_bv_value(d) and d.as_long() == 0:
                    finished.append((list(p.pc), newit, got, "done"))
                elif z3.is_bv_value(d):
                    nd = sm.deref(o.payloads[1].f[0])
                    idx = z3.simplify(nd.f[4].t).as_long()
                    nxt_frontier.append((list(p.pc), newit, got + [idx]))
                else:
                    raise mir.Unsupported("next() returned an Option with a symbolic discriminant after merging")
        frontier = nxt_frontier
    for pc, itv, got in frontier:
        finished.append((pc, itv, got, "more-than-n"))
    taken = spec_walk(racks, rf, rack_count)
    goals, cover = [], []
    for pc, itv, got, how in finished:
        c = z3.And(pc) if pc else z3.BoolVal(True)
        if how != "done":
            goals.append(z3.Not(c)); continue
        cover.append(c)
        conj = [z3.BoolVal(got == sorted(got))]
        for i in range(n):
            conj.append(taken[i] == z3.BoolVal(i in got))
        goals.append(z3.Implies(c, z3.And(conj)))
    goals.append(z3.Or(cover) if cover else z3.BoolVal(False))
    ctx.prove(f"c04_nts_walk_n{n}_matches_the_servers_rule", pre, z3.And(goals), inputs=racks + [rf],
              functions=f"ReplicationInfo::nts_replicas_in_datacenter, NtsReplicasInDatacenterIterator::next [{FILE}]",
              bounds=f"a datacenter of n={n} distinct nodes in clockwise order, every assignment of racks from {{none, r1, r2, r3}} to them (symbolic), rack count = number of "
                     f"distinct racks (rack-less counts as one), every replication factor 0..={n + 2}: the nodes yielded, in order, are exactly those the rule selects "
                     "(new rack, or a repeat while RF - rack count repeats remain, until min(RF, n) are found); next() is called until it returns None",
              backend="BV+arrays", assumes=LIB, witness=True, outside="vnodes / duplicate ring entries (removed by Itertools::unique, modelled as identity), more than 4 racks, "
              "SimpleStrategy (ring walk + unique + take: all three are library code), ReplicaLocator's HashMap plumbing, ReplicaSet views",
              replay=lambda m, n=n: replay_nts(m, n))


def prefix(ctx, n):
    """the compression argument of precomputed_replicas.rs, on the rule itself: for RF <= RF' <= rack count the list for RF is the
    first min(len, RF) nodes of the list for RF'"""
    racks = [z3.BitVec(f"rack{i}", 8) for i in range(n)]
    rf1, rf2 = z3.BitVecs("rf1 rf2", 64)
    rc = count_distinct(racks)
    pre = [z3.ULE(r, 3) for r in racks] + [z3.ULE(rf1, rf2), z3.ULE(rf2, rc)]
    t1, t2 = spec_walk(racks, rf1, rc), spec_walk(racks, rf2, rc)
    # position of node i within list 2 = number of taken nodes before it
    goals = []
    cnt = bv(0, 64)
    for i in range(n):
        goals.append(t1[i] == z3.And(t2[i], z3.ULT(cnt, rf1)))
        cnt = cnt + z3.If(t2[i], bv(1, 64), bv(0, 64))
    ctx.prove(f"c04_compressed_ring_prefix_property_n{n}", pre, z3.And(goals), inputs=racks + [rf1, rf2],
              functions="the selection rule decided equal to the code by c04_nts_walk_*; used by PrecomputedReplicas::compute / get_precomputed_network_strategy_replicas [precomputed_replicas.rs]",
              bounds=f"n={n} nodes, all rack assignments over 4 racks, all RF <= RF' <= rack count: replicas(RF) = first min(len, RF) of replicas(RF')",
              backend="BV+arrays", assumes="none (pure consequence of the rule)", witness=True, outside="n above the bound")


def ring_for_rf(ctx, mf):
    fn = mf.find(r"precomputed_replicas\.rs[^>]*>::get_replica_ring_for_rf\(")
    has_c = z3.Bool("has_compressed"); maxrf = z3.BitVec("compressed_max_rf", 64); rf = z3.BitVec("rf_req", 64)
    present = z3.Array("above_present", z3.BitVecSort(64), z3.BoolSort())
    ring_id = z3.Array("above_ring_id", z3.BitVecSort(64), z3.BitVecSort(64))
    cid = z3.BitVec("compressed_ring_id", 64)
    def m_get(it, p, callee, args):
        mp = sm.deref(args[0]); k = args[1]
        for _ in range(3):
            if isinstance(k, Ref):
                k = sm.deref(k)
        d = z3.If(z3.Select(mp.f[0].t, k.t), bv(1, 64), bv(0, 64))
        return Enum(Int(d, 64, True), {1: Tup([Ref(Cell(Tup([Int(z3.Select(mp.f[1].t, k.t), 64, False)], "TokenRing")))])}, OPTION, "Option")
    def m_range(it, p, callee, args):
        lb = args[1].f[0] if isinstance(args[1], Tup) and args[1].f else None
        if lb is None or "RangeFrom" not in callee:
            raise mir.Unsupported("BTreeMap::range with bounds other than `from..`")
        return Tup([args[0], lb], "BRange")
    def m_range_next(it, p, callee, args):
        """over-approximation: SOME present key >= the lower bound (minimality dropped), or None only if the lower bound itself is absent;
        counterexamples are confirmed natively"""
        r = sm.deref(args[0]); mp = sm.deref(r.f[0]); lb = r.f[1].t
        k = it.fresh("range_key", 64)
        out = []
        q = mir.fork(p)
        q.pc.append(z3.And(z3.UGE(k, lb), z3.Select(mp.f[0].t, k)))
        if it.feasible(q.pc):
            out.append((q, sm.some(it, Tup([Ref(Cell(Int(k, 64, False))), Ref(Cell(Tup([Int(z3.Select(mp.f[1].t, k), 64, False)], "TokenRing")))]))))
        p.pc.append(z3.Not(z3.Select(mp.f[0].t, lb)))
        out.append((p, sm.none(it)))
        return out
    def m_opt_map(it, p, callee, args):
        o, clo = args
        if 1 not in o.payloads:
            return o
        target = sm.find_closure_by_value(it, clo, callee)
        res = it.call_mir(target, p, [clo, o.payloads[1].f[0]])
        return [(q, v if v is mir.PANIC else Enum(o.discr, {1: Tup([v])}, OPTION, "Option")) for q, v in res]
    mods = {r"^std::collections::HashMap::<usize, TokenRing<.*>>::get::<usize>$": m_get,
            r"^BTreeMap::<usize, TokenRing<.*>>::get::<usize>$": m_get,
            r"^BTreeMap::<usize, TokenRing<.*>>::range::<": m_range,
            r"^<std::collections::btree_map::Range<.*> as Iterator>::next$": m_range_next,
            r"^Option::<\(&usize, &TokenRing<.*>\)>::map::<": m_opt_map}
    compressed = Enum(Int(z3.If(has_c, bv(1, 64), bv(0, 64)), 64, True),
                      {1: Tup([Tup([Tup([Int(cid, 64, False)], "TokenRing"), Int(maxrf, 64, False)], "PrecomputedReplicasRing")])}, OPTION, "Option")
    above = Tup([Int(present, 0, False), Int(ring_id, 0, False)], "AMap:above")
    me = Tup([compressed, above], "DatacenterPrecomputedReplicas")
    it = mir.Interp(mf, mir.BVBackend(), mods, max_steps=2000)
    paths = it.run(fn, [Ref(Cell(me)), Int(rf, 64, False)], [])
    goals, cover = [], []
    for p in paths:
        pc = z3.And(p.pc) if p.pc else z3.BoolVal(True)
        if p.outcome[0] != "return":
            goals.append(z3.Not(pc)); continue
        cover.append(pc)
        o = p.outcome[1]
        use_c = z3.And(has_c, z3.UGE(maxrf, rf))
        got_id = sm.deref(o.payloads[1].f[0]).f[0].t if 1 in o.payloads else None
        conj = [z3.Implies(use_c, z3.And(o.discr.t == 1, (got_id == cid) if got_id is not None else z3.BoolVal(False))),
                z3.Implies(z3.Not(use_c), (o.discr.t == 1) == z3.Select(present, rf))]
        if got_id is not None:
            conj.append(z3.Implies(z3.And(z3.Not(use_c), o.discr.t == 1), got_id == z3.Select(ring_id, rf)))
        goals.append(z3.Implies(pc, z3.And(conj)))
    goals.append(z3.Or(cover) if cover else z3.BoolVal(False))
    ctx.prove("c04_precomputed_ring_chosen_for_exactly_the_requested_rf", [], z3.And(goals), inputs=[has_c, maxrf, rf, cid],
              functions="DatacenterPrecomputedReplicas::get_replica_ring_for_rf [scylla/src/routing/locator/precomputed_replicas.rs]",
              bounds="any table of pre-computed rings (compressed ring present or not with any maximum RF; rings above the rack count under arbitrary RF keys), any requested RF: "
                     "the compressed ring iff it exists and its maximum RF >= the request, otherwise the ring stored under exactly that RF, otherwise None",
              backend="BV+arrays", assumes=LIB, witness=False, outside="PrecomputedReplicas::compute (BTreeSet ranges, HashMap of datacenters), ReplicaLocator fallbacks",
              replay=lambda m: replay_ring(m))


def replay_ring(m):
    """native: a table with the model's compressed ring and a ring stored under the requested RF (plus one under RF+1 and one under RF-1 where they exist)"""
    from . import native
    nat = native.Native("drv")
    has_c = bool(m.get("has_compressed")); maxrf = (m.get("compressed_max_rf") or 0) % (1 << 20); rf = (m.get("rf_req") or 0) % (1 << 20)
    bad = []
    for keys in ([], [rf], [rf + 1], [rf + 1, rf] + ([rf - 1] if rf else [])):
        got = nat.ask(f"ringrf {maxrf if has_c else '-'} {','.join(map(str, keys)) or '-'} {rf}")
        if has_c and maxrf >= rf:
            want = "0"
        elif rf in keys:
            want = str(keys.index(rf) + 1)
        else:
            want = "None"
        if got != want:
            bad.append({"compressed_max_rf": maxrf if has_c else None, "rings_above_under": keys, "requested_rf": rf, "native": got, "expected": want})
    nat.close()
    return native.record("C04", "ring_for_rf", {"mismatches": bad[:4]}, bool(bad))


def replay_nts(m, n):
    from . import native
    nat = native.Native("drv")
    racks = [(m.get(f"rack{i}") or 0) & 3 for i in range(n)]
    rf = (m.get("rf") or 0) % (n + 3)
    got = nat.ask(f"nts {rf} " + " ".join(map(str, racks)))
    nat.close()
    # the rule, concretely
    rc = len(set(racks))
    left, rep, used, want = min(rf, n), max(rf - rc, 0), set(), []
    for i, r in enumerate(racks):
        if left == 0:
            break
        if r not in used:
            used.add(r); left -= 1; want.append(i)
        elif rep > 0:
            rep -= 1; left -= 1; want.append(i)
    want_s = ",".join(map(str, want)) or "-"
    return native.record("C04", f"nts_n{n}", {"racks": racks, "rf": rf, "native": got, "expected": want_s}, got != want_s)
