"""C15 (additions) — engine S: `TableTablets::perform_maintenance` (MIR of scylla/src/routing/locator/tablets.rs).

From an arbitrary table of N sorted disjoint tablets (each with resolved or unresolved replicas, flag consistent with them), with
the environment's answers symbolic — whether an unresolved tablet's replicas can be resolved now, whether a tablet has a replica on
a removed node, whether any node was removed / re-created — the tablets that remain are exactly those that are resolved (or
resolvable now) and have no replica on a removed node, in their old order and with their old ranges (hence still sorted and
disjoint); no remaining tablet has unresolved replicas; the flag is cleared.  A token whose tablet was discarded is answered by
nothing rather than by stale data (lookup on the post-state is the already decided `tablet_for_token`)."""
import itertools
import z3
from mir2smt import mir, stdmodels as sm, itermodels as im
from mir2smt.mir import Int, Bool, Tup, Enum, Ref, Cell, Seq, Opaque, Unit
from . import smt_c15 as c15

FILE = c15.FILE
LIB = c15.LIB + ("; Vec::retain / retain_mut = run the predicate's MIR on every element in order and keep those answering true (forking over the answers); "
                 "TabletReplicas::from_raw_replicas = Ok(resolved replicas) or Err(failed ids), an environment answer per tablet; `replicas.all.iter().all(not removed)` = an "
                 "environment answer per tablet; HashSet/HashMap::is_empty = environment answers; Tablet::update_stale_nodes leaves ranges and marks alone (replica identity swap only); "
                 "tracing level check = disabled")
OPTION = mir.ENUM_VARIANTS["Option"]
RESULT = mir.ENUM_VARIANTS["Result"]


def bv(v, w): return z3.BitVecVal(v, w)


def tablet(f, l, tag, failed):
    d = z3.If(failed, bv(1, 64), bv(0, 64))
    return Tup([Tup([Int(f, 64, True)], "Token"), Tup([Int(l, 64, True)], "Token"),
                Tup([Opaque(f"all:{tag}"), Opaque(f"per_dc:{tag}")], "TabletReplicas"),
                Enum(Int(d, 64, True), {1: Tup([Opaque(f"raw:{tag}")])}, OPTION, "Option")], "Tablet")


def _strip(v):
    for _ in range(4):
        if isinstance(v, Ref):
            v = sm.deref(v)
    return v


def tag_of(t):
    return int(t.f[2].f[0].name.split(":")[1].split("'")[0])


def m_retain(it, p, callee, args):
    """Vec::retain / retain_mut: predicate MIR per element, fork over keep / drop where the answer is symbolic"""
    vec, clo = args
    target = sm.find_closure_by_value(it, clo, callee)
    n = len(sm.deref(vec).items)
    # run the predicate element by element; paths fork inside the closure (environment answers) — carry a list of states
    states = [(p, vec, [])]
    key, _ = im.stash(p, clo)
    for i in range(n):
        nxt = []
        for q, vref, keeps in states:
            clo_ref = Ref(q.locals[key])
            res = it.call_mir(target, q, [clo_ref, Ref(vref.cell, tuple(vref.path) + (("index_const", i),))])
            for r, val in res:
                if val is mir.PANIC:
                    raise mir.Unsupported("retain predicate panics")
                rv = sm._reref(q, r, vref)
                t = z3.simplify(val.t)
                if z3.is_true(t) or z3.is_false(t):
                    nxt.append((r, rv, keeps + [z3.is_true(t)]))
                else:
                    for b in (True, False):
                        r2 = mir.fork(r)
                        r2.pc.append(val.t if b else z3.Not(val.t))
                        if it.feasible(r2.pc):
                            nxt.append((r2, sm._reref(r, r2, rv), keeps + [b]))
        states = nxt
    out = []
    for q, vref, keeps in states:
        seq = sm.deref(vref)
        seq.items[:] = [x for x, k in zip(seq.items, keeps) if k]
        q.locals.pop(key, None)
        out.append((q, Unit()))
    return out


def models(env):
    m = dict(c15.models())
    m[r"^Vec::<Tablet>::retain(_mut)?::<"] = m_retain
    def from_raw(it, p, callee, args):
        raw = _strip(args[0])
        tag = int(raw.name.split(":")[1])
        ok = env["resolves"][tag]
        d = z3.If(ok, bv(0, 64), bv(1, 64))
        return Enum(Int(d, 64, True), {0: Tup([Tup([Opaque(f"all:{tag}'"), Opaque(f"per_dc:{tag}'")], "TabletReplicas")]),
                                         1: Tup([Tup([Tup([Opaque("partial"), Opaque("partial")], "TabletReplicas"), Opaque("failed-ids")])])}, RESULT, "Result")
    m[r"^TabletReplicas::from_raw_replicas::<"] = from_raw
    def as_ref(it, p, callee, args):
        o = sm.deref(args[0])
        return Enum(o.discr, ({1: Tup([Ref(Cell(o.payloads[1].f[0]))])} if 1 in o.payloads else {}), OPTION, "Option")
    m[r"^Option::<RawTabletReplicas>::as_ref$"] = as_ref
    m[r"^(std::result::)?Result::<\(\), Vec<uuid::Uuid>>::is_ok$"] = lambda it, p, c, a: Bool(sm.deref(a[0]).discr.t == 0)
    m[r"^<Level as PartialOrd<LevelFilter>>::le$"] = lambda it, p, c, a: Bool(z3.BoolVal(False))
    m[r"^std::collections::HashSet::<uuid::Uuid>::is_empty$"] = lambda it, p, c, a: Bool(env["removed_empty"])
    m[r"^std::collections::HashMap::<uuid::Uuid, Arc<Node>>::is_empty$"] = lambda it, p, c, a: Bool(env["recreated_empty"])
    m[r"^<Vec<\(Arc<Node>, u32\)> as Deref>::deref$"] = lambda it, p, c, a: sm.deref(a[0])
    m[r"core::slice::<impl \[\(Arc<Node>, u32\)\]>::iter$"] = sm.m_identity
    def all_clean(it, p, callee, args):
        tag = int(_strip(args[0]).name.split(":")[1].split("'")[0])
        return Bool(env["clean"][tag])
    m[r"^<std::slice::Iter<'_, \(Arc<Node>, u32\)> as Iterator>::all::<"] = all_clean
    m[r"^<Vec<Tablet> as DerefMut>::deref_mut$"] = sm.m_identity
    m[r"core::slice::<impl \[Tablet\]>::iter_mut$"] = im.m_slice_iter
    m[r"^<std::slice::IterMut<'_, Tablet> as IntoIterator>::into_iter$"] = sm.m_identity
    m[r"^<std::slice::IterMut<'_, Tablet> as Iterator>::next$"] = im.m_next
    m[r"^Tablet::update_stale_nodes$"] = lambda it, p, c, a: Unit()
    m["__consts__"] = {"tracing::Level::WARN": Opaque("level"), "tracing::Level::DEBUG": Opaque("level"), "tracing::level_filters::STATIC_MAX_LEVEL": Opaque("lf")}
    return m


INLINE = [r"(^|::)Tablet::re_resolve_replicas(::<.*>)?$"]


def maintenance(ctx, mf, N):
    fn = mf.find(r"::perform_maintenance\(_1: &mut TableTablets")
    f = [z3.BitVec(f"f{i}", 64) for i in range(N)]; l = [z3.BitVec(f"l{i}", 64) for i in range(N)]
    fd = [z3.Bool(f"failed{i}") for i in range(N)]
    env = {"resolves": [z3.Bool(f"resolves{i}") for i in range(N)], "clean": [z3.Bool(f"no_replica_on_removed_node{i}") for i in range(N)],
           "removed_empty": z3.Bool("no_node_removed"), "recreated_empty": z3.Bool("no_node_recreated")}
    fl0 = z3.Bool("flag0")
    MIN = bv(1 << 63, 64)
    pre = [z3.Implies(z3.Or(fd) if fd else z3.BoolVal(False), fl0)]
    for i in range(N):
        pre += [f[i] != MIN, f[i] <= l[i]]
        if i > 0:
            pre.append(l[i - 1] < f[i])
    table = Tup([Opaque("spec"), Seq([tablet(f[i], l[i], i, fd[i]) for i in range(N)]), Bool(fl0)], "TableTablets")
    it = mir.Interp(mf, mir.BVBackend(), models(env), inline=INLINE, max_steps=20000)
    paths = it.run(fn, [Ref(Cell(table)), Opaque("removed_nodes"), Opaque("all_current_nodes"), Opaque("recreated_nodes")], pre)
    goals, cover = [], []
    keep = [z3.And(z3.Or(z3.Not(fd[i]), env["resolves"][i]), z3.Or(env["removed_empty"], env["clean"][i])) for i in range(N)]
    for p in paths:
        pc = z3.And(p.pc) if p.pc else z3.BoolVal(True)
        if p.outcome[0] != "return":
            goals.append(z3.Not(pc)); continue
        cover.append(pc)
        tab = sm.deref(p.locals[1].v)
        items = tab.f[1].items
        tags = [tag_of(t) for t in items]
        conj = [z3.BoolVal(tags == sorted(tags) and len(set(tags)) == len(tags)), z3.Not(tab.f[2].t)]
        for i in range(N):
            conj.append(keep[i] == z3.BoolVal(i in tags))
        for k, t in enumerate(items):
            i = tags[k]
            conj += [t.f[0].f[0].t == f[i], t.f[1].f[0].t == l[i], t.f[3].discr.t == 0]      # old range, no unresolved replicas left
            if k + 1 < len(items):
                conj.append(t.f[1].f[0].t < items[k + 1].f[0].f[0].t)
        goals.append(z3.Implies(pc, z3.And(conj)))
    goals.append(z3.Or(cover) if cover else z3.BoolVal(False))
    ctx.prove(f"c15_maintenance_n{N}_discards_exactly_unresolvable_and_removed_node_tablets", pre, z3.And(goals),
              inputs=f + l + fd + env["resolves"] + env["clean"] + [env["removed_empty"], env["recreated_empty"], fl0],
              functions=f"TableTablets::perform_maintenance + its retain closures, Tablet::re_resolve_replicas [{FILE}]",
              bounds=f"arbitrary table of N={N} sorted disjoint tablets, each resolved or not (flag consistent), every combination of environment answers (resolvable now / replica on a "
                     "removed node per tablet, any node removed, any node re-created): the remaining tablets are exactly the resolved-or-resolvable ones without a replica on a removed node, "
                     "in order with their old ranges (still sorted and disjoint), none has unresolved replicas, the flag is cleared",
              backend="BV", assumes=LIB, witness=True, outside="TabletsInfo::perform_maintenance (dropping tables of removed keyspaces, HashMap::retain), the contents of replica lists "
              "(from_raw_replicas, update_stale_nodes, per-DC maps)", replay=lambda m, N=N: replay(m, N))


# ------------------------------------------------------------------------------------------------ node identities: re-created nodes
def recreated(ctx, mf, N, R=2):
    """perform_maintenance with node objects tracked: every tablet has R replicas (host id, object identity), all in one datacenter, so the per-DC list mirrors
    the full list. Environment as ClusterState builds it: `recreated_nodes[h]` is the SAME object as `all_current_nodes[h]`; a replica resolved before this
    refresh refers to the OLD object of a re-created node."""
    fn = mf.find(r"::perform_maintenance\(_1: &mut TableTablets")
    H = z3.BitVecSort(64)
    cur_p = z3.Array("known_now", H, z3.BoolSort()); cur_o = z3.Array("object_now", H, H)
    rec_p = z3.Array("recreated", H, z3.BoolSort())
    hid = [[z3.BitVec(f"host{i}_{r}", 64) for r in range(R)] for i in range(N)]; oid = [[z3.BitVec(f"object{i}_{r}", 64) for r in range(R)] for i in range(N)]
    fd = [z3.Bool(f"unresolved{i}") for i in range(N)]
    f = [z3.BitVec(f"f{i}", 64) for i in range(N)]; l = [z3.BitVec(f"l{i}", 64) for i in range(N)]
    fl0 = z3.Bool("flag0"); removed_empty = z3.Bool("no_node_removed"); clean = [z3.Bool(f"no_replica_on_removed_node{i}") for i in range(N)]
    MIN = bv(1 << 63, 64)
    pre = [z3.Implies(z3.Or(fd) if fd else z3.BoolVal(False), fl0)]
    for i in range(N):
        pre += [f[i] != MIN, f[i] <= l[i]]
        if i > 0: pre.append(l[i - 1] < f[i])
        if R > 1: pre.append(z3.Distinct(*hid[i]))
        for r in range(R):
            # a replica that is already resolved and whose node was re-created still refers to the old object
            pre.append(z3.Implies(z3.And(z3.Not(fd[i]), z3.Select(rec_p, hid[i][r])), oid[i][r] != z3.Select(cur_o, hid[i][r])))
    h = z3.BitVec("h_any", 64)
    pre.append(z3.ForAll([h], z3.Implies(z3.Select(rec_p, h), z3.Select(cur_p, h))))
    def arc(hv, ov): return Tup([Tup([Int(hv, 64, False)], "Node"), Int(ov, 64, False)], "ArcNode")
    def reps(i, objs):
        lst = lambda: Seq([Tup([arc(hid[i][r], objs[r]), Int(bv(i, 32), 32, False)]) for r in range(R)])
        return Tup([lst(), Seq([lst()])], "TabletReplicas")            # (all, per_dc = one datacenter holding the same replicas)
    def tab(i):
        d = z3.If(fd[i], bv(1, 64), bv(0, 64))
        return Tup([Tup([Int(f[i], 64, True)], "Token"), Tup([Int(l[i], 64, True)], "Token"), reps(i, oid[i]),
                    Enum(Int(d, 64, True), {1: Tup([Opaque(f"raw:{i}")])}, OPTION, "Option")], "Tablet")
    m = dict(c15.models())
    m[r"^Vec::<Tablet>::retain(_mut)?::<"] = m_retain
    def from_raw(it, p, callee, args):
        i = int(_strip(args[0]).name.split(":")[1])
        ok = z3.And([z3.Select(cur_p, hid[i][r]) for r in range(R)])
        good = reps(i, [z3.Select(cur_o, hid[i][r]) for r in range(R)])
        return Enum(Int(z3.If(ok, bv(0, 64), bv(1, 64)), 64, True), {0: Tup([good]), 1: Tup([Tup([Tup([Seq([]), Seq([])], "TabletReplicas"), Opaque("failed-ids")])])}, RESULT, "Result")
    m[r"^TabletReplicas::from_raw_replicas::<"] = from_raw
    def as_ref(it, p, callee, args):
        o = sm.deref(args[0])
        return Enum(o.discr, ({1: Tup([Ref(Cell(o.payloads[1].f[0]))])} if 1 in o.payloads else {}), OPTION, "Option")
    m[r"^Option::<RawTabletReplicas>::as_ref$"] = as_ref
    m[r"^(std::result::)?Result::<\(\), Vec<uuid::Uuid>>::is_ok$"] = lambda it, p, c, a: Bool(sm.deref(a[0]).discr.t == 0)
    m[r"^<Level as PartialOrd<LevelFilter>>::le$"] = lambda it, p, c, a: Bool(z3.BoolVal(False))
    m[r"^std::collections::HashSet::<uuid::Uuid>::is_empty$"] = lambda it, p, c, a: Bool(removed_empty)
    anyrec = z3.Bool("some_node_recreated")
    pre.append(z3.Implies(z3.Not(anyrec), z3.ForAll([h], z3.Not(z3.Select(rec_p, h)))))
    m[r"^std::collections::HashMap::<uuid::Uuid, Arc<Node>>::is_empty$"] = lambda it, p, c, a: Bool(z3.Not(anyrec))
    m[r"^<Vec<\(Arc<Node>, u32\)> as Deref(Mut)?>::deref(_mut)?$"] = lambda it, p, c, a: a[0]
    m[r"core::slice::<impl \[\(Arc<Node>, u32\)\]>::iter(_mut)?$"] = im.m_slice_iter
    m[r"^<std::slice::IterMut<'_, \(Arc<Node>, u32\)> as (IntoIterator>::into_iter|Iterator>::next)$"] = lambda it, p, c, a: (a[0] if c.endswith("into_iter") else im.m_next(it, p, c, a))
    def all_clean(it, p, callee, args):
        itv = sm.deref(args[0]) if isinstance(args[0], Ref) else args[0]
        first = im.eager_rest(itv)[0]
        i = z3.simplify(sm.deref(first).f[1].t).as_long()
        return Bool(clean[i])
    m[r"^<std::slice::Iter<'_, \(Arc<Node>, u32\)> as Iterator>::all::<"] = all_clean
    m[r"^<Vec<Tablet> as DerefMut>::deref_mut$"] = sm.m_identity
    m[r"core::slice::<impl \[Tablet\]>::iter_mut$"] = im.m_slice_iter
    m[r"^<std::slice::IterMut<'_, Tablet> as IntoIterator>::into_iter$"] = sm.m_identity
    m[r"^<std::slice::IterMut<'_, Tablet> as Iterator>::next$"] = im.m_next
    m[r"^<Arc<Node> as Deref>::deref$"] = lambda it, p, c, a: Ref(a[0].cell, tuple(a[0].path) + (("field", 0),))
    def rec_get(it, p, callee, args):
        k = _strip(args[1])
        present = z3.Select(rec_p, k.t)
        return Enum(Int(z3.If(present, bv(1, 64), bv(0, 64)), 64, True), {1: Tup([Ref(Cell(arc(k.t, z3.Select(cur_o, k.t))))])}, OPTION, "Option")
    m[r"^std::collections::HashMap::<uuid::Uuid, Arc<Node>>::get::<uuid::Uuid>$"] = rec_get
    m[r"^Arc::<Node>::ptr_eq$"] = lambda it, p, c, a: Bool(_strip(a[0]).f[1].t == _strip(a[1]).f[1].t)
    m[r"^<Arc<Node> as Clone>::clone$"] = lambda it, p, c, a: mir.copy_value(_strip(a[0]))
    m[r"^std::collections::HashMap::<String, Vec<\(Arc<Node>, u32\)>>::values_mut$"] = \
        lambda it, p, c, a: im.eager([Ref(a[0].cell, tuple(a[0].path) + (("index_const", k),)) for k in range(len(sm.deref(a[0]).items))])
    m[r"^<std::collections::hash_map::ValuesMut<.*> as (IntoIterator>::into_iter|Iterator>::next)$"] = lambda it, p, c, a: (a[0] if c.endswith("into_iter") else im.m_next(it, p, c, a))
    m["__consts__"] = {"tracing::Level::WARN": Opaque("level"), "tracing::Level::DEBUG": Opaque("level"), "tracing::level_filters::STATIC_MAX_LEVEL": Opaque("lf")}
    table = Tup([Opaque("spec"), Seq([tab(i) for i in range(N)]), Bool(fl0)], "TableTablets")
    it = mir.Interp(mf, mir.BVBackend(), m, inline=INLINE + [r"(^|::)Tablet::update_stale_nodes$"], max_steps=60000)
    paths = it.run(fn, [Ref(Cell(table)), Opaque("removed_nodes"), Opaque("all_current_nodes"), Opaque("recreated_nodes")], pre)
    goals, cover = [], []
    for p in paths:
        pc = z3.And(p.pc[len(pre):]) if len(p.pc) > len(pre) else z3.BoolVal(True)
        if p.outcome[0] != "return":
            goals.append(z3.Not(pc)); continue                       # no panic during maintenance
        cover.append(pc)
        tabp = sm.deref(p.locals[1].v)
        conj = []
        for t in tabp.f[1].items:
            allr, dcr = t.f[2].f[0].items, t.f[2].f[1].items[0].items
            conj.append(z3.BoolVal(len(allr) == len(dcr)))
            for k, rep in enumerate(allr):
                a = rep.f[0]
                # every remaining replica refers to the current object of its node when that node was re-created ...
                conj.append(z3.Implies(z3.Select(rec_p, a.f[0].f[0].t), a.f[1].t == z3.Select(cur_o, a.f[0].f[0].t)))
                # ... and the per-datacenter list is the restriction of the full list: same hosts, same objects
                if k < len(dcr):
                    b = dcr[k].f[0]
                    conj.append(z3.And(b.f[0].f[0].t == a.f[0].f[0].t, b.f[1].t == a.f[1].t))
        goals.append(z3.Implies(pc, z3.And(conj) if conj else z3.BoolVal(True)))
    goals.append(z3.Or(cover) if cover else z3.BoolVal(False))
    ctx.prove(f"c15_maintenance_n{N}_with_recreated_nodes_never_panics_and_swaps_objects", pre, z3.And(goals),
              inputs=[x for row in hid for x in row] + [x for row in oid for x in row] + fd + f + l + clean + [fl0, removed_empty, anyrec],
              functions=f"TableTablets::perform_maintenance, Tablet::{{re_resolve_replicas, update_stale_nodes}} [{FILE}]",
              bounds=f"arbitrary table of N={N} tablets with {R} replicas each in one datacenter (host ids and node objects symbolic), resolved or not; the refresh's maps symbolic (which hosts are known "
                     "now, their current objects, which were re-created) under the relation ClusterState establishes (a re-created host is known and recreated_nodes holds the same object as "
                     "all_current_nodes; an already resolved replica of a re-created host still refers to the old object): maintenance does not panic; afterwards every remaining replica of a "
                     "re-created host refers to its current object, and the per-datacenter replica list equals the full list entry by entry (same hosts, same objects)",
              backend="BV+arrays", assumes=LIB + "; HashMap<Uuid, Arc<Node>>::get / Arc::ptr_eq / Arc::clone over (host id, object id) pairs; per-DC map = one datacenter", witness=True,
              outside="replicas spread over several datacenters, more replicas per tablet", replay=lambda mm, N=N: replay_recreated(mm, N))


def replay_recreated(m, N):
    """native: real two-replica tablets, and maps built the way ClusterState builds them (recreated_nodes shares the Arc of all_current_nodes). The solver's array
    values (which hosts are known / re-created) are not read back; the native run tries the four known/re-created placements over the two replicas with the
    model's ranges and resolved flags, and reports what the real code does."""
    from . import native
    def s64(v):
        v = (v or 0) & ((1 << 64) - 1)
        return v - (1 << 64) if v >= (1 << 63) else v
    nat = native.Native("drv")
    rows, runs, bad = [], [], False
    for i in range(N):
        rows.append(f"{s64(m.get(f'f{i}'))} {s64(m.get(f'l{i}'))} {int(bool(m.get(f'unresolved{i}')))}")
    variants = [[r.split() for r in rows]]
    variants.append([[r.split()[0], r.split()[1], "0"] for r in rows])
    variants.append([[r.split()[0], r.split()[1], "1"] for r in rows])
    for var in variants:
        for rm in (0, 1, 2, 3):
            got = nat.ask(f"tmaint3 {N} " + " ".join(" ".join(r) for r in var) + f" 3 {rm}")
            runs.append({"tablets": var, "recreated_mask": rm, "native": got})
            if got.startswith("PANIC") or "=false" in got:
                bad = True
    nat.close()
    return native.record("C15", f"maintenance_recreated_n{N}", {"expected": "no PANIC; per_dc_mirrors_all=true recreated_swapped=true", "runs": [r for r in runs if r["native"].startswith("PANIC") or "=false" in r["native"]][:6] or runs[:2]}, bad)


def replay(m, N):
    """native: real tablets with one replica each (known or unknown node), real HashSet / HashMaps for removed / current / re-created nodes"""
    from . import native
    def s64(v):
        v = (v or 0) & ((1 << 64) - 1)
        return v - (1 << 64) if v >= (1 << 63) else v
    nat = native.Native("drv")
    rows, keep = [], []
    any_removed = not m.get("no_node_removed"); any_recreated = not m.get("no_node_recreated")
    for i in range(N):
        fdv, res, clean = bool(m.get(f"failed{i}")), bool(m.get(f"resolves{i}")), bool(m.get(f"no_replica_on_removed_node{i}"))
        rows.append(f"{s64(m.get(f'f{i}'))} {s64(m.get(f'l{i}'))} {int(fdv)} {int(res)} {int(not clean)}")
        keep.append((not fdv or res) and (not any_removed or clean))
    got = nat.ask(f"tmaint {N} " + " ".join(rows) + f" {int(any_removed)} {int(any_recreated)}")
    nat.close()
    left = ";".join(f"{s64(m.get(f'f{i}'))},{s64(m.get(f'l{i}'))}" for i in range(N) if keep[i]) or "-"
    ok = got.endswith(f"after=false left={left}")
    return native.record("C15", f"maintenance_n{N}", {"native": got, "expected": f"after=false left={left}"}, not ok)


def run(ctx, mf, tier):
    for N in ((1, 2) if tier == "quick" else (1, 2, 3)):
        try:
            if not ctx.skip(f"c15_maintenance_n{N}_with_recreated_nodes_never_panics_and_swaps_objects"):
                recreated(ctx, mf, N)
        except mir.Unsupported as e:
            ctx.add(name=f"smt:c15_translate_maintenance_recreated_n{N}", engine="smt:mir2smt", status="inconclusive",
                    reason="translator rejected the current source: " + str(e), functions=FILE)
        except (AttributeError, KeyError, IndexError, TypeError, ValueError) as e:
            ctx.add(name=f"smt:c15_translate_maintenance_recreated_n{N}", engine="smt:mir2smt", status="inconclusive",
                    reason=f"translator failed on the current source ({type(e).__name__}: {e})", functions=FILE)
    for N in ((0, 1, 2) if tier == "quick" else (0, 1, 2, 3)):
        try:
            maintenance(ctx, mf, N)
        except mir.Unsupported as e:
            ctx.add(name=f"smt:c15_translate_maintenance_n{N}", engine="smt:mir2smt", status="inconclusive",
                    reason="translator rejected the current source: " + str(e), functions=FILE)
        except (AttributeError, KeyError, IndexError, TypeError, ValueError) as e:
            ctx.add(name=f"smt:c15_translate_maintenance_n{N}", engine="smt:mir2smt", status="inconclusive",
                    reason=f"translator failed on the current source ({type(e).__name__}: {e})", functions=FILE)
