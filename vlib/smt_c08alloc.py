"""C08 (resource clause, metadata) — engine S: a response must not make the decoder allocate out of proportion to its size.

RESULT metadata and PREPARED metadata carry 32-bit element counts chosen by the peer (column count, partition-key count) and the
parsers pre-allocate their vectors from them.  `deser_result_metadata` and `deser_prepared_metadata` are executed from the MIR
of scylla-cql/src/frame/response/result.rs on bodies whose flags, counts and following bytes are all SYMBOLIC; every
`Vec::with_capacity(n)` request is recorded together with its path condition, and the obligation is that n never exceeds the
number of bytes of the body (every element of these vectors takes at least one byte on the wire).  The path is cut at the
first request with a symbolic size — what happens after it is the subject of the other C08 obligations."""
import z3
from mir2smt import dump, mir, solve, oblig, rustenum, stdmodels as sm, itermodels as im
from mir2smt.mir import Int, Bool, Tup, Enum, Ref, Cell, Seq, Opaque, Unit
from . import smt_c08 as c08, smt_c03pk as c03pk

FILE = "scylla-cql/src/frame/response/result.rs"
MARK = "ALLOCATION-RECORDED"


def bv(v, w): return z3.BitVecVal(v, w)


def alloc_models(base, requests):
    m = dict(base)
    for k, v in c03pk.base_models().items():
        m.setdefault(k, v)
    def with_capacity(it, p, callee, args):
        n = args[0]
        t = z3.simplify(n.t)
        requests.append((list(p.pc), n.t, callee))
        if z3.is_bv_value(t):
            return Seq([])
        raise mir.Panic(MARK)
    first = {r"^Vec::<.*>::with_capacity$": with_capacity, r"^std::cmp::min::<usize>$": sm.m_usize_min, r"^<usize as Ord>::min$": sm.m_usize_min, r"core::cmp::Ord::min$": sm.m_usize_min,
             r"core::slice::<impl \[u8\]>::len$": lambda it, p, c, a: it.const_int(sm.slice_parts(sm.deref(a[0]) if isinstance(a[0], Ref) else a[0])[2], "usize")}
    for k, v in m.items():
        first.setdefault(k, v)
    first.pop(r"^deser_col_specs_owned$", None)          # cut in the C03 obligation; here it is the subject
    return first


def one(ctx, cql, reg, what, tail):
    """what: 'result' | 'prepared_pk' | 'prepared_cols'"""
    name = {"result": "c08_result_metadata_preallocation_is_bounded_by_the_body_size",
            "prepared_pk": "c08_prepared_metadata_pk_index_preallocation_is_bounded_by_the_body_size",
            "prepared_cols": "c08_prepared_metadata_column_preallocation_is_bounded_by_the_body_size"}[what]
    if ctx.skip(name):
        return
    fn = cql.find(r"(^|\s|::)deser_result_metadata\(") if what == "result" else cql.find(r"(^|\s|::)deser_prepared_metadata\(")
    cols = z3.BitVec("column_count", 32); pks = z3.BitVec("pk_count", 32)
    rest = [z3.BitVec(f"byte{i}", 8) for i in range(tail)]
    goals, reached, L = [], [], 0
    # flag words: the bits the parsers branch on are enumerated, the others are symbolic
    flag_cases = [(g, n) for g in (0, 1) for n in (0, 1)] if what == "result" else [(g, 0) for g in (0, 1)]
    hi = z3.BitVec("other_flag_bits", 28)
    for g, n in flag_cases:
        low = g | (n << 2)
        data = c08.be(z3.Concat(hi, bv(low, 4)), 4) + c08.be(cols, 4)
        if what == "prepared_pk":
            data += c08.be(pks, 4)
        elif what == "prepared_cols":
            data += c08.be(bv(0, 32), 4)                   # no partition-key columns: the loop over them is empty
        if g and what != "prepared_pk":
            data += [bv(x, 8) for x in (0, 1, ord("k"), 0, 1, ord("t"))]      # the global table spec (two 1-byte strings) precedes the column specs
        data += rest
        L = len(data)
        requests = []
        it = mir.Interp(cql, mir.BVBackend(), alloc_models(c08.meta_models(), requests), inline=c08.META_INLINE + c03pk.INLINE, registry=reg, max_steps=40000)
        backing = Cell(Seq([Int(b, 8, False) for b in data]))
        buf = Cell(sm.mk_slice(it, Ref(backing), 0, L))
        args = [Ref(buf)]
        if what == "result":
            args.append(Ref(Cell(Tup([sm.none(it), Opaque("lwt"), Opaque("tablets"), Bool(z3.BoolVal(False))], "ProtocolFeatures"))))
        paths = it.run(fn, args, [])
        for p in paths:
            if p.outcome[0] != "return" and MARK not in str(p.outcome):
                goals.append(z3.Not(z3.And(p.pc) if p.pc else z3.BoolVal(True)))        # a genuine panic
        for pc, nreq, callee in requests:
            c = z3.And(pc) if pc else z3.BoolVal(True)
            goals.append(z3.Implies(c, z3.ULE(nreq, bv(L, 64))))
            reached.append(c)
    s = z3.Solver(); s.add(z3.Or(reached) if reached else z3.BoolVal(False))
    if s.check() != z3.sat:
        raise mir.Unsupported("no Vec::with_capacity request is reachable in " + what + ": the obligation would be vacuous")
    ctx.prove(name, [], z3.And(goals), inputs=[hi, cols] + ([pks] if what == "prepared_pk" else []) + rest,
              functions=("deser_result_metadata, deser_col_specs_generic" if what == "result" else "deser_prepared_metadata, deser_col_specs_generic") + f" [{FILE}]",
              bounds=f"bodies of {L} bytes: flag word (branch bits enumerated: " + ("GLOBAL_TABLES_SPEC, NO_METADATA; no paging state, no metadata id" if what == "result" else "GLOBAL_TABLES_SPEC")
                     + "; the other bits symbolic), column count" + (", partition-key count" if what == "prepared_pk" else "") + f" and the {tail} following bytes all symbolic: every "
                     f"Vec::with_capacity request made while parsing asks for at most {L} elements (each element needs at least one byte of input); no panic before the request",
              backend="BV", assumes=c08.LIB + "; Vec::with_capacity recorded (size, path condition) and the path cut at the first request of symbolic size", witness=False,
              outside="the u16-counted pre-allocations (tuple / UDT field lists, string lists and maps: at most 65535 elements by type), the frame body buffer (async reader), rows",
              replay=lambda m, what=what, L=L: replay_alloc(m, what, L))


def replay_alloc(m, what, L):
    """native, in a process of its own under a 4 GB address-space limit: the real parser on the model's body; an abort ('memory allocation of N bytes failed') or a
    request far above the body size reproduces the violation"""
    import subprocess, os
    from . import native, kanirun
    flags = 0; cols = int(m.get("column_count") or 0) & 0xffffffff; pks = int(m.get("pk_count") or 0) & 0xffffffff
    if what == "result":
        nat = native.Native("core"); binp = nat.bin; nat.close()
        body = flags.to_bytes(4, "big") + cols.to_bytes(4, "big")
        line = f"resmeta 0 {body.hex()}"
    else:
        nat = native.Native("drv"); binp = nat.bin; nat.close()
        line = f"prepmeta {flags} {cols} {pks if what == 'prepared_pk' else 0}"
    p = subprocess.run(["bash", "-c", f"ulimit -v 4000000; printf '%s\\n' '{line}' | {binp}"], capture_output=True, text=True, timeout=120)
    out = (p.stdout + p.stderr).strip()
    aborted = p.returncode != 0 or "memory allocation of" in out
    return native.record("C08", f"metadata_allocation_{what}", {"command": line, "address_space_limit": "4 GB", "exit_code": p.returncode, "output": out[-300:],
                                                                  "expected": "an answer (OK / ERR) without aborting"}, aborted)


def run(ctx, cql, reg, tier):
    for what in ("result", "prepared_pk", "prepared_cols"):
        for tail in ((4,) if tier == "quick" else (4, 12)):
            try:
                one(ctx, cql, reg, what, tail)
            except mir.Unsupported as e:
                ctx.add(name=f"smt:c08_translate_allocation_{what}", engine="smt:mir2smt", status="inconclusive", reason="translator rejected the current source: " + str(e), functions=FILE)
            except (AttributeError, KeyError, IndexError, TypeError, ValueError) as e:
                ctx.add(name=f"smt:c08_translate_allocation_{what}", engine="smt:mir2smt", status="inconclusive", reason=f"translator failed on the current source ({type(e).__name__}: {e})", functions=FILE)
            break
