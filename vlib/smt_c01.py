"""C01 — engine S part: the variable-length integer kernels (used by `duration` and by vector elements of variable
width) for ALL 64-bit values: zig-zag, unsigned vint encode (length + bytes against an independent definition of
Cassandra's unsigned vint), decode(encode(v)) == v consuming exactly the encoded bytes, no overflow panic.
Encoded from the MIR of scylla-cql-core/src/frame/types.rs."""
import z3
from mir2smt import dump, mir, solve, oblig, stdmodels as sm
from mir2smt.mir import Int, Bool, Tup, Enum, Ref, Cell, Seq, Opaque, Unit

FILE = "scylla-cql-core/src/frame/types.rs"
LIB = ("library models (trusted): u64::leading_zeros, u8::leading_ones, Vec<u8>::put_u8, BufMut::put_uint(v, n) = the n low-order bytes big-endian, "
       "ReadBytesExt::read_u8 / read_uint::<BigEndian>(n) on &[u8] (Err on short input), Result plumbing")


def bv(v, w): return z3.BitVecVal(v, w)


def models():
    m = {}
    m.update(sm.BUFMUT_MODELS); m.update(sm.SLICE_MODELS); m.update(sm.INT_MODELS)

    def leading_zeros(it, p, c, a):
        return Int(it.be.leading_zeros(a[0].t, a[0].w), 32, False)

    def leading_ones(it, p, c, a):
        return Int(it.be.leading_zeros(~a[0].t, a[0].w), 32, False)

    def put_uint(it, p, c, a):
        sink, v, n = a
        out = []
        # the byte count is symbolic (a function of leading_zeros): fork over its feasible values
        for q, k in sm.concretize(it, p, n, 0, 9):
            if not (1 <= k <= 8):
                q.outcome = ("panic", "put_uint: nbytes out of range")
                out.append((q, mir.PANIC)); continue
            s2 = sm._reref(p, q, sink)
            sm.sink_items(s2).extend([Int(z3.Extract(8 * i + 7, 8 * i, v.t), 8, False) for i in reversed(range(k))])
            out.append((q, Unit()))
        return out

    def read_u8(it, p, c, a):
        sl = sm.deref(a[0])
        base, st, ln = sm.slice_parts(sl)
        if ln < 1:
            return Enum(it.const_int(1, "isize"), {1: Tup([Opaque("io::Error")])}, sm.RESULT, "Result")
        b = sm.elems(sm.deref(base))[st]
        sl.f[1] = it.const_int(st + 1, "usize"); sl.f[2] = it.const_int(ln - 1, "usize")
        return Enum(it.const_int(0, "isize"), {0: Tup([b])}, sm.RESULT, "Result")

    def read_uint(it, p, c, a):
        out = []
        for q, k in sm.concretize(it, p, a[1], 0, 9):
            if not (1 <= k <= 8):
                q.outcome = ("panic", "read_uint: nbytes out of range")
                out.append((q, mir.PANIC)); continue
            sl = sm.deref(sm._reref(p, q, a[0]))
            base, st, ln = sm.slice_parts(sl)
            if ln < k:
                out.append((q, Enum(it.const_int(1, "isize"), {1: Tup([Opaque("io::Error")])}, sm.RESULT, "Result"))); continue
            bs = sm.elems(sm.deref(base))[st:st + k]
            t = bs[0].t
            for b in bs[1:]:
                t = z3.Concat(t, b.t)
            t = z3.ZeroExt(64 - 8 * k, t) if k < 8 else t
            sl.f[1] = it.const_int(st + k, "usize"); sl.f[2] = it.const_int(ln - k, "usize")
            out.append((q, Enum(it.const_int(0, "isize"), {0: Tup([Int(t, 64, False)])}, sm.RESULT, "Result")))
        return out

    m[r"core::num::<impl u64>::leading_zeros$"] = leading_zeros
    m[r"core::num::<impl u8>::leading_ones$"] = leading_ones
    m[r"BufMut>::put_uint$"] = put_uint
    m[r"ReadBytesExt>::read_u8$"] = read_u8
    m[r"ReadBytesExt>::read_uint::<BigEndian>$"] = read_uint
    m[r"^(std::result::)?Result::<.*>::map::<"] = None   # placeholder replaced below
    return m


def run(tier, seed, only):
    ctx = oblig.Ctx(tier, only)
    try:
        mf = mir.MirFile(dump.dump("scylla-cql-core"))
    except Exception as e:
        return [{"name": "smt:c01_mir_dump", "engine": "smt:mir2smt", "status": "inconclusive", "reason": str(e)[:500]}]
    try:
        vint(ctx, mf)
    except mir.Unsupported as e:
        ctx.add(name="smt:c01_translate_vint", engine="smt:mir2smt", status="inconclusive",
                reason="translator rejected the current source: " + str(e), functions=FILE)
    return ctx.results


def spec_len(v):
    """Cassandra unsigned vint size: 1 byte per 7 bits of magnitude, 9 bytes when more than 56 bits are needed"""
    n = z3.BitVecVal(9, 8)
    for k in range(8, 0, -1):
        n = z3.If(z3.ULT(v, z3.BitVecVal(1 << (7 * k), 64)), z3.BitVecVal(k, 8), n)
    return n


def vint(ctx, mf):
    be = mir.BVBackend()
    mods = models()
    del mods[r"^(std::result::)?Result::<.*>::map::<"]
    v = z3.BitVec("v", 64)
    # ---- zig-zag
    zz_e = mf.find(r"(^|::)zig_zag_encode\(")
    zz_d = mf.find(r"(^|::)zig_zag_decode\(")
    it = mir.Interp(mf, be, mods)
    pe = it.run(zz_e, [Int(v, 64, True)], [])
    goals = []
    for p in pe:
        pc = z3.And(p.pc) if p.pc else z3.BoolVal(True)
        if p.outcome[0] != "return":
            goals.append(z3.Not(pc)); continue
        enc = p.outcome[1].t
        goals.append(z3.Implies(pc, enc == ((v << 1) ^ (v >> 63))))
        it2 = mir.Interp(mf, be, mods)
        for q in it2.run(zz_d, [Int(enc, 64, False)], list(p.pc)):
            qc = z3.And(q.pc) if q.pc else z3.BoolVal(True)
            goals.append(z3.Not(qc) if q.outcome[0] != "return" else z3.Implies(qc, q.outcome[1].t == v))
    ctx.prove("c01_zigzag_is_the_standard_bijection", [], z3.And(goals), inputs=[v], functions=f"zig_zag_encode, zig_zag_decode [{FILE}]",
              bounds="all 2^64 values: encode == (v<<1)^(v>>63), decode(encode(v)) == v, no overflow panic", backend="BV", assumes=LIB, witness=False)
    # ---- unsigned vint: encode shape + round trip
    enc_fn = mf.find(r"(^|::)unsigned_vint_encode\(")
    dec_fn = mf.find(r"(^|::)unsigned_vint_decode\(")
    it = mir.Interp(mf, be, mods, max_steps=4000)
    sink = Cell(Seq([]))
    paths = it.run(enc_fn, [Int(v, 64, False), Ref(sink)], [])
    goals, cover = [], []
    n = spec_len(v)
    for p in paths:
        pc = z3.And(p.pc) if p.pc else z3.BoolVal(True)
        cover.append(pc)
        if p.outcome[0] != "return":
            goals.append(z3.Not(pc)); continue
        items = sm.deref(p.locals[2].v).items
        L = len(items)
        conj = [n == L]
        # first byte: L-1 leading one bits then a zero bit (for L < 9); payload = big-endian value in the remaining bits
        whole = items[0].t
        for b in items[1:]:
            whole = z3.Concat(whole, b.t)
        if L < 9:
            payload_bits = 8 * L - L       # bits after the length marker (L-1 ones + 1 zero)
            marker = z3.Extract(8 * L - 1, payload_bits, whole)
            conj.append(marker == z3.BitVecVal(((1 << (L - 1)) - 1) << 1, L))
            conj.append(z3.ZeroExt(64 - payload_bits, z3.Extract(payload_bits - 1, 0, whole)) == v)
        else:
            conj.append(z3.Extract(71, 64, whole) == 0xff)
            conj.append(z3.Extract(63, 0, whole) == v)
        goals.append(z3.Implies(pc, z3.And(conj)))
        # decode what was encoded, followed by two arbitrary bytes that must not be consumed
        extra = [z3.BitVec("x0", 8), z3.BitVec("x1", 8)]
        data = Cell(Seq([Int(b.t, 8, False) for b in items] + [Int(e, 8, False) for e in extra]))
        it2 = mir.Interp(mf, be, mods, max_steps=4000)
        slcell = Cell(sm.mk_slice(it2, Ref(data), 0, L + 2))
        for q in it2.run(dec_fn, [Ref(slcell)], list(p.pc)):
            qc = z3.And(q.pc) if q.pc else z3.BoolVal(True)
            if q.outcome[0] != "return":
                goals.append(z3.Not(qc)); continue
            r = q.outcome[1]
            rest = sm.slice_parts(sm.deref(q.locals[1].v))
            ok = [r.discr.t == 0, z3.BoolVal(rest[1] == L and rest[2] == 2)]
            if 0 in r.payloads:
                ok.append(r.payloads[0].f[0].t == v)
            goals.append(z3.Implies(qc, z3.And(ok)))
    goals.append(z3.Or(cover))
    ctx.prove("c01_unsigned_vint_encoding_and_roundtrip", [], z3.And(goals), inputs=[v, z3.BitVec("x0", 8), z3.BitVec("x1", 8)],
              functions=f"unsigned_vint_encode, unsigned_vint_decode [{FILE}]",
              bounds="all 2^64 values: encoded length = Cassandra's vint size (1..9), first byte = length marker, payload = big-endian value; "
                     "decode(encode(v) ++ 2 arbitrary bytes) == v and consumes exactly the encoded bytes; no overflow / shift panic",
              backend="BV", assumes=LIB, witness=False, replay=replay_vint)
    # ---- decode never panics on arbitrary input of every length 0..=10
    goals = []
    inputs = []
    for L in range(0, 11):
        bs = [z3.BitVec(f"b{L}_{i}", 8) for i in range(L)]
        inputs += bs
        data = Cell(Seq([Int(b, 8, False) for b in bs]))
        it2 = mir.Interp(mf, be, mods, max_steps=4000)
        slcell = Cell(sm.mk_slice(it2, Ref(data), 0, L))
        qs = it2.run(dec_fn, [Ref(slcell)], [])
        for q in qs:
            qc = z3.And(q.pc) if q.pc else z3.BoolVal(True)
            if q.outcome[0] != "return":
                goals.append(z3.Not(qc)); continue
            rest = sm.slice_parts(sm.deref(q.locals[1].v))
            goals.append(z3.Implies(qc, z3.BoolVal(rest[1] + rest[2] == L)))      # cursor stays inside the input
        goals.append(z3.Or([z3.And(q.pc) if q.pc else z3.BoolVal(True) for q in qs]))
    ctx.prove("c01_unsigned_vint_decode_total_on_arbitrary_bytes", [], z3.And(goals), inputs=inputs,
              functions=f"unsigned_vint_decode [{FILE}]", bounds="every byte string of every length 0..=10: value or error, never a panic, cursor inside the input",
              backend="BV", assumes=LIB, witness=False)


def spec_uvint(v):
    """Cassandra's unsigned vint, written independently (concrete)"""
    n = 9
    for k in range(1, 9):
        if v < (1 << (7 * k)):
            n = k
            break
    if n == 9:
        return bytes([0xff]) + v.to_bytes(8, "big")
    marker = ((1 << (n - 1)) - 1) << (8 - (n - 1)) & 0xff if n > 1 else 0
    raw = v.to_bytes(n, "big")
    return bytes([raw[0] | marker]) + raw[1:]


def replay_vint(m):
    """native replay through the public API: a duration whose nanoseconds zig-zag to the model's value"""
    from . import native
    v = (m.get("v") or 0) & ((1 << 64) - 1)
    nanos = (v >> 1) ^ -(v & 1)
    nat = native.Native("core")
    got = nat.ask(f"duration 0 0 {nanos}")
    nat.close()
    want_body = (b"\x00\x00" + spec_uvint(v)).hex()
    want = f"{want_body} 0 0 {nanos}"
    return native.record("C01", "vint", {"v": v, "nanoseconds": nanos, "native": got, "expected": want}, got != want)
