"""C06 — engine S: the retry policies' decision functions, one step from an ARBITRARY session state
(inductive: covers histories of any length), every error variant with every field value.
Encoded from the MIR of scylla/src/policies/retry/{default,downgrading_consistency,fallthrough}.rs."""
import time
import z3
from mir2smt import dump, mir, solve, oblig, rustenum, stdmodels as sm
from mir2smt.mir import Int, Bool, Tup, Enum, Ref, Cell, Seq, Opaque

SRC = ["/repo/scylla/src/errors.rs", "/repo/scylla-cql-core/src/frame/response/error.rs",
       "/repo/scylla-cql-core/src/frame/types.rs", "/repo/scylla/src/policies/retry/retry_policy.rs"]
LIB = ("library models (trusted): derived PartialEq on WriteType/Consistency = discriminant equality (WriteType::Other(s): string equality left "
       "nondeterministic), <&i32 as PartialOrd>::{lt,le,gt,ge} = signed comparison, tracing level check = disabled (logging cannot influence the decision); "
       "variant indices taken from the enum declarations in the current source")


def enum_value(be, ed, discr_term, payloads):
    return Enum(Int(discr_term, 64, True), payloads, ed.variant_map(), ed.name)


def sym_field(be, name, prefix, reg, pre, sfx=""):
    """symbolic value for a DbError field, by name"""
    if name == "consistency":
        return sym_consistency(be, prefix + "_cons" + sfx, reg, pre)
    if name in ("received", "required", "alive", "numfailures"):
        return Int(z3.BitVec(f"{prefix}_{name}{sfx}", 32), 32, True)
    if name in ("data_present", "rejected_by_coordinator"):
        return Bool(z3.Bool(f"{prefix}_{name}{sfx}"))
    if name == "write_type":
        ed = reg.get("WriteType")
        d = z3.BitVec(f"{prefix}_wt{sfx}", 64)
        pre.append(z3.Or([d == v for _, v, _ in ed.variants]))
        return enum_value(be, ed, d, {ed.discr("Other"): Tup([Opaque("string")])})
    if name == "op_type":
        ed = reg.get("OperationType")
        d = z3.BitVec(f"{prefix}_op{sfx}", 64)
        pre.append(z3.Or([d == v for _, v, _ in ed.variants]))
        return enum_value(be, ed, d, {ed.discr("Other"): Tup([Int(z3.BitVec(f"{prefix}_opb{sfx}", 8), 8, False)])})
    return Opaque(name)


def sym_consistency(be, name, reg, pre):
    ed = reg.get("Consistency")
    d = z3.BitVec(name, 64)
    pre.append(z3.Or([d == v for _, v, _ in ed.variants]))
    return enum_value(be, ed, d, {})


def sym_error(be, reg, pre, sfx=""):
    rae, dbe = reg.get("RequestAttemptError"), reg.get("DbError")
    dd = z3.BitVec("db_kind" + sfx, 64)
    pre.append(z3.Or([dd == v for _, v, _ in dbe.variants]))
    dpl = {}
    for vname, dv, fields in dbe.variants:
        if fields:
            if vname == "Other":
                dpl[dv] = Tup([Int(z3.BitVec("db_other_code" + sfx, 32), 32, True)])
            else:
                dpl[dv] = Tup([sym_field(be, f, "db", reg, pre, sfx) for f in fields])
    db = enum_value(be, dbe, dd, dpl)
    ed = z3.BitVec("err_kind" + sfx, 64)
    pre.append(z3.Or([ed == v for _, v, _ in rae.variants]))
    epl = {}
    for vname, dv, fields in rae.variants:
        if vname == "DbError":
            epl[dv] = Tup([db, Opaque("msg")])
        elif vname == "BrokenConnectionError":
            # the wrapped reason (Arc<dyn Error>): any BrokenConnectionErrorKind, or some other error type
            bk = reg.get("BrokenConnectionErrorKind")
            kd = z3.BitVec("broken_kind" + sfx, 64)
            pre.append(z3.Or([kd == v for _, v, _ in bk.variants]))
            kind = enum_value(be, bk, kd, {v: Tup([Opaque(f) for f in fs]) for _, v, fs in bk.variants if fs})
            epl[dv] = Tup([Tup([kind, Bool(z3.Bool("broken_is_kind" + sfx))], "BrokenConnectionError")])
        elif fields:
            epl[dv] = Tup([Opaque(f) for f in fields])
    return enum_value(be, rae, ed, epl), ed, dd


def models():
    def cmp_ref_i32(it, p, callee, args):
        a, b = sm.deref(sm.deref(args[0])), sm.deref(sm.deref(args[1]))
        op = callee.rsplit("::", 1)[1]
        be = it.be
        return Bool({"ge": be.sle(b.t, a.t, 32), "gt": be.slt(b.t, a.t, 32), "le": be.sle(a.t, b.t, 32), "lt": be.slt(a.t, b.t, 32)}[op])

    def enum_eq(nondet_variant=None):
        def f(it, p, callee, args):
            a, b = sm.deref(args[0]), sm.deref(args[1])
            eq = a.discr.t == b.discr.t
            if nondet_variant is not None and nondet_variant in a.variants:
                ov = a.variants[nondet_variant]
                eq = z3.And(eq, z3.Or(a.discr.t != ov, it.fresh("streq", 1) == 1))
            return Bool(eq)
        return f

    def level_le(it, p, callee, args):
        return Bool(z3.BoolVal(False))

    def broken_downcast(it, p, callee, args):
        """BrokenConnectionError::downcast_ref::<BrokenConnectionErrorKind>: Some(&kind) iff the wrapped error is of that type"""
        e = sm.deref(args[0])
        be = it.be
        d = be.ite(e.f[1].t, be.const(1, 64), be.const(0, 64))
        inner = Ref(Cell(e.f[0]))
        return Enum(Int(d, 64, True), {1: Tup([inner])}, mir.ENUM_VARIANTS["Option"], "Option")

    return {r"^<&i32 as PartialOrd>::(ge|gt|le|lt)$": cmp_ref_i32,
            r"^<WriteType as PartialEq>::eq$": enum_eq("Other"),
            r"^<Consistency as PartialEq>::eq$": enum_eq(None),
            r"^<Level as PartialOrd<LevelFilter>>::le$": level_le,
            r"^BrokenConnectionError::downcast_ref::<BrokenConnectionErrorKind>$": broken_downcast,
            "__consts__": {"tracing::Level::DEBUG": Opaque("level"), "tracing::level_filters::STATIC_MAX_LEVEL": Opaque("lf")}}


def run(tier, seed, only):
    ctx = oblig.Ctx(tier, only)
    try:
        core = mir.MirFile(dump.dump("scylla-cql-core"))
        mf = mir.MirFile(dump.dump("scylla"), others=[core])
        reg = rustenum.Registry(SRC)
    except Exception as e:
        return [{"name": "smt:c06_mir_dump", "engine": "smt:mir2smt", "status": "inconclusive", "reason": str(e)[:500]}]
    for pol in ("default", "downgrading", "fallthrough"):
        try:
            policy(ctx, mf, reg, pol)
        except mir.Unsupported as e:
            ctx.add(name=f"smt:c06_translate_{pol}", engine="smt:mir2smt", status="inconclusive",
                    reason="translator rejected the current source: " + str(e), functions="scylla/src/policies/retry/")
        try:
            history(ctx, mf, reg, pol, 3 if tier == "quick" else 5)
        except mir.Unsupported as e:
            ctx.add(name=f"smt:c06_translate_history_{pol}", engine="smt:mir2smt", status="inconclusive",
                    reason="translator rejected the current source: " + str(e), functions="scylla/src/policies/retry/")
    return ctx.results


def policy(ctx, mf, reg, pol):
    be = mir.BVBackend()
    it = mir.Interp(mf, be, models(), inline=[r"Consistency::is_serial$", r"max_likely_to_work_cl$", r"RetrySession::new$"],
                    registry=reg, max_steps=3000)
    pat = {"default": r"default\.rs[^>]*>::decide_should_retry\(", "downgrading": r"downgrading_consistency\.rs[^>]*>::decide_should_retry\(",
           "fallthrough": r"fallthrough\.rs[^>]*>::decide_should_retry\("}[pol]
    fn = mf.find(pat)
    pre = []
    err, ek, dk = sym_error(be, reg, pre)
    idem = z3.Bool("is_idempotent")
    cl = sym_consistency(be, "req_cons", reg, pre)
    nflags = {"default": 3, "downgrading": 1, "fallthrough": 0}[pol]
    flags = [z3.Bool(f"flag{i}") for i in range(nflags)]
    session = Tup([Bool(f) for f in flags], "Session")
    scell = Cell(session)
    info = Tup([Ref(Cell(err)), Bool(idem), cl], "RequestInfo")
    paths = it.run(fn, [Ref(scell), info], pre)
    fname = {"default": "DefaultRetrySession", "downgrading": "DowngradingConsistencyRetrySession", "fallthrough": "FallthroughRetrySession"}[pol]
    F = f"{fname}::decide_should_retry (+ Consistency::is_serial" + (", max_likely_to_work_cl" if pol == "downgrading" else "") + ") [scylla/src/policies/retry/]"
    B = ("one decision from an ARBITRARY session state (all flag combinations) = inductive step for histories of any length; error = any of the "
         f"{len(reg.get('RequestAttemptError').variants)} RequestAttemptError variants, for DbError any of the {len(reg.get('DbError').variants)} variants with all "
         "scalar fields symbolic (i32 counts, bools, all WriteTypes, all consistencies); is_idempotent symbolic; request consistency over all 11 levels")
    OUT = "the executor honouring the decision (async run_request_speculative_fiber / pager): 'the driver sends exactly the attempts the policy decided' is not decided"
    inputs = [ek, dk, idem] + flags + [z3.BitVec(n, 32) for n in ('db_received', 'db_required', 'db_alive', 'db_numfailures')] + \
             [z3.Bool('db_data_present'), z3.BitVec('db_wt', 64), z3.BitVec('db_cons', 64), z3.BitVec('req_cons', 64), z3.BitVec('broken_kind', 64), z3.Bool('broken_is_kind')]
    bad = [p for p in paths if p.outcome[0] != "return"]
    good = [p for p in paths if p.outcome[0] == "return"]
    ctx.prove(f"c06_{pol}_no_panic", pre, z3.Not(z3.Or([z3.And(p.pc) for p in bad])) if bad else z3.BoolVal(True), inputs=inputs,
              functions=F, bounds=B, backend="BV", assumes=LIB, outside=OUT)
    if not good:
        raise mir.Unsupported("no returning path")
    ctx.prove(f"c06_{pol}_paths_cover_all_inputs", pre, z3.Or([z3.And(p.pc) for p in paths]), inputs=inputs, functions=F, bounds=B,
              backend="BV", assumes=LIB, witness=False)
    rae, dbe, rd, cons = reg.get("RequestAttemptError"), reg.get("DbError"), reg.get("RetryDecision"), reg.get("Consistency")
    is_db = ek == rae.discr("DbError")
    def dbk(*names):
        return z3.And(is_db, z3.Or([dk == dbe.discr(n) for n in names]))
    c_unavail, c_boot, c_rt, c_wt = dbk("Unavailable"), dbk("IsBootstrapping"), dbk("ReadTimeout"), dbk("WriteTimeout")
    c_ost = dbk("Overloaded", "ServerError", "TruncateError")
    c_nostream = ek == rae.discr("UnableToAllocStreamId")
    c_broken = ek == rae.discr("BrokenConnectionError")
    serial = z3.Or(cl.discr.t == cons.discr("Serial"), cl.discr.t == cons.discr("LocalSerial"))
    goals = {"nonidempotent_resent_only_after_proof_of_non_application": [], "never_resent_after_broken_overloaded_server_truncate_writetimeout": [],
             "policy_specific": [], "one_shot_flags_bound_same_target_retries": []}
    for p in good:
        pc = z3.And(p.pc)
        d = p.outcome[1]
        dd = d.discr.t
        same, nxt = dd == rd.discr("RetrySameTarget"), dd == rd.discr("RetryNextTarget")
        dont, ign = dd == rd.discr("DontRetry"), dd == rd.discr("IgnoreWriteError")
        resend = z3.Or(same, nxt)
        goals["nonidempotent_resent_only_after_proof_of_non_application"].append(
            z3.Implies(z3.And(pc, z3.Not(idem), resend), z3.Or(c_unavail, c_boot, c_nostream, c_rt)))
        goals["never_resent_after_broken_overloaded_server_truncate_writetimeout"].append(
            z3.Implies(z3.And(pc, z3.Not(idem), z3.Or(c_broken, c_ost, c_wt)), z3.Not(resend)))
        after = sm.deref(Ref(p.locals[1].v.cell)) if nflags else None
        aflags = [x.t for x in after.f] if nflags else []
        if pol == "default":
            goals["policy_specific"].append(z3.Implies(z3.And(pc, serial), dont))
            goals["policy_specific"].append(z3.Implies(pc, z3.Not(ign)))
            # RetrySameTarget consumes exactly one of the read/write-timeout one-shot flags; no flag is ever cleared
            goals["one_shot_flags_bound_same_target_retries"].append(z3.Implies(z3.And(pc, same), z3.Or(
                z3.And(z3.Not(flags[1]), aflags[1], aflags[2] == flags[2]), z3.And(z3.Not(flags[2]), aflags[2], aflags[1] == flags[1]))))
            goals["one_shot_flags_bound_same_target_retries"].append(z3.Implies(pc, z3.And([z3.Implies(f, a) for f, a in zip(flags, aflags)])))
            # a second Unavailable is not retried: RetryNextTarget on Unavailable consumes flag 0
            goals["one_shot_flags_bound_same_target_retries"].append(z3.Implies(z3.And(pc, c_unavail, nxt), z3.And(z3.Not(flags[0]), aflags[0])))
        elif pol == "downgrading":
            goals["policy_specific"].append(z3.Implies(z3.And(pc, ign), idem))
            goals["policy_specific"].append(z3.Implies(z3.And(pc, serial, resend), z3.And(c_unavail, nxt)))
            goals["one_shot_flags_bound_same_target_retries"].append(z3.Implies(z3.And(pc, z3.Or(same, ign)), z3.And(z3.Not(flags[0]), aflags[0])))
            goals["one_shot_flags_bound_same_target_retries"].append(z3.Implies(pc, z3.Implies(flags[0], aflags[0])))
        else:
            goals["policy_specific"].append(z3.Implies(pc, dont))
    for gname, gl in goals.items():
        if gl:
            ctx.prove(f"c06_{pol}_{gname}", pre, z3.And(gl), inputs=inputs, functions=F, bounds=B, backend="BV", assumes=LIB, outside=OUT,
                      replay=lambda m, pol=pol: replay(m, pol))
    # reset() clears the flags (start of the next history)
    if nflags:
        rpat = {"default": r"default\.rs[^>]*>::reset\(", "downgrading": r"downgrading_consistency\.rs[^>]*>::reset\("}[pol]
        rfn = mf.find(rpat)
        it2 = mir.Interp(mf, be, models(), inline=[r"RetrySession::new$"], registry=reg)
        sc = Cell(Tup([Bool(f) for f in flags], "Session"))
        rp = it2.run(rfn, [Ref(sc)], [])
        gl = []
        for p in rp:
            if p.outcome[0] != "return":
                gl.append(z3.Not(z3.And(p.pc)) if p.pc else z3.BoolVal(False))
                continue
            after = sm.deref(Ref(p.locals[1].v.cell))
            gl.append(z3.Implies(z3.And(p.pc) if p.pc else z3.BoolVal(True), z3.And([z3.Not(x.t) for x in after.f])))
        ctx.prove(f"c06_{pol}_reset_clears_flags", [], z3.And(gl), inputs=flags, functions=f"{fname}::{{reset,new}}", bounds="any session state",
                  backend="BV", assumes=LIB, witness=False)


def history(ctx, mf, reg, pol, k):
    """k consecutive decisions starting from the state the policy itself creates (`new()`): independent of how the session represents its one-shot markers"""
    name = f"c06_{pol}_history_k{k}_same_target_retries_bounded_and_each_kind_once"
    if ctx.skip(name):
        return
    be = mir.BVBackend()
    inl = [r"Consistency::is_serial$", r"max_likely_to_work_cl$", r"RetrySession::new$"]
    f = {"default": "default", "downgrading": "downgrading_consistency", "fallthrough": "fallthrough"}[pol]
    fn = mf.find(r"%s\.rs[^>]*>::decide_should_retry\(" % f)
    bound = {"default": 2, "downgrading": 1, "fallthrough": 0}[pol]
    rae, dbe, rd = reg.get("RequestAttemptError"), reg.get("DbError"), reg.get("RetryDecision")
    if pol == "fallthrough":
        state0 = Tup([], "Session")
    else:
        newfn = mf.find(r"%s\.rs[^>]*>::new\(\) -> \w*RetrySession" % f)
        ps = mir.Interp(mf, be, models(), inline=inl, registry=reg, max_steps=500).run(newfn, [], [])
        if len(ps) != 1 or ps[0].outcome[0] != "return":
            raise mir.Unsupported("the session constructor does not run on a single returning path")
        state0 = ps[0].outcome[1]
    pre, steps = [], []
    for i in range(k):
        err, ek, dk = sym_error(be, reg, pre, f"_{i}")
        idem = z3.Bool(f"is_idempotent_{i}"); cl = sym_consistency(be, f"req_cons_{i}", reg, pre)
        steps.append((err, ek, dk, idem, cl))
    frontier = [([], state0, [])]
    for i in range(k):
        err, ek, dk, idem, cl = steps[i]
        nxt = []
        for pc, st, ds in frontier:
            it = mir.Interp(mf, be, models(), inline=inl, registry=reg, max_steps=3000)
            cell = Cell(mir.copy_value(st))
            info = Tup([Ref(Cell(mir.copy_value(err))), Bool(idem), mir.copy_value(cl)], "RequestInfo")
            for p in it.run(fn, [Ref(cell), info], pre + pc):
                npc = list(p.pc[len(pre):])
                if p.outcome[0] != "return":
                    nxt.append((npc, None, ds + [None])); continue
                nxt.append((npc, sm.deref(Ref(p.locals[1].v.cell)), ds + [p.outcome[1].discr.t]))
        frontier = nxt
        if len(frontier) > 6000:
            raise mir.Unsupported(f"history of {k} decisions forks into more than 6000 paths")
    goals, cover = [], []
    one = lambda c: z3.If(c, z3.BitVecVal(1, 8), z3.BitVecVal(0, 8))
    for pc, st, ds in frontier:
        c = z3.And(pc) if pc else z3.BoolVal(True)
        if any(d is None for d in ds):
            goals.append(z3.Not(c)); continue
        cover.append(c)
        same = [d == rd.discr("RetrySameTarget") for d in ds]
        def kind(i, n): return z3.And(steps[i][1] == rae.discr("DbError"), steps[i][2] == dbe.discr(n))
        tot = sum((one(x) for x in same), z3.BitVecVal(0, 8))
        conj = [z3.ULE(tot, bound)]
        for n in ("ReadTimeout", "WriteTimeout"):
            conj.append(z3.ULE(sum((one(z3.And(same[i], kind(i, n))) for i in range(k)), z3.BitVecVal(0, 8)), 1))
        if pol == "default":
            conj.append(z3.ULE(sum((one(z3.And(ds[i] == rd.discr("RetryNextTarget"), kind(i, "Unavailable"))) for i in range(k)), z3.BitVecVal(0, 8)), 1))
        goals.append(z3.Implies(c, z3.And(conj)))
    goals.append(z3.Or(cover) if cover else z3.BoolVal(False))
    inputs = []
    for i in range(k):
        inputs += [steps[i][1], steps[i][2], steps[i][3], z3.BitVec(f"req_cons_{i}", 64)] + [z3.BitVec(f"db_{n}_{i}", 32) for n in ("received", "required", "alive", "numfailures")] + \
                  [z3.Bool(f"db_data_present_{i}"), z3.BitVec(f"db_wt_{i}", 64), z3.BitVec(f"db_cons_{i}", 64)]
    ctx.prove(name, pre, z3.And(goals), inputs=inputs,
              functions=f"{pol} retry session: new() then {k} x decide_should_retry [scylla/src/policies/retry/]",
              bounds=f"every history of {k} failures (each any RequestAttemptError / DbError variant with symbolic fields, idempotence flag and consistency per attempt) fed to a freshly "
                     f"created session ({len(frontier)} paths): at most {bound} same-target retries in total, a read timeout and a write timeout each retried on the same target at most once"
                     + (", an Unavailable moved to the next target at most once" if pol == "default" else "") + "; no panic",
              backend="BV", assumes=LIB, witness=False, outside=f"histories longer than {k} (covered for the declared three-flag representation by the inductive one_shot_flags obligation)",
              replay=lambda m, pol=pol, k=k: replay_history(m, pol, k))


def replay_history(m, pol, k):
    from . import native
    reg = rustenum.Registry(SRC)
    def vname(en, val):
        for n, v, _ in reg.get(en).variants:
            if v == val:
                return n
        return "?"
    def s32(v):
        v = v or 0
        return v - (1 << 32) if v >= (1 << 31) else v
    parts = ["retryhist", pol, str(k)]
    for i in range(k):
        parts += [vname("RequestAttemptError", m.get(f"err_kind_{i}", 0)), vname("DbError", m.get(f"db_kind_{i}", 0)), "1" if m.get(f"is_idempotent_{i}") else "0",
                  vname("Consistency", m.get(f"req_cons_{i}", 0)), str(s32(m.get(f"db_received_{i}"))), str(s32(m.get(f"db_required_{i}"))), str(s32(m.get(f"db_alive_{i}"))),
                  str(s32(m.get(f"db_numfailures_{i}"))), "1" if m.get(f"db_data_present_{i}") else "0", vname("WriteType", m.get(f"db_wt_{i}", 0)), vname("Consistency", m.get(f"db_cons_{i}", 0))]
    nat = native.Native("drv")
    got = nat.ask(" ".join(parts))
    nat.close()
    return native.record("C06", f"{pol}_history_k{k}", {"cmd": " ".join(parts), "native": got}, got.startswith("VIOLATES"))


def replay(m, pol):
    """counterexamples are replayed natively: the REAL policy object is primed to the model's flags by a short history
    and then fed the model's error; the C06 rules are evaluated on the real decisions"""
    from . import native
    reg = rustenum.Registry(SRC)
    def vname(en, val):
        for n, v, _ in reg.get(en).variants:
            if v == val:
                return n
        return "?"
    def s32(v):
        v = v or 0
        return v - (1 << 32) if v >= (1 << 31) else v
    nat = native.Native("drv")
    cmd = " ".join(str(x) for x in [
        "retry", pol, vname("RequestAttemptError", m.get("err_kind", 0)), vname("DbError", m.get("db_kind", 0)),
        1 if m.get("is_idempotent") else 0, vname("Consistency", m.get("req_cons", 0)),
        1 if m.get("flag0") else 0, 1 if m.get("flag1") else 0, 1 if m.get("flag2") else 0,
        s32(m.get("db_received")), s32(m.get("db_required")), s32(m.get("db_alive")), s32(m.get("db_numfailures")),
        1 if m.get("db_data_present") else 0, vname("WriteType", m.get("db_wt", 0)), vname("Consistency", m.get("db_cons", 0))])
    got = nat.ask(cmd)
    nat.close()
    return native.record("C06", pol, {"inputs": m, "cmd": cmd, "native": got}, got.startswith("VIOLATES"))
