"""C20 (local-validation clause) — engine S: VerifiedKeyspaceName::new / verify_keyspace_name_is_valid over names
modelled as sequences of arbitrary Unicode scalar values, every length 0..=60 (quick: a subset of lengths)."""
import z3
from mir2smt import dump, mir, solve, oblig, rustenum, stdmodels as sm
from mir2smt.mir import Int, Bool, Tup, Enum, Ref, Cell, Seq, Opaque

FILE = "scylla/src/network/connection.rs"
LIB = ("library models (trusted): &str = sequence of Unicode scalar values; str::is_empty, str::chars, Chars::{count,next,into_iter}, "
       "str::len = sum of UTF-8 lengths, ToString/String::deref = same characters, Result Try::branch/from_residual, Arc::new opaque")


def models():
    return {r"core::str::<impl str>::is_empty$": sm.m_str_is_empty, r"core::str::<impl str>::chars$": sm.m_str_chars,
            r"^<Chars<'_> as Iterator>::count$": sm.m_chars_count, r"^<Chars<'_> as IntoIterator>::into_iter$": sm.m_identity,
            r"^<Chars<'_> as Iterator>::next$": sm.m_chars_next, r"core::str::<impl str>::len$": sm.m_str_len,
            r"^<str as ToString>::to_string$": sm.m_to_string, r"^<String as Deref>::deref$": sm.m_string_deref,
            r"^String::as_str$": sm.m_string_deref, r"^String::len$": lambda it, p, c, a: sm.m_str_len(it, p, c, [sm.m_string_deref(it, p, c, a)]),
            r"^<std::result::Result<\(\), BadKeyspaceName> as Try>::branch$": sm.m_result_branch,
            r"as FromResidual<std::result::Result<Infallible, BadKeyspaceName>>>::from_residual$": sm.m_result_from_residual,
            r"^Arc::<String>::new$": lambda it, p, c, a: Tup([a[0]], "Arc")}


def allowed(c):
    return z3.Or(z3.And(z3.UGE(c, ord('a')), z3.ULE(c, ord('z'))), z3.And(z3.UGE(c, ord('A')), z3.ULE(c, ord('Z'))),
                 z3.And(z3.UGE(c, ord('0')), z3.ULE(c, ord('9'))), c == ord('_'))


def run(tier, seed, only):
    ctx = oblig.Ctx(tier, only)
    try:
        mf = mir.MirFile(dump.dump("scylla"))
        reg = rustenum.Registry(["/repo/scylla/src/errors.rs"])
    except Exception as e:
        return [{"name": "smt:c20_mir_dump", "engine": "smt:mir2smt", "status": "inconclusive", "reason": str(e)[:500]}]
    lengths = [0, 1, 2, 3, 5, 47, 48, 49, 50, 60] if tier == "quick" else list(range(0, 65))
    for L in lengths:
        try:
            one_len(ctx, mf, reg, L)
        except mir.Unsupported as e:
            ctx.add(name=f"smt:c20_translate_len{L}", engine="smt:mir2smt", status="inconclusive",
                    reason="translator rejected the current source: " + str(e), functions=FILE)
    return ctx.results


def one_len(ctx, mf, reg, L):
    be = mir.BVBackend()
    it = mir.Interp(mf, be, models(), inline=[r"verify_keyspace_name_is_valid$"], registry=reg, max_steps=3000)
    fn = mf.find(r"connection\.rs[^>]*>::new\(_1: String, _2: bool\) -> std::result::Result<VerifiedKeyspaceName")
    cs = [z3.BitVec(f"c{i}", 32) for i in range(L)]
    pre = []
    for c in cs:   # any Unicode scalar value
        pre.append(z3.And(z3.ULE(c, 0x10FFFF), z3.Or(z3.ULT(c, 0xD800), z3.UGT(c, 0xDFFF))))
    case = z3.Bool("case_sensitive")
    name = Tup([sm.str_value([Int(c, 32, False) for c in cs])], "String")
    paths = it.run(fn, [name, Bool(case)], pre)
    bke = reg.get("BadKeyspaceName")
    F = f"VerifiedKeyspaceName::new, VerifiedKeyspaceName::verify_keyspace_name_is_valid [{FILE}]"
    B = f"every name of exactly {L} characters, each an arbitrary Unicode scalar value (multi-byte characters included); case_sensitive symbolic"
    OUT = "every ordering clause of C20 (pool refill vs requests, awaiting all connections: tokio tasks/channels/sockets) and the quoting in async Connection::use_keyspace"
    inputs = cs + [case]
    bad = [p for p in paths if p.outcome[0] != "return"]
    good = [p for p in paths if p.outcome[0] == "return"]
    if not good:
        raise mir.Unsupported("no returning path")
    all_ok = z3.And([allowed(c) for c in cs]) if cs else z3.BoolVal(True)
    valid = z3.And(z3.BoolVal(1 <= L <= 48), all_ok)
    goals = [z3.Not(z3.And(p.pc)) for p in bad]
    for p in good:
        pc = z3.And(p.pc) if p.pc else z3.BoolVal(True)
        r = p.outcome[1]
        is_ok = r.discr.t == 0
        conj = [is_ok == valid]
        if 1 in r.payloads:
            e = r.payloads[1].f[0]
            if isinstance(e, Enum):
                ed = e.discr.t
                is_err = z3.Not(is_ok)
                conj.append(z3.Implies(z3.And(is_err, z3.BoolVal(L == 0)), ed == bke.discr("Empty")))
                conj.append(z3.Implies(z3.And(is_err, z3.BoolVal(L > 48)), ed == bke.discr("TooLong")))
                conj.append(z3.Implies(z3.And(is_err, z3.BoolVal(1 <= L <= 48)), ed == bke.discr("IllegalCharacter")))
                ic = bke.discr("IllegalCharacter")
                if ic in e.payloads and len(e.payloads[ic].f) == 2 and isinstance(e.payloads[ic].f[1], Int):
                    ch = e.payloads[ic].f[1].t
                    # the reported character is the first one that is not allowed
                    firstbad = []
                    for i, c in enumerate(cs):
                        firstbad.append(z3.Implies(z3.And([allowed(x) for x in cs[:i]] + [z3.Not(allowed(c))]), ch == c))
                    conj.append(z3.Implies(z3.And(is_err, ed == ic), z3.And(firstbad) if firstbad else z3.BoolVal(True)))
                tl = bke.discr("TooLong")
                if tl in e.payloads and len(e.payloads[tl].f) == 2 and isinstance(e.payloads[tl].f[1], Int):
                    conj.append(z3.Implies(z3.And(is_err, ed == tl), e.payloads[tl].f[1].t == L))
        if 0 in r.payloads:
            v = r.payloads[0].f[0]       # VerifiedKeyspaceName { name: Arc<String>, is_case_sensitive }
            try:
                kept = sm.deref(v.f[0].f[0].f[0])
                same = z3.And([a.t == b for a, b in zip(kept.items, cs)] + [z3.BoolVal(len(kept.items) == L)])
                conj.append(z3.Implies(is_ok, z3.And(same, v.f[1].t == case)))
            except Exception:
                raise mir.Unsupported("cannot read back the accepted name")
        goals.append(z3.Implies(pc, z3.And(conj)))
    ctx.prove(f"c20_len{L}_accept_iff_valid_identifier", pre, z3.And(goals), inputs=inputs, functions=F, bounds=B, backend="BV",
              assumes=LIB, outside=OUT, replay=lambda m, L=L: replay(m, L))
    ctx.prove(f"c20_len{L}_paths_cover_all_inputs", pre, z3.Or([z3.And(p.pc) if p.pc else z3.BoolVal(True) for p in paths]), inputs=inputs,
              functions=F, bounds=B, backend="BV", assumes=LIB, witness=False)


def replay(m, L):
    from . import native
    chars = [m.get(f"c{i}", ord('a')) for i in range(L)]
    ok = lambda c: chr(c).isascii() and (chr(c).isalnum() or c == ord('_'))
    nat = native.Native("drv")
    got = nat.ask("keyspace " + " ".join(str(c) for c in chars))
    nat.close()
    if L == 0: exp = "Err Empty"
    elif L > 48: exp = f"Err TooLong {L}"
    elif all(ok(c) for c in chars): exp = "Ok"
    else: exp = f"Err IllegalCharacter {next(c for c in chars if not ok(c))}"
    return native.record("C20", f"len{L}", {"chars": chars, "native": got, "expected": exp}, got != exp)
