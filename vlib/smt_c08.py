"""C08 (additions) — engine S: the ERROR response body.

`Error::deserialize` (MIR of scylla-cql-core/src/frame/response/error.rs with the readers of frame/types.rs) is executed on
  (a) well-formed ERROR bodies of every error code the protocol defines, built by an independent CQL v4 encoder
      (native_protocol_v4 §9) with all scalar fields and text bytes symbolic: the decoded error is exactly what was encoded;
  (b) every truncation of those bodies: decoding returns an error — no panic, no out-of-bounds read, no partial value."""
import z3
from mir2smt import dump, mir, solve, oblig, rustenum, stdmodels as sm, itermodels as im
from mir2smt.mir import Int, Bool, Tup, Enum, Ref, Cell, Seq, Opaque, Unit

FILE = "scylla-cql-core/src/frame/response/error.rs"
LIB = ("library models (trusted): byteorder read_i32 / read_u16 / read_u8 on &[u8] (big-endian, advance, Err when short), slice split_at / len, "
       "std::str::from_utf8 = Ok on the ASCII texts used here, str equality with a literal = byte-wise, to_owned / to_string / Bytes::from identity, "
       "Vec<String> as a sequence, Range iteration, Option<i32> equality, error constructors opaque")
OPTION = mir.ENUM_VARIANTS["Option"]
RESULT = mir.ENUM_VARIANTS["Result"]


def bv(v, w): return z3.BitVecVal(v, w)
def be(t, n): return [z3.Extract(8 * k + 7, 8 * k, t) for k in reversed(range(n))]


def m_read_be(nbytes, signed):
    def f(it, p, callee, args):
        sl = sm.deref(args[0])
        base, st, ln = sm.slice_parts(sl)
        if ln < nbytes:
            return Enum(it.const_int(1, "isize"), {1: Tup([Opaque("io::Error(UnexpectedEof)")])}, RESULT, "Result")
        bs = sm.elems(sm.deref(base))[st:st + nbytes]
        t = bs[0].t
        for b in bs[1:]:
            t = z3.Concat(t, b.t)
        sl.f[1] = it.const_int(st + nbytes, "usize")
        sl.f[2] = it.const_int(ln - nbytes, "usize")
        return Enum(it.const_int(0, "isize"), {0: Tup([Int(z3.simplify(t), 8 * nbytes, signed)])}, RESULT, "Result")
    return f


def m_split_at(it, p, callee, args):
    base, st, ln = sm.slice_parts(args[0])
    k = sm._cint(args[1])
    if k > ln:
        raise mir.Panic("split_at: mid > len")
    return Tup([sm.mk_slice(it, base, st, k), sm.mk_slice(it, base, st + k, ln - k)])


def m_str_eq_lit(it, p, callee, args):
    a, b = args
    def strip(v):
        for _ in range(3):
            if isinstance(v, Ref):
                v = sm.deref(v)
        return v
    a, b = strip(a), strip(b)
    if isinstance(b, Opaque) and b.name.startswith('str:"') and isinstance(a, Tup) and a.name == "Slice":
        lit = b.name[5:-1].encode()
        items = sm.slice_items(a)
        if len(items) != len(lit):
            return Bool(z3.BoolVal(False))
        return Bool(z3.And([x.t == bv(c, 8) for x, c in zip(items, lit)]) if lit else z3.BoolVal(True))
    raise mir.Unsupported(f"str equality between {str(a)[:60]} and {str(b)[:60]}")


def m_opt_i32_eq(it, p, callee, args):
    x, y = sm.deref(args[0]), sm.deref(args[1])
    px = x.payloads[1].f[0].t if 1 in x.payloads else bv(0, 32)
    py = y.payloads[1].f[0].t if 1 in y.payloads else bv(0, 32)
    return Bool(z3.Or(z3.And(x.discr.t == 0, y.discr.t == 0), z3.And(x.discr.t == 1, y.discr.t == 1, px == py)))


def m_copy_to_slice(it, p, callee, args):
    """bytes::Buf::copy_to_slice on a &[u8] cursor: panics when fewer bytes remain than the destination holds"""
    cur = sm.deref(args[0])
    base, st, ln = sm.slice_parts(cur)
    dst = args[1]
    if isinstance(dst, Tup) and dst.name == "Slice":
        dref, dst_st, dln = sm.slice_parts(dst)
    else:
        dref, dst_st, dln = dst, 0, len(sm.elems(sm.deref(dst)))
    if ln < dln:
        raise mir.Panic("advance out of bounds: the buffer holds fewer bytes than copy_to_slice needs")
    src = sm.elems(sm.deref(base))[st:st + dln]
    d = sm.elems(sm.deref(dref))
    for i, x in enumerate(src):
        d[dst_st + i] = x
    cur.f[1] = it.const_int(st + dln, "usize")
    cur.f[2] = it.const_int(ln - dln, "usize")
    return Unit()


def models():
    m = {}
    m[r"^<&\[u8\] as (bytes::)?Buf>::copy_to_slice$"] = m_copy_to_slice
    m.update(sm.INT_MODELS); m.update(sm.RANGE_MODELS); m.update(sm.SLICE_MODELS)
    m[r"ReadBytesExt>::read_i32::<BigEndian>$"] = m_read_be(4, True)
    m[r"ReadBytesExt>::read_u16::<BigEndian>$"] = m_read_be(2, False)
    m[r"ReadBytesExt>::read_u8$"] = m_read_be(1, False)
    m[r"core::slice::<impl \[u8\]>::split_at$"] = m_split_at
    m[r"core::slice::<impl \[u8\]>::len$"] = lambda it, p, c, a: it.const_int(sm.slice_parts(a[0])[2], "usize")
    m[r"^(std::str::|core::str::)?from_utf8$"] = lambda it, p, c, a: Enum(it.const_int(0, "isize"), {0: Tup([a[0]])}, RESULT, "Result")
    m[r"^<str as PartialEq>::eq$"] = m_str_eq_lit
    m[r"^<str as (ToString|ToOwned)>::(to_string|to_owned)$"] = sm.m_identity
    m[r"^<\[u8\] as ToOwned>::to_owned$"] = sm.m_identity
    m[r"^<bytes::Bytes as From<Vec<u8>>>::from$"] = sm.m_identity
    m[r"^Vec::<String>::with_capacity$"] = lambda it, p, c, a: Seq([])
    m[r"^Vec::<String>::push$"] = lambda it, p, c, a: (sm.deref(a[0]).items.append(a[1]), Unit())[1]
    m[r"^<Option<i32> as PartialEq>::eq$"] = m_opt_i32_eq
    m[r"^(std::result::)?Result::<.*>::map_err::<"] = lambda it, p, c, a: Enum(a[0].discr, {**a[0].payloads, 1: Tup([Opaque("mapped-error")])}, a[0].variants, a[0].name)
    m[r"^<(std::result::)?Result<.*> as Try>::branch$"] = sm.m_result_branch
    m[r" as FromResidual<(std::result::)?Result<(std::convert::)?Infallible, .*>>>::from_residual$"] = sm.m_result_from_residual
    m[r"TryFromPrimitiveError::<u16>::new$"] = sm.m_opaque("unknown-consistency")
    m[r"^<[iu]\w+ as TryInto<[iu]\w+>>::try_into$"] = sm.m_try_into_int
    return m


INLINE = [r"(^|::)read_(int|short|short_length|string|raw_bytes|consistency|string_list|short_bytes)$", r"^<Consistency as TryFrom<u16>>::try_from$",
          r"^<WriteType as From<&str>>::from$", r"^<OperationType as From<u8>>::from$"]

WRITE_TYPES = ["SIMPLE", "BATCH", "UNLOGGED_BATCH", "COUNTER", "BATCH_LOG", "CAS", "VIEW", "CDC"]
WT_VARIANT = {"SIMPLE": "Simple", "BATCH": "Batch", "UNLOGGED_BATCH": "UnloggedBatch", "COUNTER": "Counter", "BATCH_LOG": "BatchLog", "CAS": "Cas", "VIEW": "View", "CDC": "Cdc"}
CONS = {0: "Any", 1: "One", 2: "Two", 3: "Three", 4: "Quorum", 5: "All", 6: "LocalQuorum", 7: "EachQuorum", 8: "Serial", 9: "LocalSerial", 10: "LocalOne"}


class Body:
    """independent encoder of one ERROR body; remembers what the decoder must produce"""
    def __init__(self, tag):
        self.tag, self.bytes, self.inputs, self.pre = tag, [], [], []

    def i32(self, name):
        v = z3.BitVec(f"{name}_{self.tag}", 32); self.inputs.append(v); self.bytes += be(v, 4); return v

    def u8(self, name):
        v = z3.BitVec(f"{name}_{self.tag}", 8); self.inputs.append(v); self.bytes.append(v); return v

    def const_i32(self, c):
        self.bytes += be(bv(c, 32), 4)

    def text(self, name, n):
        cs = [z3.BitVec(f"{name}{i}_{self.tag}", 8) for i in range(n)]
        self.inputs += cs; self.pre += [z3.ULT(c, 0x80) for c in cs]
        self.bytes += be(bv(n, 16), 2) + cs
        return cs

    def literal(self, s):
        self.bytes += be(bv(len(s), 16), 2) + [bv(c, 8) for c in s.encode()]

    def consistency(self, name):
        v = z3.BitVec(f"{name}_{self.tag}", 16); self.inputs.append(v); self.pre.append(z3.ULE(v, 10)); self.bytes += be(v, 2); return v


def run_parse(mf, reg, data, rate_code, pre):
    it = mir.Interp(mf, mir.BVBackend(), models(), inline=INLINE, registry=reg, max_steps=30000)
    fn = mf.find(r"error\.rs[^>]*>::deserialize\(_1: &ProtocolFeatures")
    backing = Cell(Seq([Int(b, 8, False) for b in data]))
    buf = Cell(sm.mk_slice(it, Ref(backing), 0, len(data)))
    rl = Enum(Int(bv(1 if rate_code is not None else 0, 64), 64, True), ({1: Tup([Int(bv(rate_code, 32), 32, True)])} if rate_code is not None else {}), OPTION, "Option")
    features = Tup([rl, Opaque("lwt"), Opaque("tablets"), Bool(z3.BoolVal(False))], "ProtocolFeatures")
    return it.run(fn, [Ref(Cell(features)), Ref(buf)], pre)


def cases(reg):
    """(name, body, check(decoded DbError enum, reason slice) -> list of z3 conditions)"""
    de, wt, cs, ot = reg.get("DbError"), reg.get("WriteType"), reg.get("Consistency"), reg.get("OperationType")
    out = []
    def cons_ok(e, v):
        return z3.Or([z3.And(v == bv(code, 16), e.discr.t == cs.discr(name)) for code, name in CONS.items()])
    def slice_is(sl, cs_):
        items = sm.slice_items(sl) if isinstance(sl, Tup) and sl.name == "Slice" else None
        if items is None or len(items) != len(cs_):
            return z3.BoolVal(False)
        return z3.And([a.t == b for a, b in zip(items, cs_)]) if cs_ else z3.BoolVal(True)
    def simple(code, variant):
        b = Body(variant); b.const_i32(code); reason = b.text("reason", 2)
        out.append((variant, b, reason, None, lambda e, variant=variant: [e.discr.t == de.discr(variant)]))
    for code, variant in ((0x0000, "ServerError"), (0x000A, "ProtocolError"), (0x0100, "AuthenticationError"), (0x1001, "Overloaded"), (0x1002, "IsBootstrapping"),
                          (0x1003, "TruncateError"), (0x2000, "SyntaxError"), (0x2100, "Unauthorized"), (0x2200, "Invalid"), (0x2300, "ConfigError")):
        simple(code, variant)
    # Unavailable: <cl><required><alive>
    b = Body("Unavailable"); b.const_i32(0x1000); reason = b.text("reason", 1); cl = b.consistency("cl"); req = b.i32("required"); alive = b.i32("alive")
    out.append(("Unavailable", b, reason, None, lambda e, cl=cl, req=req, alive=alive: [e.discr.t == de.discr("Unavailable")] + _fields(e, de, "Unavailable", {"consistency": lambda x: cons_ok(x, cl), "required": lambda x: x.t == req, "alive": lambda x: x.t == alive})))
    # WriteTimeout: <cl><received><blockfor><writeType>; one body per write type + an unknown one
    for wname in WRITE_TYPES + ["ODD"]:
        b = Body("WriteTimeout_" + wname); b.const_i32(0x1100); reason = b.text("reason", 0); cl = b.consistency("cl"); rec = b.i32("received"); req = b.i32("required"); b.literal(wname)
        def chk(e, cl=cl, rec=rec, req=req, wname=wname):
            def wt_ok(x):
                if wname in WT_VARIANT:
                    return x.discr.t == wt.discr(WT_VARIANT[wname])
                return z3.And(x.discr.t == wt.discr("Other"), slice_is(x.payloads[wt.discr("Other")].f[0], [bv(c, 8) for c in wname.encode()]) if wt.discr("Other") in x.payloads else z3.BoolVal(False))
            return [e.discr.t == de.discr("WriteTimeout")] + _fields(e, de, "WriteTimeout", {"consistency": lambda x: cons_ok(x, cl), "received": lambda x: x.t == rec, "required": lambda x: x.t == req, "write_type": wt_ok})
        out.append(("WriteTimeout_" + wname, b, reason, None, chk))
    # ReadTimeout: <cl><received><blockfor><data_present>
    b = Body("ReadTimeout"); b.const_i32(0x1200); reason = b.text("reason", 1); cl = b.consistency("cl"); rec = b.i32("received"); req = b.i32("required"); dp = b.u8("data_present")
    out.append(("ReadTimeout", b, reason, None, lambda e, cl=cl, rec=rec, req=req, dp=dp: [e.discr.t == de.discr("ReadTimeout")] + _fields(e, de, "ReadTimeout", {"consistency": lambda x: cons_ok(x, cl), "received": lambda x: x.t == rec, "required": lambda x: x.t == req, "data_present": lambda x: x.t == (dp != 0)})))
    # ReadFailure: <cl><received><blockfor><numfailures><data_present>
    b = Body("ReadFailure"); b.const_i32(0x1300); reason = b.text("reason", 1); cl = b.consistency("cl"); rec = b.i32("received"); req = b.i32("required"); nf = b.i32("numfailures"); dp = b.u8("data_present")
    out.append(("ReadFailure", b, reason, None, lambda e, cl=cl, rec=rec, req=req, nf=nf, dp=dp: [e.discr.t == de.discr("ReadFailure")] + _fields(e, de, "ReadFailure", {"consistency": lambda x: cons_ok(x, cl), "received": lambda x: x.t == rec, "required": lambda x: x.t == req, "numfailures": lambda x: x.t == nf, "data_present": lambda x: x.t == (dp != 0)})))
    # FunctionFailure: <keyspace><function><[string list] arg_types>
    b = Body("FunctionFailure"); b.const_i32(0x1400); reason = b.text("reason", 1); ks = b.text("ks", 2); fnn = b.text("fn", 1); b.bytes += be(bv(2, 16), 2); a0 = b.text("arg0_", 1); a1 = b.text("arg1_", 0)
    def chk_ff(e, ks=ks, fnn=fnn, a0=a0, a1=a1):
        def args_ok(x):
            items = x.items if isinstance(x, Seq) else None
            if items is None or len(items) != 2:
                return z3.BoolVal(False)
            return z3.And(slice_is(items[0], a0), slice_is(items[1], a1))
        return [e.discr.t == de.discr("FunctionFailure")] + _fields(e, de, "FunctionFailure", {"keyspace": lambda x: slice_is(x, ks), "function": lambda x: slice_is(x, fnn), "arg_types": args_ok})
    out.append(("FunctionFailure", b, reason, None, chk_ff))
    # WriteFailure: <cl><received><blockfor><numfailures><writeType>
    b = Body("WriteFailure"); b.const_i32(0x1500); reason = b.text("reason", 1); cl = b.consistency("cl"); rec = b.i32("received"); req = b.i32("required"); nf = b.i32("numfailures"); b.literal("CAS")
    out.append(("WriteFailure", b, reason, None, lambda e, cl=cl, rec=rec, req=req, nf=nf: [e.discr.t == de.discr("WriteFailure")] + _fields(e, de, "WriteFailure", {"consistency": lambda x: cons_ok(x, cl), "received": lambda x: x.t == rec, "required": lambda x: x.t == req, "numfailures": lambda x: x.t == nf, "write_type": lambda x: x.discr.t == wt.discr("Cas")})))
    # AlreadyExists: <ks><table>
    b = Body("AlreadyExists"); b.const_i32(0x2400); reason = b.text("reason", 0); ks = b.text("ks", 2); tb = b.text("tb", 0)
    out.append(("AlreadyExists", b, reason, None, lambda e, ks=ks, tb=tb: [e.discr.t == de.discr("AlreadyExists")] + _fields(e, de, "AlreadyExists", {"keyspace": lambda x: slice_is(x, ks), "table": lambda x: slice_is(x, tb)})))
    # Unprepared: <short bytes id>
    b = Body("Unprepared"); b.const_i32(0x2500); reason = b.text("reason", 1); sid = [z3.BitVec(f"sid{i}", 8) for i in range(3)]; b.inputs += sid; b.bytes += be(bv(3, 16), 2) + sid
    out.append(("Unprepared", b, reason, None, lambda e, sid=sid: [e.discr.t == de.discr("Unprepared")] + _fields(e, de, "Unprepared", {"statement_id": lambda x: slice_is(x, sid)})))
    # RateLimitReached (code negotiated through the extension): <op_type><rejected_by_coordinator>
    b = Body("RateLimit"); b.const_i32(0x4321); reason = b.text("reason", 1); op = b.u8("op_type"); rej = b.u8("rejected")
    def chk_rl(e, op=op, rej=rej):
        def op_ok(x):
            other = ot.discr("Other")
            return z3.And(z3.Implies(op == 0, x.discr.t == ot.discr("Read")), z3.Implies(op == 1, x.discr.t == ot.discr("Write")),
                          z3.Implies(z3.UGT(op, 1), z3.And(x.discr.t == other, (x.payloads[other].f[0].t == op) if other in x.payloads else z3.BoolVal(False))))
        return [e.discr.t == de.discr("RateLimitReached")] + _fields(e, de, "RateLimitReached", {"op_type": op_ok, "rejected_by_coordinator": lambda x: x.t == (rej != 0)})
    out.append(("RateLimit", b, reason, 0x4321, chk_rl))
    # unknown code: Other(code); the same numeric code is NOT the rate-limit error when the extension was not negotiated
    b = Body("Other"); code = b.i32("code"); reason = b.text("reason", 1)
    known = [0x0000, 0x000A, 0x0100, 0x1000, 0x1001, 0x1002, 0x1003, 0x1100, 0x1200, 0x1300, 0x1400, 0x1500, 0x2000, 0x2100, 0x2200, 0x2300, 0x2400, 0x2500]
    b.pre += [code != bv(k, 32) for k in known]
    out.append(("Other", b, reason, None, lambda e, code=code: [e.discr.t == de.discr("Other"), (e.payloads[de.discr("Other")].f[0].t == code) if de.discr("Other") in e.payloads else z3.BoolVal(False)]))
    return out, slice_is


def _fields(e, de, variant, checks):
    d = de.discr(variant)
    if d not in e.payloads:
        return [z3.BoolVal(False)]
    names = de.fields(variant)
    tup = e.payloads[d]
    return [chk(tup.f[names.index(n)]) for n, chk in checks.items()]


# ------------------------------------------------------------------------------------------------ column types in result metadata
NATIVE_IDS = {0x0001: "Ascii", 0x0002: "BigInt", 0x0003: "Blob", 0x0004: "Boolean", 0x0005: "Counter", 0x0006: "Decimal", 0x0007: "Double", 0x0008: "Float",
              0x0009: "Int", 0x000B: "Timestamp", 0x000C: "Uuid", 0x000D: "Text", 0x000E: "Varint", 0x000F: "Timeuuid", 0x0010: "Inet", 0x0011: "Date",
              0x0012: "Time", 0x0013: "SmallInt", 0x0014: "TinyInt", 0x0015: "Duration"}          # native_protocol_v4 §4.2.5.2 (+ v5 duration)


def type_models():
    m = models()
    m[r"^Box::<.*>::new$"] = sm.m_identity
    m[r"^std::sync::Arc::<.*>::new$"] = sm.m_identity
    m[r"^<StrT as Into<Cow<'_, str>>>::into$"] = sm.m_identity
    m[r"^Vec::<.*>::with_capacity$"] = lambda it, p, c, a: Seq([])
    m[r"^Vec::<.*>::push$"] = lambda it, p, c, a: (sm.deref(a[0]).items.append(a[1]), Unit())[1]
    return m


def spec_type(desc):
    """desc: ('n', id) | ('list'|'set', d) | ('map', k, v) | ('tuple', [d..]) | ('udt', ks, name, [(field, d)..]) -> bytes"""
    k = desc[0]
    if k == "n": return list(desc[1].to_bytes(2, "big"))
    if k == "list": return [0, 0x20] + spec_type(desc[1])
    if k == "set": return [0, 0x22] + spec_type(desc[1])
    if k == "map": return [0, 0x21] + spec_type(desc[1]) + spec_type(desc[2])
    if k == "tuple":
        out = [0, 0x31] + list(len(desc[1]).to_bytes(2, "big"))
        for d in desc[1]: out += spec_type(d)
        return out
    if k == "udt":
        s = lambda t: list(len(t).to_bytes(2, "big")) + list(t.encode())
        out = [0, 0x30] + s(desc[1]) + s(desc[2]) + list(len(desc[3]).to_bytes(2, "big"))
        for f, d in desc[3]: out += s(f) + spec_type(d)
        return out
    raise KeyError(k)


def type_matches(reg, v, desc):
    """structural comparison of a decoded ColumnType value with the description; returns a python bool (everything is concrete here)"""
    ct, nt, co = reg.get("ColumnType"), reg.get("NativeType"), reg.get("CollectionType")
    def cd(e): return z3.simplify(e.discr.t).as_long()
    def text(x, s):
        for _ in range(3):
            if isinstance(x, Ref): x = sm.deref(x)
        return isinstance(x, Tup) and x.name == "Slice" and [z3.simplify(i.t).as_long() for i in sm.slice_items(x)] == list(s.encode())
    for _ in range(3):
        if isinstance(v, Ref): v = sm.deref(v)
    k = desc[0]
    if k == "n":
        return cd(v) == ct.discr("Native") and cd(v.payloads[ct.discr("Native")].f[0]) == nt.discr(NATIVE_IDS[desc[1]])
    if k in ("list", "set", "map"):
        if cd(v) != ct.discr("Collection"): return False
        fields = ct.fields("Collection"); tup = v.payloads[ct.discr("Collection")]
        frozen, typ = tup.f[fields.index("frozen")], tup.f[fields.index("typ")]
        if not z3.is_false(z3.simplify(frozen.t)): return False
        want = {"list": "List", "set": "Set", "map": "Map"}[k]
        if cd(typ) != co.discr(want): return False
        inner = typ.payloads[co.discr(want)].f
        return type_matches(reg, inner[0], desc[1]) and (k != "map" or type_matches(reg, inner[1], desc[2]))
    if k == "tuple":
        if cd(v) != ct.discr("Tuple"): return False
        items = v.payloads[ct.discr("Tuple")].f[0].items
        return len(items) == len(desc[1]) and all(type_matches(reg, a, b) for a, b in zip(items, desc[1]))
    if k == "udt":
        if cd(v) != ct.discr("UserDefinedType"): return False
        fields = ct.fields("UserDefinedType"); tup = v.payloads[ct.discr("UserDefinedType")]
        if not z3.is_false(z3.simplify(tup.f[fields.index("frozen")].t)): return False
        d = tup.f[fields.index("definition")]
        for _ in range(3):
            if isinstance(d, Ref): d = sm.deref(d)
        # struct UserDefinedType { name, keyspace, field_types }
        if not (text(d.f[0], desc[2]) and text(d.f[1], desc[1])): return False
        fts = d.f[2].items
        return len(fts) == len(desc[3]) and all(text(ft.f[0], f) and type_matches(reg, ft.f[1], dd) for ft, (f, dd) in zip(fts, desc[3]))
    return False


def type_cases(tier):
    n = lambda i: ("n", i)
    out = [n(i) for i in NATIVE_IDS]
    out += [("list", n(9)), ("set", n(0xD)), ("map", n(9), n(0xD)), ("map", n(2), ("list", n(3))), ("tuple", [n(9), n(3)]), ("tuple", []),
            ("udt", "ks", "t", [("a", n(9)), ("b", ("list", n(9)))]), ("udt", "k", "u", []), ("list", ("tuple", [n(0xC), ("set", n(0xF))]))]
    if tier == "thorough":
        out += [("list", n(i)) for i in NATIVE_IDS] + [("map", n(i), n(j)) for i in (1, 0x15) for j in (0xB, 0x11)]
    return out


def column_types(ctx, cql, reg, tier):
    fn = cql.find(r"(^|\s|::)deser_type_borrowed\(")
    ok_all, details, n_trunc, trunc_ok = True, [], 0, True
    def parse(data):
        it = mir.Interp(cql, mir.BVBackend(), type_models(), inline=INLINE + [r"^deser_type_generic(::<.*>)?$"], registry=reg, max_steps=30000)
        backing = Cell(Seq([Int(bv(b, 8), 8, False) for b in data]))
        buf = Cell(sm.mk_slice(it, Ref(backing), 0, len(data)))
        paths = it.run(fn, [Ref(buf)], [])
        if len(paths) != 1:
            raise mir.Unsupported("deser_type on concrete bytes does not run on a single path")
        return paths[0], sm.slice_parts(sm.deref(paths[0].locals[1].v))[2] if paths[0].outcome[0] == "return" else None
    bad = []
    for desc in type_cases(tier):
        data = spec_type(desc)
        p, rest = parse(data + [0xAA])           # one trailing byte: the decoder must consume exactly the type
        r = p.outcome[1] if p.outcome[0] == "return" else None
        good = r is not None and z3.simplify(r.discr.t).as_long() == 0 and rest == 1 and type_matches(reg, r.payloads[0].f[0], desc)
        if not good:
            bad.append(("decode", desc))
        for t in range(len(data)):
            q, _ = parse(data[:t]); n_trunc += 1
            if q.outcome[0] != "return" or z3.simplify(q.outcome[1].discr.t).as_long() != 1:
                bad.append(("truncated@%d" % t, desc))
    for unknown in (0x000A, 0x0016, 0x0023, 0x0032, 0xFFFF):
        p, _ = parse(list(unknown.to_bytes(2, "big")) + [0, 0])
        if p.outcome[0] != "return" or z3.simplify(p.outcome[1].discr.t).as_long() != 1:
            bad.append(("unknown id accepted", unknown))
    # ---- all 65536 type ids at once (symbolic id, nothing after it): natives decode to the table's type, every other id is refused
    #      (collections / tuple / UDT / custom are refused here because their payload is missing)
    tid = z3.BitVec("type_id", 16)
    it = mir.Interp(cql, mir.BVBackend(), type_models(), inline=INLINE + [r"^deser_type_generic(::<.*>)?$"], registry=reg, max_steps=30000)
    backing = Cell(Seq([Int(z3.Extract(15, 8, tid), 8, False), Int(z3.Extract(7, 0, tid), 8, False)]))
    paths = it.run(fn, [Ref(Cell(sm.mk_slice(it, Ref(backing), 0, 2)))], [])
    ct, nt = reg.get("ColumnType"), reg.get("NativeType")
    sym, cover = [], []
    for p in paths:
        pc = z3.And(p.pc) if p.pc else z3.BoolVal(True)
        if p.outcome[0] != "return":
            sym.append(z3.Not(pc)); continue
        cover.append(pc)
        r = p.outcome[1]
        is_native = z3.Or([tid == bv(i, 16) for i in NATIVE_IDS])
        conj = [(r.discr.t == 0) == is_native]
        if 0 in r.payloads:
            v = r.payloads[0].f[0]
            dn = ct.discr("Native")
            if dn in v.payloads:
                inner = v.payloads[dn].f[0]
                for i, name in NATIVE_IDS.items():
                    conj.append(z3.Implies(tid == bv(i, 16), z3.And(v.discr.t == dn, inner.discr.t == nt.discr(name))))
            else:
                conj.append(z3.Not(is_native))
        else:
            conj.append(z3.Not(is_native))
        sym.append(z3.Implies(pc, z3.And(conj)))
    sym.append(z3.Or(cover) if cover else z3.BoolVal(False))
    goal = z3.And([z3.BoolVal(not bad)] + sym)
    res = ctx.prove("c08_column_type_ids_decode_to_the_types_the_protocol_assigns", [], goal, inputs=[tid],
                    functions="deser_type_borrowed / deser_type_generic [scylla-cql/src/frame/response/result.rs], types::read_{short,string}",
                    bounds=f"ALL 65536 type ids (symbolic) with nothing after them: the 20 native ids decode to the protocol table's native type, every other id is refused; plus {len(type_cases(tier))} concrete type encodings: every native type id of the protocol table, list / set / map / tuple / UDT over them up to nesting depth 2 (names of 1-2 bytes): decoded "
                           f"ColumnType equals the encoded one and exactly the type's bytes are consumed; every proper prefix ({n_trunc} truncation points) and 5 unassigned ids are refused with an error; no panic",
                    backend="BV (ground)", assumes=LIB + "; Box / Arc / Cow construction identity", witness=False,
                    outside="custom types (id 0: CustomTypeParser), deeper nesting (recursion depth is unbounded: resource clause, see DESIGN §7), column specs / table specs / flags around the types",
                    replay=lambda m, bad=bad: replay_types(bad, m))
    if res is not None and bad:
        res["failed_checks"] = [{"desc": f"{what}: {desc}"} for what, desc in bad[:6]]


def replay_types(bad, m=None):
    from . import native
    nat = native.Native("core")
    out = []
    if m and m.get("type_id") is not None:
        i = m["type_id"] & 0xffff
        got = nat.ask("coltype " + i.to_bytes(2, "big").hex() + " cut")
        want = ("OK rest=0 " + NATIVE_IDS[i]) if i in NATIVE_IDS else "ERR"
        if (got != want) if i in NATIVE_IDS else (not got.startswith("ERR")):
            out.append({"type_id": hex(i), "native": got, "expected": want})
    for what, desc in bad[:12]:
        if what == "unknown id accepted":
            got = nat.ask("coltype " + bytes(list(desc.to_bytes(2, "big")) + [0, 0]).hex())
            if not got.startswith("ERR"): out.append({"id": hex(desc), "native": got})
            continue
        data = bytes(spec_type(desc))
        if what == "decode":
            got = nat.ask("coltype " + data.hex())
            want = "OK rest=1 " + render(desc)
            if got != want: out.append({"type": str(desc), "native": got, "expected": want})
        else:
            t = int(what.split("@")[1])
            got = nat.ask("coltype " + (data[:t].hex() or "-") + " cut")
            if not got.startswith("ERR"): out.append({"type": str(desc), "prefix": t, "native": got, "expected": "ERR"})
    nat.close()
    return native.record("C08", "column_types", {"mismatches": out[:6]}, bool(out))


def render(desc):
    k = desc[0]
    if k == "n": return NATIVE_IDS[desc[1]]
    if k in ("list", "set"): return f"{k}<{render(desc[1])}>"
    if k == "map": return f"map<{render(desc[1])},{render(desc[2])}>"
    if k == "tuple": return "tuple<" + ",".join(render(d) for d in desc[1]) + ">"
    return f"udt {desc[1]}.{desc[2]} {{" + ",".join(f"{f}:{render(d)}" for f, d in desc[3]) + "}"


# ------------------------------------------------------------------------------------------------ result metadata (PREPARED / ROWS)
def m_bool_then(it, p, callee, args):
    b, clo = args
    t = z3.simplify(b.t)
    if z3.is_false(t):
        return sm.none(it)
    if not z3.is_true(t):
        raise mir.Unsupported("bool::then on a symbolic flag")
    target = sm.find_closure_by_value(it, clo, callee)
    return [(q, v if v is mir.PANIC else sm.some(it, v)) for q, v in it.call_mir(target, p, [clo])]


def m_transpose(it, p, callee, args):
    o = args[0]
    if z3.simplify(o.discr.t).as_long() == 0:
        return Enum(it.const_int(0, "isize"), {0: Tup([sm.none(it)])}, RESULT, "Result")
    r = o.payloads[1].f[0]
    d = z3.simplify(r.discr.t)
    if not z3.is_bv_value(d):
        raise mir.Unsupported("transpose of a symbolic Result")
    if d.as_long() == 0:
        return Enum(it.const_int(0, "isize"), {0: Tup([sm.some(it, r.payloads[0].f[0])])}, RESULT, "Result")
    return Enum(it.const_int(1, "isize"), {1: r.payloads.get(1, Tup([Opaque("err")]))}, RESULT, "Result")


def m_opt_map_closure(it, p, callee, args):
    o, clo = args
    if z3.simplify(o.discr.t).as_long() == 0:
        return sm.none(it)
    target = sm.find_closure_by_value(it, clo, callee)
    return [(q, v if v is mir.PANIC else sm.some(it, v)) for q, v in it.call_mir(target, p, [clo, o.payloads[1].f[0]])]


def meta_models():
    m = type_models()
    m[r"^core::bool::<impl bool>::then::<"] = m_bool_then
    m[r"^Option::<(std::result::)?Result<.*>>::transpose$"] = m_transpose
    m[r"^Option::<&\[u8\]>::map::<"] = m_opt_map_closure
    m[r"^<CowBytes<'_> as From<&\[u8\]>>::from$"] = sm.m_identity
    m[r"^CowBytes::<'_>::into_owned$"] = sm.m_identity
    m[r"^Vec::<.*>::new$"] = lambda it, p, c, a: Seq([])
    m[r"TableSpec::<'(_|static)>::(borrowed|owned)$"] = lambda it, p, c, a: Tup([a[0], a[1]], "TableSpec")
    m[r"TableSpec::<'(_|static)>::into_owned$"] = sm.m_identity
    m[r"^<.*TableSpec<'_> as Clone>::clone$"] = lambda it, p, c, a: mir.copy_value(sm.deref(a[0]))
    m[r"ColumnSpec::<'(_|static)>::(borrowed|owned)$"] = lambda it, p, c, a: Tup([a[2], a[0], a[1]], "ColumnSpec")
    m[r"^<&\[u8\] as Into<(std::sync::)?Arc<\[u8\]>>>::into$"] = sm.m_identity
    m[r" as Into<(std::sync::)?Arc<\[u8\]>>>::into$"] = sm.m_identity
    m[r"^<String as Into<Cow<'_, str>>>::into$"] = sm.m_identity
    return m


META_INLINE = INLINE + [r"(^|::)deser_type_generic(::<.*>)?$", r"(^|::)deser_type_(owned|borrowed)$", r"(^|::)deser_col_specs_(owned|generic)(::<.*>)?$", r"(^|::)deser_table_spec$",
                        r"(^|::)read_(bytes|int_length)$", r"PagingStateResponse::new_from_raw_bytes$", r"PagingState::new_from_raw_bytes(::<.*>)?$"]


def result_metadata(ctx, cql, reg, tier):
    fn = cql.find(r"(^|\s|::)deser_result_metadata\(")
    ps = reg.get("PagingStateResponse")
    goals, inputs, pre, ncase = [], [], [], 0
    for g, h, n, c, ext in __import__("itertools").product((0, 1), repeat=5):
        tag = f"{g}{h}{n}{c}{ext}"
        flags = g | (h << 1) | (n << 2) | (c << 3)
        hi = z3.BitVec("flags_hi_" + tag, 28); inputs.append(hi)          # the other 28 flag bits are arbitrary
        data = be(z3.Concat(hi, bv(flags, 4)), 4) + be(bv(2, 32), 4)
        pstate = [z3.BitVec(f"ps{i}_{tag}", 8) for i in range(2)]
        mid = [z3.BitVec(f"mid{i}_{tag}", 8) for i in range(3)]
        names = [[z3.BitVec(f"col{j}_{tag}", 8)] for j in range(2)]
        ks, tb = [z3.BitVec("ks_" + tag, 8)], [z3.BitVec("tb_" + tag, 8)]
        txt = lambda cs: be(bv(len(cs), 16), 2) + cs
        if h: data += be(bv(2, 32), 4) + pstate; inputs += pstate
        has_id = bool(c and ext)
        if has_id: data += be(bv(3, 16), 2) + mid; inputs += mid
        types = [0x0009, 0x000D]
        if not n:
            if g: data += txt(ks) + txt(tb)
            for j in range(2):
                if not g: data += txt(ks) + txt(tb)
                data += txt(names[j]) + be(bv(types[j], 16), 2)
            inputs += ks + tb + names[0] + names[1]
            pre += [z3.ULT(x, 0x80) for x in ks + tb + names[0] + names[1]]
        data += [bv(0xEE, 8)]                                               # what follows the metadata must stay unread
        it = mir.Interp(cql, mir.BVBackend(), meta_models(), inline=META_INLINE, registry=reg, max_steps=40000)
        backing = Cell(Seq([Int(b, 8, False) for b in data]))
        buf = Cell(sm.mk_slice(it, Ref(backing), 0, len(data)))
        features = Tup([sm.none(it), Opaque("lwt"), Opaque("tablets"), Bool(z3.BoolVal(bool(ext)))], "ProtocolFeatures")
        paths = it.run(fn, [Ref(buf), Ref(Cell(features))], [])
        ncase += 1
        want_err = bool(n and c and ext)
        cover = []
        for p in paths:
            pc = z3.And(p.pc) if p.pc else z3.BoolVal(True)
            if p.outcome[0] != "return":
                goals.append(z3.Not(pc)); continue
            cover.append(pc)
            r = p.outcome[1]
            if want_err:
                goals.append(z3.Implies(pc, r.discr.t == 1)); continue
            conj = [r.discr.t == 0, z3.BoolVal(sm.slice_parts(sm.deref(p.locals[1].v))[2] == 1)]
            if 0 in r.payloads:
                md, paging = r.payloads[0].f[0].f
                mid_v, cc, specs = md.f
                conj.append(cc.t == 2)
                conj.append(mid_v.discr.t == (1 if has_id else 0))
                if has_id and 1 in mid_v.payloads:
                    conj.append(_slice_eq(mid_v.payloads[1].f[0], mid))
                conj.append(paging.discr.t == ps.discr("HasMorePages" if h else "NoMorePages"))
                if h:
                    st = paging.payloads[ps.discr("HasMorePages")].f[0]          # PagingState(Option<Arc<[u8]>>)
                    inner = st.f[0]
                    conj.append(inner.discr.t == 1)
                    if 1 in inner.payloads: conj.append(_slice_eq(inner.payloads[1].f[0], pstate))
                items = specs.items if isinstance(specs, Seq) else None
                if n:
                    conj.append(z3.BoolVal(items == []))
                else:
                    ok = items is not None and len(items) == 2
                    conj.append(z3.BoolVal(ok))
                    if ok:
                        reg_ct = reg
                        for j in range(2):
                            ts, nm, ty = items[j].f
                            conj += [_slice_eq(ts.f[0], ks), _slice_eq(ts.f[1], tb), _slice_eq(nm, names[j]),
                                     z3.BoolVal(type_matches(reg, ty, ("n", types[j])))]
            else:
                conj.append(z3.BoolVal(False))
            goals.append(z3.Implies(pc, z3.And(conj)))
        goals.append(z3.Or(cover) if cover else z3.BoolVal(False))
    ctx.prove("c08_result_metadata_flags_paging_state_id_and_column_specs", pre, z3.And(goals), inputs=inputs,
              functions="deser_result_metadata, deser_table_spec, deser_col_specs_owned / deser_col_specs_generic, deser_type_owned [scylla-cql/src/frame/response/result.rs], types::read_{int,int_length,bytes,short_bytes,string}",
              bounds=f"{ncase} metadata blocks = every combination of the flags GLOBAL_TABLES_SPEC / HAS_MORE_PAGES / NO_METADATA / METADATA_CHANGED x metadata-id extension negotiated or not (the other 28 flag "
                     "bits arbitrary), 2 columns (int, text) with 1-byte symbolic names and table spec, a 2-byte paging state, a 3-byte metadata id where the protocol puts them: column count, id (only "
                     "with the extension), paging state, per-column table spec / name / type are exactly what was encoded, exactly the metadata's bytes are consumed, and an id together with NO_METADATA is refused",
              backend="BV", assumes=LIB + "; bool::then / Option::transpose / Option::map via the closures' MIR; TableSpec / ColumnSpec / CowBytes / Arc construction identity", witness=True,
              outside="more columns / longer names, non-native column types here (decided by c08_column_type_ids_*), the lazily decoded ROWS variant (RawMetadataAndRawRows), rows themselves",
              replay=lambda m: replay_metadata(m))


def _slice_eq(v, bs):
    for _ in range(3):
        if isinstance(v, Ref): v = sm.deref(v)
    if not (isinstance(v, Tup) and v.name == "Slice"):
        return z3.BoolVal(False)
    items = sm.slice_items(v)
    if len(items) != len(bs):
        return z3.BoolVal(False)
    return z3.And([a.t == b for a, b in zip(items, bs)]) if bs else z3.BoolVal(True)


def replay_metadata(m):
    from . import native
    nat = native.Native("core")
    bad = []
    def g8(k, d=0x61):
        v = (m.get(k) or d) & 0x7f
        return v if chr(v).isalnum() else d
    for g, h, n, c, ext in __import__("itertools").product((0, 1), repeat=5):
        tag = f"{g}{h}{n}{c}{ext}"
        flags = (((m.get("flags_hi_" + tag) or 0) & ((1 << 28) - 1)) << 4) | g | (h << 1) | (n << 2) | (c << 3)
        ps_ = bytes((m.get(f"ps{i}_{tag}") or 0) & 0xff for i in range(2)); mid = bytes((m.get(f"mid{i}_{tag}") or 0) & 0xff for i in range(3))
        ks, tb = bytes([g8("ks_" + tag)]), bytes([g8("tb_" + tag)]); names = [bytes([g8(f"col{j}_{tag}")]) for j in range(2)]
        has_id = bool(c and ext)
        txt = lambda s: len(s).to_bytes(2, "big") + s
        data = flags.to_bytes(4, "big") + (2).to_bytes(4, "big")
        if h: data += (2).to_bytes(4, "big") + ps_
        if has_id: data += (3).to_bytes(2, "big") + mid
        if not n:
            if g: data += txt(ks) + txt(tb)
            for j in range(2):
                if not g: data += txt(ks) + txt(tb)
                data += txt(names[j]) + [b"\x00\x09", b"\x00\x0d"][j]
        got = nat.ask(f"resmeta {ext} {data.hex()}")
        if n and c and ext:
            want = "ERR"
        else:
            cols = "-" if n else ",".join(f"{ks.decode()}.{tb.decode()}.{names[j].decode()}:{['Int', 'Text'][j]}" for j in range(2))
            want = f"OK cols=2 id={mid.hex() if has_id else 'none'} paging={ps_.hex() if h else 'none'} specs={cols}"
        if (got != want) if want != "ERR" else (not got.startswith("ERR")):
            bad.append({"flags": hex(flags), "extension": ext, "body": data.hex(), "native": got[:300], "expected": want})
    nat.close()
    return native.record("C08", "result_metadata", {"mismatches": bad[:6]}, bool(bad))


# ------------------------------------------------------------------------------------------------ EVENT bodies
def event_models():
    m = type_models()
    def parse_event_type(it, p, callee, args):
        ty = callee.split("parse::<")[1].rstrip(">")
        return it.call_mir(it.mir.find_by_callee(f"<{ty} as FromStr>::from_str"), p, [args[0]])
    m[r"^core::str::<impl str>::parse::<EventTypeV2?>$"] = parse_event_type
    def arr_try_from(n):
        def f(it, p, callee, args):
            items = sm.slice_items(args[0])
            if len(items) != n:
                return Enum(it.const_int(1, "isize"), {1: Tup([Opaque("TryFromSliceError")])}, RESULT, "Result")
            return Enum(it.const_int(0, "isize"), {0: Tup([Tup(list(items), "array")])}, RESULT, "Result")
        return f
    m[r"^<\[u8; 4\] as TryFrom<&\[u8\]>>::try_from$"] = arr_try_from(4)
    m[r"^<\[u8; 16\] as TryFrom<&\[u8\]>>::try_from$"] = arr_try_from(16)
    m[r"^<IpAddr as From<\[u8; (4|16)\]>>::from$"] = lambda it, p, c, a: Tup([a[0]], "IpAddr")
    m[r"^std::net::SocketAddr::new$"] = lambda it, p, c, a: Tup([a[0], a[1]], "SocketAddr")
    m[r"^Vec::<String>::len$"] = lambda it, p, c, a: it.const_int(len(sm.deref(a[0]).items), "usize")
    return m


EVENT_INLINE = INLINE + [r"(^|::)read_inet$", r"^(TopologyChangeEvent|StatusChangeEvent|SchemaChangeEvent)::deserialize$"]


def event_cases():
    """(name, bytes, inputs, pre, expectation) for EventV2::deserialize; expectation: ('topo'|'status', variant, ip bytes, port) | ('schema', variant, change, [texts], args|None) | ('err',)"""
    out = []
    def txt(s): return be(bv(len(s), 16), 2) + [bv(c, 8) for c in s.encode()]
    def sym_txt(name, n, inputs, pre):
        cs = [z3.BitVec(f"{name}{i}", 8) for i in range(n)]; inputs += cs; pre += [z3.ULT(c, 0x80) for c in cs]
        return be(bv(n, 16), 2) + cs, cs
    k = 0
    for ev, kinds in (("TOPOLOGY_CHANGE", ("NEW_NODE", "REMOVED_NODE")), ("STATUS_CHANGE", ("UP", "DOWN"))):
        for kind in kinds:
            for iplen in (4, 16):
                k += 1; inputs, pre = [], []
                ip = [z3.BitVec(f"ip{k}_{i}", 8) for i in range(iplen)]; port = z3.BitVec(f"port{k}", 32)
                inputs += ip + [port]; pre.append(z3.ULE(port, 65535))
                data = txt(ev) + txt(kind) + [bv(iplen, 8)] + ip + be(port, 4)
                variant = {"NEW_NODE": "NewNode", "REMOVED_NODE": "RemovedNode", "UP": "Up", "DOWN": "Down"}[kind]
                out.append((f"{ev}_{kind}_v{iplen}", data, inputs, pre, ("topo" if ev == "TOPOLOGY_CHANGE" else "status", variant, ip, port)))
        k += 1
        out.append((f"{ev}_unknown_kind", txt(ev) + txt("MOVED") + [bv(4, 8)] + [bv(1, 8)] * 4 + be(bv(9042, 32), 4), [], [], ("err",)))
        out.append((f"{ev}_bad_inet_length", txt(ev) + txt(kinds[0]) + [bv(5, 8)] + [bv(1, 8)] * 5 + be(bv(9042, 32), 4), [], [], ("err",)))
        out.append((f"{ev}_port_out_of_range", txt(ev) + txt(kinds[0]) + [bv(4, 8)] + [bv(1, 8)] * 4 + be(bv(70000, 32), 4), [], [], ("err",)))
    for change in ("CREATED", "UPDATED", "DROPPED", "RENAMED"):
        for target in ("KEYSPACE", "TABLE", "TYPE", "FUNCTION", "AGGREGATE"):
            k += 1; inputs, pre = [], []
            d, ksn = sym_txt(f"ks{k}_", 2, inputs, pre)
            data = txt("SCHEMA_CHANGE") + txt(change) + txt(target) + d
            texts, args = [ksn], None
            if target != "KEYSPACE":
                d, nm = sym_txt(f"nm{k}_", 1, inputs, pre); data += d; texts.append(nm)
            if target in ("FUNCTION", "AGGREGATE"):
                d0, a0 = sym_txt(f"a{k}_", 1, inputs, pre); d1, a1 = sym_txt(f"b{k}_", 0, inputs, pre)
                data += be(bv(2, 16), 2) + d0 + d1; args = [a0, a1]
            variant = {"KEYSPACE": "KeyspaceChange", "TABLE": "TableChange", "TYPE": "TypeChange", "FUNCTION": "FunctionChange", "AGGREGATE": "AggregateChange"}[target]
            out.append((f"SCHEMA_{change}_{target}", data, inputs, pre, ("schema", variant, change, texts, args)))
    out.append(("SCHEMA_unknown_target", txt("SCHEMA_CHANGE") + txt("CREATED") + txt("VIEW") + txt("ks"), [], [], ("err",)))
    out.append(("unknown_event_type", txt("TRACE_COMPLETE") + txt("x"), [], [], ("err",)))
    return out


def events(ctx, cql, reg, tier):
    fn = cql.find(r"event\.rs[^>]*>::deserialize\(_1: &mut &\[u8\]\) -> std::result::Result<EventV2")
    ev, topo, status, schema, sct = reg.get("EventV2"), reg.get("TopologyChangeEvent"), reg.get("StatusChangeEvent"), reg.get("SchemaChangeEvent"), reg.get("SchemaChangeType")
    goals, inputs, pre_all, n, ntr = [], [], [], 0, 0
    def parse(data, pre):
        it = mir.Interp(cql, mir.BVBackend(), event_models(), inline=EVENT_INLINE, registry=reg, max_steps=30000)
        backing = Cell(Seq([Int(b, 8, False) for b in data]))
        return it.run(fn, [Ref(Cell(sm.mk_slice(it, Ref(backing), 0, len(data))))], pre)
    for name, data, ins, pre, exp in event_cases():
        n += 1
        cover = []
        for p in parse(data, pre):
            pc = z3.And(p.pc) if p.pc else z3.BoolVal(True)
            if p.outcome[0] != "return":
                goals.append(z3.Implies(z3.And(pre) if pre else z3.BoolVal(True), z3.Not(pc))); continue
            cover.append(pc)
            r = p.outcome[1]
            if exp[0] == "err":
                goals.append(z3.Implies(pc, r.discr.t == 1)); continue
            conj = [r.discr.t == 0]
            e = r.payloads[0].f[0] if 0 in r.payloads else None
            if e is None:
                conj.append(z3.BoolVal(False))
            elif exp[0] in ("topo", "status"):
                outer = ev.discr("TopologyChange" if exp[0] == "topo" else "StatusChange"); inner_reg = topo if exp[0] == "topo" else status
                conj.append(e.discr.t == outer)
                if outer in e.payloads:
                    inner = e.payloads[outer].f[0]; d = inner_reg.discr(exp[1])
                    conj.append(inner.discr.t == d)
                    if d in inner.payloads:
                        addr = inner.payloads[d].f[0]                     # SocketAddr(IpAddr(array), port)
                        octets = addr.f[0].f[0].f
                        conj.append(z3.BoolVal(len(octets) == len(exp[2])))
                        if len(octets) == len(exp[2]):
                            conj += [o.t == b for o, b in zip(octets, exp[2])]
                        conj.append(addr.f[1].t == z3.Extract(15, 0, exp[3]))
                    else:
                        conj.append(z3.BoolVal(False))
                else:
                    conj.append(z3.BoolVal(False))
            else:
                outer = ev.discr("SchemaChange"); conj.append(e.discr.t == outer)
                if outer in e.payloads:
                    inner = e.payloads[outer].f[0]; d = schema.discr(exp[1])
                    conj.append(inner.discr.t == d)
                    if d in inner.payloads:
                        flds = inner.payloads[d].f
                        want_ct = {"CREATED": "Created", "UPDATED": "Updated", "DROPPED": "Dropped"}.get(exp[2], "Invalid")
                        conj.append(flds[0].discr.t == sct.discr(want_ct))
                        for j, tx in enumerate(exp[3]):
                            conj.append(_slice_eq(flds[1 + j], tx))
                        if exp[4] is not None:
                            al = flds[1 + len(exp[3])]
                            items = al.items if isinstance(al, Seq) else None
                            conj.append(z3.BoolVal(items is not None and len(items) == len(exp[4])))
                            if items is not None and len(items) == len(exp[4]):
                                conj += [_slice_eq(a, b) for a, b in zip(items, exp[4])]
                    else:
                        conj.append(z3.BoolVal(False))
                else:
                    conj.append(z3.BoolVal(False))
            goals.append(z3.Implies(z3.And(pre + [pc]) if pre else pc, z3.And(conj)))
        goals.append(z3.Implies(z3.And(pre) if pre else z3.BoolVal(True), z3.Or(cover) if cover else z3.BoolVal(False)))
        inputs += ins; pre_all += pre
        if exp[0] != "err" and not ctx.skip("c08_truncated_event_bodies_are_refused_without_panic"):
            for t in range(len(data)):
                ntr += 1
                for p in parse(data[:t], pre):
                    pc = z3.And(p.pc) if p.pc else z3.BoolVal(True)
                    TRUNC.append(z3.Implies(z3.And(pre) if pre else z3.BoolVal(True), z3.Not(pc)) if p.outcome[0] != "return" else z3.Implies(z3.And(pre + [pc]) if pre else pc, p.outcome[1].discr.t == 1))
    ctx.prove("c08_event_bodies_decode_to_exactly_what_was_encoded", [], z3.And(goals), inputs=inputs,
              functions="EventV2::deserialize, TopologyChangeEvent / StatusChangeEvent / SchemaChangeEvent::deserialize, EventTypeV2::from_str [scylla-cql/src/frame/response/event.rs, server_event_type.rs], types::read_{string,inet,short}",
              bounds=f"{n} EVENT bodies: topology (NEW_NODE / REMOVED_NODE) and status (UP / DOWN) changes with IPv4 and IPv6 addresses (all address bytes and the port symbolic), schema changes "
                     "CREATED / UPDATED / DROPPED / unknown x KEYSPACE / TABLE / TYPE / FUNCTION / AGGREGATE (names and argument types symbolic ASCII), plus unknown kinds, targets, event types, a bad "
                     "address length and an out-of-range port (all refused): the decoded event is exactly what was encoded",
              backend="BV", assumes=LIB + "; [u8;N]::try_from(slice) = Ok iff the length is N, IpAddr / SocketAddr construction identity, str::parse = the FromStr impl's MIR", witness=False,
              outside="CLIENT_ROUTES_CHANGE (string-list iterators), the legacy Event type (same code over 3 variants), longer names", replay=lambda m: replay_events(m))
    if not ctx.skip("c08_truncated_event_bodies_are_refused_without_panic"):
        ctx.prove("c08_truncated_event_bodies_are_refused_without_panic", [], z3.And(TRUNC) if TRUNC else z3.BoolVal(True), inputs=inputs,
                  functions="EventV2::deserialize and the readers it calls", bounds=f"every proper prefix of the well-formed EVENT bodies above ({ntr} truncation points): Err on every path, no panic",
                  backend="BV", assumes=LIB, witness=False, replay=lambda m: replay_events(m, truncated=True))
    del TRUNC[:]


TRUNC = []


def replay_events(m, truncated=False):
    from . import native
    nat = native.Native("core")
    bad = []
    for name, data, ins, pre, exp in event_cases():
        subs = []
        for v in ins:
            val = (m.get(str(v)) or 0) & ((1 << v.size()) - 1)
            if v.size() == 8 and not str(v).startswith("ip"):
                val = (val & 0x7f) or 0x61
                if val < 0x21 or val in (0x22, 0x5c, 0x7f): val = 0x61
            if str(v).startswith("port"): val = val % 65536
            subs.append((v, z3.BitVecVal(val, v.size())))
        raw = bytes(z3.simplify(z3.substitute(b, *subs) if subs else b).as_long() for b in data)
        vals = {str(v): c.as_long() for v, c in subs}
        if truncated:
            if exp[0] == "err": continue
            for t in range(len(raw)):
                got = nat.ask("event " + (raw[:t].hex() or "-"))
                if not got.startswith("ERR"): bad.append({"case": name, "prefix": t, "native": got[:200], "expected": "ERR"})
            continue
        got = nat.ask("event " + raw.hex())
        if exp[0] == "err":
            want = "ERR"
        elif exp[0] in ("topo", "status"):
            ip = bytes(vals[str(b)] for b in exp[2]); port = vals[str(exp[3])]
            import ipaddress
            want = f"OK {'Topology' if exp[0] == 'topo' else 'Status'} {exp[1]} {ipaddress.ip_address(ip)} {port}"
        else:
            t2s = lambda cs: "".join(chr(vals[str(c)]) for c in cs)
            ct = {"CREATED": "Created", "UPDATED": "Updated", "DROPPED": "Dropped"}.get(exp[2], "Invalid")
            want = f"OK Schema {exp[1]} {ct} " + " ".join(t2s(t) or "-" for t in exp[3]) + ("" if exp[4] is None else " args=" + ",".join(t2s(a) or "-" for a in exp[4]))
        if (got != want) if want != "ERR" else (not got.startswith("ERR")):
            bad.append({"case": name, "body": raw.hex(), "native": got[:300], "expected": want})
    nat.close()
    return native.record("C08", "event_bodies" + ("_truncated" if truncated else ""), {"mismatches": bad[:6]}, bool(bad))


# ------------------------------------------------------------------------------------------------ AUTHENTICATE / AUTH_SUCCESS / AUTH_CHALLENGE / SUPPORTED
def small_models():
    m = type_models()
    def hm_insert(it, p, callee, args):
        mp, k, v = sm.deref(args[0]), args[1], args[2]
        kb = [z3.simplify(x.t) for x in sm.slice_items(k)]
        for kv in mp.items:
            ob = [z3.simplify(x.t) for x in sm.slice_items(kv.f[0])]
            if len(ob) == len(kb):
                raise mir.Unsupported("HashMap::insert with keys of equal length (possibly equal): outside this model")
        mp.items.append(Tup([k, v]))
        return sm.none(it)
    m[r"^(std::collections::)?HashMap::<String, Vec<String>>::with_capacity$"] = lambda it, p, c, a: Seq([])
    m[r"^(std::collections::)?HashMap::<String, Vec<String>>::insert$"] = hm_insert
    m[r"^Option::<&\[u8\]>::map::<Vec<u8>, "] = lambda it, p, c, a: a[0]          # |b| b.to_owned() / ToOwned::to_owned: identity on the bytes
    return m


SMALL_INLINE = INLINE + [r"(^|::)read_(bytes_opt|string_multimap)$"]


def small_bodies(ctx, cql, reg, tier):
    goals, inputs, pre_all, n = [], [], [], 0
    def run_one(fn_re, data, pre):
        it = mir.Interp(cql, mir.BVBackend(), small_models(), inline=SMALL_INLINE, registry=reg, max_steps=30000)
        backing = Cell(Seq([Int(b, 8, False) for b in data]))
        return it.run(cql.find(fn_re), [Ref(Cell(sm.mk_slice(it, Ref(backing), 0, len(data))))], pre)
    def check(paths, pre, cond):
        cover = []
        for p in paths:
            pc = z3.And(p.pc) if p.pc else z3.BoolVal(True)
            if p.outcome[0] != "return":
                goals.append(z3.Implies(z3.And(pre) if pre else z3.BoolVal(True), z3.Not(pc))); continue
            cover.append(pc)
            goals.append(z3.Implies(z3.And(pre + [pc]) if pre else pc, z3.And(cond(p.outcome[1]))))
        goals.append(z3.Implies(z3.And(pre) if pre else z3.BoolVal(True), z3.Or(cover) if cover else z3.BoolVal(False)))
    # AUTHENTICATE: [string]
    for L in (0, 3):
        name = [z3.BitVec(f"authname{i}_{L}", 8) for i in range(L)]; pre = [z3.ULT(c, 0x80) for c in name]
        paths = run_one(r"authenticate\.rs[^>]*>::deserialize\(_1: &mut &\[u8\]\) -> std::result::Result<authenticate::Authenticate,", be(bv(L, 16), 2) + name + [bv(0xEE, 8)], pre)
        check(paths, pre, lambda r, name=name: [r.discr.t == 0] + ([_slice_eq(r.payloads[0].f[0].f[0], name)] if 0 in r.payloads else [z3.BoolVal(False)]))
        inputs += name; pre_all += pre; n += 1
    # AUTH_SUCCESS / AUTH_CHALLENGE: [bytes] with any negative length = absent
    for what, fn_re in (("success", r"authenticate\.rs[^>]*>::deserialize\(_1: &mut &\[u8\]\) -> std::result::Result<authenticate::AuthSuccess,"),
                        ("challenge", r"authenticate\.rs[^>]*>::deserialize\(_1: &mut &\[u8\]\) -> std::result::Result<authenticate::AuthChallenge,")):
        neg = z3.BitVec(f"neglen_{what}", 32); pre = [neg < 0]
        paths = run_one(fn_re, be(neg, 4) + [bv(1, 8), bv(2, 8)], pre)
        check(paths, pre, lambda r: [r.discr.t == 0] + ([r.payloads[0].f[0].f[0].discr.t == 0] if 0 in r.payloads else [z3.BoolVal(False)]))
        inputs.append(neg); pre_all += pre; n += 1
        for L in (0, 2):
            tok = [z3.BitVec(f"tok{i}_{what}{L}", 8) for i in range(L)]
            paths = run_one(fn_re, be(bv(L, 32), 4) + tok + [bv(0xEE, 8)], [])
            def cond(r, tok=tok):
                if 0 not in r.payloads: return [z3.BoolVal(False)]
                o = r.payloads[0].f[0].f[0]
                return [r.discr.t == 0, o.discr.t == 1] + ([_slice_eq(o.payloads[1].f[0], tok)] if 1 in o.payloads else [z3.BoolVal(False)])
            check(paths, [], cond)
            inputs += tok; n += 1
        # length larger than what follows: refused
        paths = run_one(fn_re, be(bv(5, 32), 4) + [bv(1, 8)] * 4, [])
        check(paths, [], lambda r: [r.discr.t == 1]); n += 1
    # SUPPORTED: [string multimap]
    k1 = [z3.BitVec("supk1_0", 8)]; k2 = [z3.BitVec(f"supk2_{i}", 8) for i in range(2)]
    v1 = [z3.BitVec("supv1_0", 8)]; v2 = [z3.BitVec(f"supv2_{i}", 8) for i in range(2)]
    pre = [z3.ULT(c, 0x80) for c in k1 + k2 + v1 + v2]
    txt = lambda cs: be(bv(len(cs), 16), 2) + cs
    data = be(bv(2, 16), 2) + txt(k1) + be(bv(2, 16), 2) + txt(v1) + txt(v2) + txt(k2) + be(bv(0, 16), 2) + [bv(0xEE, 8)]
    paths = run_one(r"supported\.rs[^>]*>::deserialize\(", data, pre)
    def cond_sup(r):
        if 0 not in r.payloads: return [z3.BoolVal(False)]
        opts = r.payloads[0].f[0].f[0]
        items = opts.items if isinstance(opts, Seq) else None
        if items is None or len(items) != 2: return [z3.BoolVal(False)]
        l1 = items[0].f[1].items; l2 = items[1].f[1].items
        return [r.discr.t == 0, _slice_eq(items[0].f[0], k1), _slice_eq(items[1].f[0], k2), z3.BoolVal(len(l1) == 2 and len(l2) == 0)] + \
               ([_slice_eq(l1[0], v1), _slice_eq(l1[1], v2)] if len(l1) == 2 else [])
    check(paths, pre, cond_sup)
    inputs += k1 + k2 + v1 + v2; pre_all += pre; n += 1
    ctx.prove("c08_authenticate_auth_success_challenge_supported_bodies", [], z3.And(goals), inputs=inputs,
              functions="Authenticate / AuthSuccess / AuthChallenge::deserialize [scylla-cql/src/frame/response/authenticate.rs], Supported::deserialize [supported.rs], types::read_{string,bytes_opt,string_multimap,string_list}",
              bounds=f"{n} bodies: authenticator names of 0 / 3 symbolic ASCII bytes; AUTH_SUCCESS and AUTH_CHALLENGE tokens absent (EVERY negative i32 length, symbolic), empty, 2 symbolic bytes, and a "
                     "length exceeding the body (refused); a SUPPORTED multimap with two options (one with two values, one with none), all text symbolic: decoded content is exactly what was encoded",
              backend="BV", assumes=LIB + "; HashMap<String, Vec<String>> = association list (keys of different lengths), Option::map(to_owned) identity", witness=False,
              outside="duplicate option keys, longer maps", replay=lambda m: replay_small(m))


def replay_small(m):
    from . import native
    nat = native.Native("core")
    bad = []
    g7 = lambda k: (((m.get(k) or 0x61) & 0x7f) or 0x61) if (((m.get(k) or 0x61) & 0x7f) or 0x61) >= 0x21 and (((m.get(k) or 0x61) & 0x7f) or 0x61) not in (0x22, 0x2c, 0x3d, 0x5c, 0x7f) else 0x61
    def ask(kind, raw, want):
        got = nat.ask(f"smallbody {kind} {raw.hex() or '-'}")
        if got != want: bad.append({"kind": kind, "body": raw.hex(), "native": got[:200], "expected": want})
    for L in (0, 3):
        nm = bytes(g7(f"authname{i}_{L}") for i in range(L))
        ask("authenticate", L.to_bytes(2, "big") + nm + b"\xee", f"OK {nm.decode() or '-'}")
    for what in ("success", "challenge"):
        neg = (m.get(f"neglen_{what}") or 0xffffffff) & 0xffffffff
        if neg < (1 << 31): neg = 0xffffffff
        ask(what, neg.to_bytes(4, "big") + b"\x01\x02", "OK none")
        for L in (0, 2):
            tok = bytes((m.get(f"tok{i}_{what}{L}") or 0) & 0xff for i in range(L))
            ask(what, L.to_bytes(4, "big") + tok + b"\xee", f"OK {tok.hex() or 'empty'}")
        ask(what, (5).to_bytes(4, "big") + b"\x01" * 4, "ERR")
    k1 = bytes([g7("supk1_0")]); k2 = bytes(g7(f"supk2_{i}") for i in range(2)); v1 = bytes([g7("supv1_0")]); v2 = bytes(g7(f"supv2_{i}") for i in range(2))
    t = lambda s: len(s).to_bytes(2, "big") + s
    raw = (2).to_bytes(2, "big") + t(k1) + (2).to_bytes(2, "big") + t(v1) + t(v2) + t(k2) + (0).to_bytes(2, "big") + b"\xee"
    ask("supported", raw, "OK " + ";".join(sorted([f"{k1.decode()}={v1.decode()},{v2.decode()}", f"{k2.decode()}="])))
    nat.close()
    return native.record("C08", "small_bodies", {"mismatches": bad[:6]}, bool(bad))


# ------------------------------------------------------------------------------------------------ opcode tables
RESP_OPCODES = {0x00: "Error", 0x02: "Ready", 0x03: "Authenticate", 0x06: "Supported", 0x08: "Result", 0x0C: "Event", 0x0E: "AuthChallenge", 0x10: "AuthSuccess"}
REQ_OPCODES = {0x01: "Startup", 0x05: "Options", 0x07: "Query", 0x09: "Prepare", 0x0A: "Execute", 0x0B: "Register", 0x0D: "Batch", 0x0F: "AuthResponse"}


def opcode_tables(ctx, cql, tier):
    reg = rustenum.Registry(["/repo/scylla-cql/src/frame/response/mod.rs", "/repo/scylla-cql/src/frame/request/mod.rs"])
    goals, inputs = [], []
    for ename, table in (("ResponseOpcode", RESP_OPCODES), ("RequestOpcode", REQ_OPCODES)):
        ed = reg.get(ename)
        b = z3.BitVec("opcode_" + ename, 8); inputs.append(b)
        fn = cql.find_by_callee(f"<{ename} as TryFrom<u8>>::try_from")
        mods = {r"TryFromPrimitiveError::<u8>::new$": sm.m_opaque("unknown-opcode")}
        it = mir.Interp(cql, mir.BVBackend(), mods, registry=reg, max_steps=4000)
        paths = it.run(fn, [Int(b, 8, False)], [])
        cover = []
        for p in paths:
            pc = z3.And(p.pc) if p.pc else z3.BoolVal(True)
            if p.outcome[0] != "return":
                goals.append(z3.Not(pc)); continue
            cover.append(pc)
            r = p.outcome[1]
            known = z3.Or([b == bv(k, 8) for k in table])
            conj = [(r.discr.t == 0) == known]
            if 0 in r.payloads:
                v = r.payloads[0].f[0]
                conj += [z3.Implies(b == bv(k, 8), v.discr.t == ed.discr(name)) for k, name in table.items()]
            else:
                conj.append(z3.Not(known))
            goals.append(z3.Implies(pc, z3.And(conj)))
        goals.append(z3.Or(cover) if cover else z3.BoolVal(False))
    ctx.prove("c08_opcode_tables_all_256_values", [], z3.And(goals), inputs=inputs,
              functions="<ResponseOpcode as TryFrom<u8>>::try_from [scylla-cql/src/frame/response/mod.rs], <RequestOpcode as TryFrom<u8>>::try_from [frame/request/mod.rs]",
              bounds="all 256 opcode bytes (symbolic): the 8 response opcodes and the 8 request opcodes of CQL v4 map to their kinds, every other byte is refused",
              backend="BV", assumes="TryFromPrimitiveError::new opaque", witness=False, replay=lambda m: replay_opcodes(m))


def replay_opcodes(m):
    from . import native
    nat = native.Native("core")
    bad = []
    for ename, table in (("ResponseOpcode", RESP_OPCODES), ("RequestOpcode", REQ_OPCODES)):
        b = (m.get("opcode_" + ename) or 0) & 0xff
        got = nat.ask(f"opcode {ename} {b}")
        want = table.get(b, "ERR")
        if got != want: bad.append({"enum": ename, "byte": b, "native": got, "expected": want})
    nat.close()
    return native.record("C08", "opcode_tables", {"mismatches": bad}, bool(bad))


def run(tier, seed, only):
    ctx = oblig.Ctx(tier, only)
    try:
        core = mir.MirFile(dump.dump("scylla-cql-core"))
        reg = rustenum.Registry(["/repo/scylla-cql-core/src/frame/response/error.rs", "/repo/scylla-cql-core/src/frame/types.rs"])
    except Exception as e:
        return [{"name": "smt:c08_mir_dump", "engine": "smt:mir2smt", "status": "inconclusive", "reason": str(e)[:500]}]
    try:
        cql = mir.MirFile(dump.dump("scylla-cql"), others=[core])
        reg2 = rustenum.Registry(["/repo/scylla-cql-core/src/frame/response/result.rs", "/repo/scylla-cql-core/src/frame/frame_errors.rs", "/repo/scylla-cql-core/src/frame/types.rs", "/repo/scylla-cql-core/src/frame/request/query.rs"])
        if not ctx.skip("c08_column_type_ids_decode_to_the_types_the_protocol_assigns"):
            column_types(ctx, cql, reg2, tier)
        if not ctx.skip("c08_result_metadata_flags_paging_state_id_and_column_specs"):
            result_metadata(ctx, cql, reg2, tier)
        if not ctx.skip("c08_opcode_tables_all_256_values"):
            opcode_tables(ctx, cql, tier)
        if not ctx.skip("c08_authenticate_auth_success_challenge_supported_bodies"):
            small_bodies(ctx, cql, reg2, tier)
        if not (ctx.skip("c08_event_bodies_decode_to_exactly_what_was_encoded") and ctx.skip("c08_truncated_event_bodies_are_refused_without_panic")):
            reg3 = rustenum.Registry(["/repo/scylla-cql/src/frame/response/event.rs", "/repo/scylla-cql/src/frame/server_event_type.rs", "/repo/scylla-cql-core/src/frame/frame_errors.rs"])
            events(ctx, cql, reg3, tier)
    except mir.Unsupported as e:
        ctx.add(name="smt:c08_translate_column_types", engine="smt:mir2smt", status="inconclusive", reason="translator rejected the current source: " + str(e), functions="scylla-cql/src/frame/response/result.rs")
    except (AttributeError, KeyError, IndexError, TypeError, ValueError) as e:
        ctx.add(name="smt:c08_translate_column_types", engine="smt:mir2smt", status="inconclusive", reason=f"translator failed on the current source ({type(e).__name__}: {e})", functions="scylla-cql/src/frame/response/result.rs")
    try:
        from . import smt_c08alloc
        smt_c08alloc.run(ctx, cql, reg2, tier)
    except Exception as e:
        ctx.add(name="smt:c08_translate_allocations", engine="smt:mir2smt", status="inconclusive", reason=f"{type(e).__name__}: {e}"[:500], functions="scylla-cql/src/frame/response/result.rs")
    try:
        from . import smt_c08vec
        smt_c08vec.run(ctx, core, rustenum.Registry(["/repo/scylla-cql-core/src/frame/response/result.rs"]), tier)
    except Exception as e:
        ctx.add(name="smt:c08_translate_vector_values", engine="smt:mir2smt", status="inconclusive", reason=f"{type(e).__name__}: {e}"[:500], functions="scylla-cql-core/src/frame/response/result.rs")
    try:
        error_bodies(ctx, core, reg, tier)
    except mir.Unsupported as e:
        ctx.add(name="smt:c08_translate_error_body", engine="smt:mir2smt", status="inconclusive", reason="translator rejected the current source: " + str(e), functions=FILE)
    except (AttributeError, KeyError, IndexError, TypeError, ValueError) as e:
        ctx.add(name="smt:c08_translate_error_body", engine="smt:mir2smt", status="inconclusive", reason=f"translator failed on the current source ({type(e).__name__}: {e})", functions=FILE)
    return ctx.results


def error_bodies(ctx, mf, reg, tier):
    cs, slice_is = cases(reg)
    goals, inputs, pre_all, trunc_goals, ntrunc = [], [], [], [], 0
    for name, body, reason, rate, check in cs:
        paths = run_parse(mf, reg, body.bytes, rate, body.pre)
        cover = []
        for p in paths:
            pc = z3.And(p.pc) if p.pc else z3.BoolVal(True)
            if p.outcome[0] != "return":
                goals.append(z3.Implies(z3.And(body.pre), z3.Not(pc))); continue
            cover.append(pc)
            r = p.outcome[1]
            conj = [r.discr.t == 0]
            if 0 in r.payloads:
                err = r.payloads[0].f[0]
                conj += check(err.f[0]) + [slice_is(err.f[1], reason)]
            else:
                conj.append(z3.BoolVal(False))
            goals.append(z3.Implies(z3.And(body.pre + [pc]), z3.And(conj)))
        goals.append(z3.Implies(z3.And(body.pre), z3.Or(cover) if cover else z3.BoolVal(False)))
        inputs += body.inputs; pre_all += body.pre
        # every truncation point
        for t in (range(len(body.bytes)) if not ctx.skip("c08_truncated_error_bodies_are_refused_without_panic") else ()):
            if name == "Other" and t >= 4 + 2 + len(reason):
                continue
            tp = run_parse(mf, reg, body.bytes[:t], rate, body.pre)
            ntrunc += 1
            for p in tp:
                pc = z3.And(p.pc) if p.pc else z3.BoolVal(True)
                if p.outcome[0] != "return":
                    trunc_goals.append(z3.Implies(z3.And(body.pre), z3.Not(pc)))
                else:
                    trunc_goals.append(z3.Implies(z3.And(body.pre + [pc]), p.outcome[1].discr.t == 1))
    ctx.prove("c08_error_body_decodes_to_exactly_what_was_encoded", [], z3.And(goals), inputs=inputs,
              functions=f"Error::deserialize [{FILE}], types::read_{{int,string,consistency,string_list,short_bytes,short_length,raw_bytes}}, Consistency::try_from, WriteType::from, OperationType::from",
              bounds=f"{len(cs)} well-formed ERROR bodies covering every error code of CQL v4 (+ the negotiated rate-limit code, + an arbitrary unknown code): all numeric fields, consistency "
                     "levels, flags and text bytes (ASCII, lengths 0..3) symbolic; every write type name and an unknown one. The decoded DbError variant, each of its fields and the "
                     "reason equal what the independent encoder put in",
              backend="BV", assumes=LIB, witness=False, outside="non-ASCII text (from_utf8 is library code), longer strings / lists, other response kinds (RESULT metadata and rows, EVENT, SUPPORTED)",
              replay=lambda m: replay_bodies(m, reg))
    ctx.prove("c08_truncated_error_bodies_are_refused_without_panic", [], z3.And(trunc_goals) if trunc_goals else z3.BoolVal(True), inputs=inputs,
              functions=f"Error::deserialize [{FILE}] and the readers it calls",
              bounds=f"every proper prefix of those bodies ({ntrunc} truncation points, contents symbolic): decoding returns Err on every path; no panic, no overflow, no out-of-bounds read",
              backend="BV", assumes=LIB, witness=False, outside="bodies whose length fields are themselves corrupted (the byte-level readers are decided by engine K on all small inputs)",
              replay=lambda m: replay_bodies(m, reg, truncated=True))


def _val(m, v):
    return (m.get(str(v)) or 0) & ((1 << v.size()) - 1)


def _concrete_body(m, body):
    out = []
    subs = [(v, z3.BitVecVal(_val(m, v), v.size())) for v in body.inputs]
    for b in body.bytes:
        out.append(z3.simplify(z3.substitute(b, *subs)).as_long() if subs else z3.simplify(b).as_long())
    return bytes(out)


def _s32(x): return x - (1 << 32) if x >= (1 << 31) else x


def _expected(name, m):
    """what the decoder must print for the model's body, written from the protocol text (independent of the encoder above)"""
    g = lambda n: (m.get(f"{n}_{name}") or 0)
    txt = lambda pfx, n: "".join(chr((m.get(f"{pfx}{i}_{name}") or 0) & 0x7f) for i in range(n))
    q = lambda s: '"' + s.encode("unicode_escape").decode().replace('"', '\\"') + '"'
    cl = lambda: CONS[g("cl") & 0xffff]
    simple = {"ServerError", "ProtocolError", "AuthenticationError", "Overloaded", "IsBootstrapping", "TruncateError", "SyntaxError", "Unauthorized", "Invalid", "ConfigError"}
    if name in simple: return name, 2
    if name == "Unavailable": return f"Unavailable {cl()} {_s32(g('required'))} {_s32(g('alive'))}", 1
    if name.startswith("WriteTimeout_"):
        w = name.split("_", 1)[1]
        return f"WriteTimeout {cl()} {_s32(g('received'))} {_s32(g('required'))} " + (WT_VARIANT[w] if w in WT_VARIANT else f'Other("{w}")'), 0
    if name == "ReadTimeout": return f"ReadTimeout {cl()} {_s32(g('received'))} {_s32(g('required'))} {str(bool(g('data_present') & 0xff)).lower()}", 1
    if name == "ReadFailure": return f"ReadFailure {cl()} {_s32(g('received'))} {_s32(g('required'))} {_s32(g('numfailures'))} {str(bool(g('data_present') & 0xff)).lower()}", 1
    if name == "FunctionFailure": return f"FunctionFailure {q(txt('ks', 2))} {q(txt('fn', 1))} [{q(txt('arg0_', 1))}, {q(txt('arg1_', 0))}]", 1
    if name == "WriteFailure": return f"WriteFailure {cl()} {_s32(g('received'))} {_s32(g('required'))} {_s32(g('numfailures'))} Cas", 1
    if name == "AlreadyExists": return f"AlreadyExists {q(txt('ks', 2))} {q(txt('tb', 0))}", 0
    if name == "Unprepared": return "Unprepared " + bytes((m.get(f"sid{i}") or 0) & 0xff for i in range(3)).hex(), 1
    if name == "RateLimit":
        op = g("op_type") & 0xff
        return f"RateLimitReached {['Read', 'Write'][op] if op < 2 else 'Other(%d)' % op} {str(bool(g('rejected') & 0xff)).lower()}", 1
    if name == "Other": return f"Other {_s32(g('code') & 0xffffffff)}", 1
    raise KeyError(name)


def replay_bodies(m, reg, truncated=False):
    """native: the model's concrete bodies through the real Error::deserialize, rendered canonically and compared with the intended value"""
    from . import native
    nat = native.Native("core")
    cs, _ = cases(reg)
    bad = []
    m = dict(m)
    for name, body, reason, rate, check in cs:
        # keep the model inside the preconditions: ASCII text, a valid consistency level, an unknown code for `Other`
        for v in body.inputs:
            k = str(v)
            if v.size() == 8 and not k.startswith(("data_present", "op_type", "rejected", "sid")):
                m[k] = (m.get(k) or 0x61) & 0x7f or 0x61
                if m[k] in (0x22, 0x5c) or m[k] < 0x20 or m[k] == 0x7f: m[k] = 0x61
            if k.startswith("cl_"): m[k] = (m.get(k) or 0) % 11
            if k == "code_Other" and (m.get(k) or 0) in (0, 0xA, 0x100, 0x1000, 0x1001, 0x1002, 0x1003, 0x1100, 0x1200, 0x1300, 0x1400, 0x1500, 0x2000, 0x2100, 0x2200, 0x2300, 0x2400, 0x2500):
                m[k] = 0x7777
        data = _concrete_body(m, body)
        if truncated:
            for t in range(len(data)):
                if name == "Other" and t >= 4 + 2 + len(reason):
                    continue
                got = nat.ask(f"errbody {rate if rate is not None else '-'} {data[:t].hex() or '-'}")
                if got != "ERR":
                    bad.append({"case": name, "prefix_len": t, "body": data[:t].hex(), "native": got[:200], "expected": "ERR"})
        else:
            got = nat.ask(f"errbody {rate if rate is not None else '-'} {data.hex()}")
            exp, rl = _expected(name, m)
            rtxt = "".join(chr(m.get(f"reason{i}_{name}") or 0x61) for i in range(len(reason)))
            want = f'OK {exp} reason="{rtxt}"'
            if got != want:
                bad.append({"case": name, "body": data.hex(), "native": got[:300], "expected": want[:300]})
    nat.close()
    return native.record("C08", "error_bodies" + ("_truncated" if truncated else ""), {"mismatches": bad[:6]}, bool(bad))
