"""C09 (second half) — engine S: EXECUTE, PREPARE, OPTIONS, AUTH_RESPONSE, STARTUP, REGISTER and BATCH frames.

Each request's `SerializableRequest::serialize` (MIR of scylla-cql/src/frame/request/*.rs) is executed under
`SerializedRequest::make` into the byte-sink model and compared with an independent CQL v4 encoding of the same request
(native_protocol_v4 §4.1.1-4.1.8).  BATCH is instantiated with Statement = BatchStatement and Values = Vec<SerializedValues>
(the impls in serialize/raw_batch.rs are executed from MIR too)."""
import itertools
import z3
from mir2smt import mir, stdmodels as sm, itermodels as im
from mir2smt.mir import Int, Bool, Tup, Enum, Ref, Cell, Seq, Opaque, Unit
from . import smt_c09 as q

LIB = q.LIB + ("; additionally: eager/lazy iterator adaptors (slice::iter, enumerate, map by the closure's MIR, collect, next), Option::map/as_ref, "
               "HashMap as a sequence of entries in an arbitrary but fixed iteration order (len, iter, next), Cow/CowBytes/Bytes/String deref = the "
               "underlying bytes, AsRef identity, ToString = the text handed to Formatter::write_fmt by the Display impl's MIR (single `{}` template), "
               "error constructors opaque")
bv, be_bytes, opt = q.bv, q.be_bytes, q.opt


def slice_of(it, bs):
    return sm.mk_slice(it, Ref(Cell(Seq([Int(b, 8, False) for b in bs]))), 0, len(bs))


def as_slice(it, v):
    """whatever stands for bytes / text in these models -> a byte Slice"""
    for _ in range(4):
        if isinstance(v, Ref):
            v = sm.deref(v)
        else:
            break
    if isinstance(v, Tup) and v.name == "Slice":
        return v
    if isinstance(v, Seq):
        return sm.mk_slice(it, Ref(Cell(v)), 0, len(v.items))
    if isinstance(v, Opaque) and v.name.startswith('str:"'):
        text = v.name[5:-1].encode()
        return slice_of(it, [bv(b, 8) for b in text])
    raise mir.Unsupported(f"cannot view {str(v)[:80]} as bytes")


def m_as_slice(it, p, callee, args):
    return as_slice(it, args[0])


def m_option_as_ref(it, p, callee, args):
    o = sm.deref(args[0])
    d = z3.simplify(o.discr.t).as_long()
    if d == 0:
        return sm.none(it)
    return sm.some(it, Ref(Cell(o.payloads[1].f[0])))


def m_option_map(it, p, callee, args):
    o, clo = args
    d = z3.simplify(o.discr.t)
    if not z3.is_bv_value(d):
        raise mir.Unsupported("Option::map on a symbolic Option")
    if d.as_long() == 0:
        return sm.none(it)
    target = sm.find_closure(it, callee)
    res = it.call_mir(target, p, [clo, o.payloads[1].f[0]])
    return [(pp, (v if v is mir.PANIC else sm.some(it, v))) for pp, v in res]


def m_to_string(it, p, callee, args):
    """<T as ToString>::to_string through T's Display impl: the Formatter is a recorder"""
    ty = callee.split(" as ToString")[0].lstrip("<")
    target = it.mir.find_by_callee(f"<{ty} as Display>::fmt")
    key, rec_ref = im.stash(p, Seq([]))         # reachable from the path, so it follows forks/merges inside the callee
    res = it.call_mir(target, p, [args[0], rec_ref])
    if len(res) != 1 or res[0][1] is mir.PANIC:
        raise mir.Unsupported("Display::fmt does not run on a single returning path")
    pp, _ = res[0]
    items = im.unstash(pp, key).items
    if len(items) != 1:
        raise mir.Unsupported("Display impl wrote other than exactly one piece")
    return [(pp, items[0])]


def m_fmt_arguments_new(it, p, callee, args):
    tpl = args[0]
    if not (isinstance(tpl, Opaque) and tpl.name in ('bytes:b"\\xc0\\x00"',)):
        raise mir.Unsupported(f"format template other than a single `{{}}`: {tpl}")
    arr = sm.deref(args[1])
    return Tup(list(sm.elems(arr)), "FmtArguments")


def m_write_fmt(it, p, callee, args):
    rec = sm.deref(args[0])
    for a in args[1].f:
        v = a.f[0]
        for _ in range(3):
            if isinstance(v, Ref):
                v = sm.deref(v)
        rec.items.append(v)
    return Enum(it.const_int(0, "isize"), {0: Tup([Unit()])}, sm.RESULT, "Result")


def models(extra=None):
    m = {}
    m.update(im.ITER_MODELS)
    m.update(q.models())
    m[r"^<CowBytes<'_> as AsRef<\[u8\]>>::as_ref$"] = m_as_slice
    m[r"^<impl AsRef<(\[u8\]|str)> as AsRef<(\[u8\]|str)>>::as_ref$"] = m_as_slice
    m[r"^<Cow<'_, (str|\[u8\])> as Deref>::deref$"] = m_as_slice
    m[r"^<(String|bytes::Bytes) as Deref>::deref$"] = m_as_slice
    m[r"^<\[u8\] as Index<RangeFull>>::index$"] = sm.m_identity
    m[r"^Option::<.*>::as_ref$"] = m_option_as_ref
    m[r"^Option::<.*>::map::<"] = m_option_map
    m[r"^Option::<.*>::filter::<"] = sm.m_option_filter
    m[r"core::slice::<impl \[u8\]>::(len|is_empty)$"] = lambda it, p, c, a: (it.const_int(sm.slice_parts(as_slice(it, a[0]))[2], "usize") if c.endswith("len")
                                                                           else Bool(z3.BoolVal(sm.slice_parts(as_slice(it, a[0]))[2] == 0)))
    m[r"^core::str::<impl str>::len$"] = lambda it, p, c, a: a[0].f[2]
    m[r"^<Cow<'_, \[Statement\]> as Deref>::deref$"] = lambda it, p, c, a: sm.mk_slice(it, a[0], 0, len(sm.elems(sm.deref(a[0]))))
    m[r"^<BatchStatement<'_> as From<&Statement>>::from$"] = lambda it, p, c, a: mir.copy_value(sm.deref(a[0]))
    m[r"^<Vec<.*> as Deref>::deref$"] = lambda it, p, c, a: a[0]
    m[r"^<Vec<u8> as Deref>::deref$"] = lambda it, p, c, a: sm.mk_slice(it, a[0], 0, len(sm.elems(sm.deref(a[0]))))
    m[r"^HashMap::<.*>::len$"] = lambda it, p, c, a: it.const_int(len(sm.deref(a[0]).items), "usize")
    m[r"^HashMap::<.*>::iter$"] = lambda it, p, c, a: im.eager([Tup([Ref(a[0].cell, tuple(a[0].path) + (("index_const", i), ("field", 0))),
                                                                        Ref(a[0].cell, tuple(a[0].path) + (("index_const", i), ("field", 1)))])
                                                                   for i in range(len(sm.deref(a[0]).items))])
    m[r"^<std::collections::hash_map::Iter<.*> as IntoIterator>::into_iter$"] = sm.m_identity
    m[r"^<std::collections::hash_map::Iter<.*> as Iterator>::next$"] = im.m_next
    m[r"^<std::slice::Iter<'_, \w+> as Iterator>::count$"] = lambda it, p, c, a: it.const_int(len(im.eager_rest(a[0])), "usize")
    m[r"^<\w+ as ToString>::to_string$"] = m_to_string
    m[r"^core::fmt::rt::Argument::<'_>::new_display::<"] = lambda it, p, c, a: Tup([a[0]], "FmtArg")
    m[r"^Arguments::<'_>::new::<2, 1>$"] = m_fmt_arguments_new
    m[r"^Formatter::<'_>::write_fmt$"] = m_write_fmt
    m[r"^<\{closure@.*\} as Fn<.*>>::call$"] = sm.m_opaque("error-from-closure")
    m[r"^Option::<.*>::ok_or_else::<"] = m_ok_or_else
    m[r"^<Values as RawBatchValues>::batch_values_iter$"] = lambda it, p, c, a: it.call_mir(it.mir.find(r"raw_batch\.rs[^>]*>::batch_values_iter\(_1: &Vec<SerializedValues>"), p, a)
    for meth in ("serialize_next", "skip_next", "count"):
        m[r"^<<Values as RawBatchValues>::RawBatchValuesIter<'_> as RawBatchValuesIterator<'_>>::" + meth + "$"] = \
            (lambda it, p, c, a, meth=meth: it.call_mir(it.mir.find(r"raw_batch\.rs[^>]*>::" + meth + r"\(_1: (&mut )?std::slice::Iter<'_, SerializedValues>"), p, a))
    m[r"^Vec::<SerializedValues>::iter$"] = im.m_slice_iter
    consts = dict(m.get("__consts__", {})); consts["RangeFull"] = Opaque("RangeFull")
    if extra:
        consts.update(extra.get("__consts__", {}))
        m.update(extra)
    m["__consts__"] = consts
    return m


def m_ok_or_else(it, p, callee, args):
    o = args[0]
    d = z3.simplify(o.discr.t)
    if not z3.is_bv_value(d):
        raise mir.Unsupported("ok_or_else on a symbolic Option")
    if d.as_long() == 1:
        return Enum(it.const_int(0, "isize"), {0: o.payloads[1]}, sm.RESULT, "Result")
    return Enum(it.const_int(1, "isize"), {1: Tup([Opaque("error-from-closure")])}, sm.RESULT, "Result")


INLINE = q.INLINE + [r"(^|::)write_(short_bytes|string|string_list|string_map|bytes_opt|long_string)(::<.*>)?$", r"(^|::)serialize_batch_statement(::<.*>)?$",
                     r"(^|::)RowWriter::<'_>::(new|value_count|append_serialize_row)$", r"do_serialize$", r"(^|::)frame::types::write_int(::<.*>)?$",
                     r"(^|::)SerializedValues::(element_count|is_empty|get_contents)$"]


def make_frame(mf, reg, ser_header_re, opcode, req, tracing, pre, compressed=False, tag=""):
    ro = reg.get("RequestOpcode")
    ser = mf.find(ser_header_re)
    def r_serialize(it, p, callee, args):
        return it.call_mir(ser, p, args)
    def r_to_bytes(it, p, callee, args):
        return Enum(it.const_int(0, "isize"), {0: Tup([Opaque("Bytes")])}, sm.RESULT, "Result")
    def compress_append(it, p, callee, args):
        sm.sink_items(args[2]).extend([Int(z3.BitVec(f"cz{i}{tag}", 8), 8, False) for i in range(3)])
        return Enum(it.const_int(0, "isize"), {0: Tup([Unit()])}, sm.RESULT, "Result")
    extra = {r"^<R as SerializableRequest>::serialize$": r_serialize, r"^<R as SerializableRequest>::to_bytes$": r_to_bytes,
             r"^compress_append$": compress_append, r"^<bytes::Bytes as Deref>::deref$": lambda it, p, c, a: Opaque("bytes"),
             "__consts__": {"<R as frame::request::SerializableRequest>::OPCODE": Enum(Int(bv(ro.discr(opcode), 64), 64, True), {}, ro.variant_map(), ro.name)}}
    it = mir.Interp(mf, mir.BVBackend(), models(extra), inline=INLINE, registry=reg, max_steps=20000)
    make = mf.find(r"frame/mod\.rs[^>]*>::make\(_1: &R")
    comp = opt(None, compressed, Enum(Int(bv(0, 64), 64, True), {}, {"Lz4": 0, "Snappy": 1}, "Compression"))
    return it, make, comp


def frame_goals(paths, ro_val, body, tracing, expect_ok=True, compressed=False):
    goals = []
    flags = z3.If(tracing, bv(0x02, 8), bv(0, 8)) | bv(0x01 if compressed else 0, 8)
    spec = [bv(4, 8), flags, bv(0, 8), bv(0, 8), bv(ro_val, 8)] + be_bytes(bv(len(body), 32), 4) + body
    cover = []
    for p in paths:
        pc = z3.And(p.pc) if p.pc else z3.BoolVal(True)
        if p.outcome[0] != "return":
            goals.append(z3.Not(pc)); continue
        cover.append(pc)
        r = p.outcome[1]
        if not expect_ok:
            goals.append(z3.Implies(pc, r.discr.t == 1)); continue
        data = r.payloads[0].f[0].f[0] if 0 in r.payloads else None
        conj = [r.discr.t == 0]
        if data is None or len(data.items) != len(spec):
            conj.append(z3.BoolVal(False))
        else:
            conj += [a.t == b for a, b in zip(data.items, spec)]
        goals.append(z3.Implies(pc, z3.And(conj)))
    goals.append(z3.Or(cover) if cover else z3.BoolVal(False))
    return z3.And(goals)


def run_make(mf, reg, ser_re, opcode, build, pre, tag, compressed=False):
    """build(it) -> (request value, body spec, inputs)"""
    tracing = z3.Bool("tracing" + tag)
    it, make, comp = make_frame(mf, reg, ser_re, opcode, None, tracing, pre, compressed, tag)
    req, body, inputs = build(it)
    paths = it.run(make, [Ref(Cell(req)), comp, Bool(tracing)], pre)
    return paths, body, inputs + [tracing], tracing


# ------------------------------------------------------------------------------------------------ simple requests
def simple_requests(ctx, mf, reg, tier):
    ro = reg.get("RequestOpcode")
    goals, inputs, pre = [], [], []
    n = 0
    # PREPARE: [long string]
    for L in (0, 3):
        def build(it, L=L):
            text = [z3.BitVec(f"pq{i}_{L}", 8) for i in range(L)]
            return Tup([q.text_slice(it, text)], "Prepare"), be_bytes(bv(L, 32), 4) + text, text
        paths, body, ins, tr = run_make(mf, reg, r"prepare\.rs[^>]*>::serialize\(", "Prepare", build, pre, f"_p{L}")
        goals.append(frame_goals(paths, ro.discr("Prepare"), body, tr)); inputs += ins; n += 1
    # OPTIONS: empty body
    paths, body, ins, tr = run_make(mf, reg, r"options\.rs[^>]*>::serialize\(", "Options", lambda it: (Tup([], "Options"), [], []), pre, "_o")
    goals.append(frame_goals(paths, ro.discr("Options"), body, tr)); inputs += ins; n += 1
    # AUTH_RESPONSE: [bytes] (None -> -1)
    for L in (None, 0, 2):
        def build(it, L=L):
            bs = [z3.BitVec(f"au{i}_{L}", 8) for i in range(L or 0)]
            resp = opt(None, L is not None, Seq([Int(b, 8, False) for b in bs]))
            body = [bv(0xff, 8)] * 4 if L is None else be_bytes(bv(L, 32), 4) + bs
            return Tup([resp], "AuthResponse"), body, bs
        paths, body, ins, tr = run_make(mf, reg, r"auth_response\.rs[^>]*>::serialize\(", "AuthResponse", build, pre, f"_a{L}")
        goals.append(frame_goals(paths, ro.discr("AuthResponse"), body, tr)); inputs += ins; n += 1
    # STARTUP: [string map]
    for nent in (0, 1, 2):
        def build(it, nent=nent):
            ents, body, ins = [], be_bytes(bv(nent, 16), 2), []
            for e in range(nent):
                k = [z3.BitVec(f"sk{e}_{i}_{nent}", 8) for i in range(2)]
                v = [z3.BitVec(f"sv{e}_{i}_{nent}", 8) for i in range(e)]
                ents.append(Tup([q.text_slice(it, k), q.text_slice(it, v)]))
                body += be_bytes(bv(len(k), 16), 2) + k + be_bytes(bv(len(v), 16), 2) + v
                ins += k + v
            return Tup([Seq(ents)], "Startup"), body, ins
        paths, body, ins, tr = run_make(mf, reg, r"startup\.rs[^>]*>::serialize\(", "Startup", build, pre, f"_s{nent}")
        goals.append(frame_goals(paths, ro.discr("Startup"), body, tr)); inputs += ins; n += 1
    # REGISTER: [string list] of event type names
    ev = reg.get("EventTypeV2")
    names = {"TopologyChange": b"TOPOLOGY_CHANGE", "StatusChange": b"STATUS_CHANGE", "SchemaChange": b"SCHEMA_CHANGE", "ClientRoutesChange": b"CLIENT_ROUTES_CHANGE"}
    lists = [[], ["TopologyChange", "StatusChange", "SchemaChange"], ["SchemaChange"], ["ClientRoutesChange", "TopologyChange"]]
    for k, lst in enumerate(lists):
        def build(it, lst=lst):
            evs = Seq([Enum(Int(bv(ev.discr(x), 64), 64, True), {}, ev.variant_map(), ev.name) for x in lst])
            body = be_bytes(bv(len(lst), 16), 2)
            for x in lst:
                body += be_bytes(bv(len(names[x]), 16), 2) + [bv(c, 8) for c in names[x]]
            return Tup([evs], "RegisterV2"), body, []
        paths, body, ins, tr = run_make(mf, reg, r"register\.rs[^>]*>::serialize\(_1: &RegisterV2", "Register", build, pre, f"_r{k}")
        goals.append(frame_goals(paths, ro.discr("Register"), body, tr)); inputs += ins; n += 1
    ctx.prove("c09_prepare_options_auth_startup_register_frames", pre, z3.And(goals), inputs=inputs,
              functions="SerializedRequest::make::<R> for R in {Prepare, Options, AuthResponse, Startup, RegisterV2}; their serialize impls; "
                        "types::write_{long_string,bytes_opt,string_map,string_list,string,short_length,int_length}; <EventTypeV2 as Display>::fmt "
                        "[scylla-cql/src/frame/{mod.rs,types.rs,server_event_type.rs,request/*.rs}]",
              bounds=f"{n} request shapes: PREPARE with 0/3-byte statement; OPTIONS; AUTH_RESPONSE with no token / empty / 2-byte token; STARTUP with 0..2 options "
                     "(keys 2 bytes, values 0..1 bytes); REGISTER with 0..3 event types in 4 orders; all text / token bytes and the tracing flag symbolic; header = "
                     "version 4, flags = tracing bit, stream 0, the request's opcode, length = body size",
              backend="BV", assumes=LIB, outside="lengths above; compressed bodies; legacy Register (same code over the 3-variant EventType)",
              replay=lambda m: replay_simple(m))


# ------------------------------------------------------------------------------------------------ EXECUTE
def execute_frames(ctx, mf, reg, tier):
    ro = reg.get("RequestOpcode")
    goals, inputs, pre = [], [], []
    shapes = [(2, None, dict(values=0, cells=[], page=True, paging=None, serial=False, ts=True)),
              (16, 2, dict(values=2, cells=["null", "val"], page=False, paging=2, serial=True, ts=False)),
              (0, 0, dict(values=1, cells=["unset"], page=False, paging=None, serial=False, ts=False))]
    for k, (idlen, midlen, shape) in enumerate(shapes):
        def build(it, k=k, idlen=idlen, midlen=midlen, shape=shape):
            sid = [z3.BitVec(f"id{i}_{k}", 8) for i in range(idlen)]
            mid = [z3.BitVec(f"mid{i}_{k}", 8) for i in range(midlen or 0)]
            params, pspec, pin = q.build_params(it, reg, pre, shape, tag=f"_e{k}")
            req = Tup([slice_of(it, sid), opt(None, midlen is not None, slice_of(it, mid)), params], "ExecuteV2")
            body = be_bytes(bv(idlen, 16), 2) + sid
            if midlen is not None:
                body += be_bytes(bv(midlen, 16), 2) + mid
            return req, body + pspec, pin + sid + mid
        paths, body, ins, tr = run_make(mf, reg, r"execute\.rs[^>]*>::serialize\(_1: &ExecuteV2<", "Execute", build, pre, f"_e{k}")
        goals.append(frame_goals(paths, ro.discr("Execute"), body, tr)); inputs += ins
    # legacy Execute { id: Bytes, parameters }
    def build(it):
        sid = [z3.BitVec(f"lid{i}", 8) for i in range(3)]
        params, pspec, pin = q.build_params(it, reg, pre, dict(values=1, cells=["val"], page=True, paging=0, serial=True, ts=True), tag="_el")
        return Tup([slice_of(it, sid), params], "Execute"), be_bytes(bv(3, 16), 2) + sid + pspec, pin + sid
    paths, body, ins, tr = run_make(mf, reg, r"execute\.rs[^>]*>::serialize\(_1: &execute::Execute<", "Execute", build, pre, "_el")
    goals.append(frame_goals(paths, ro.discr("Execute"), body, tr)); inputs += ins
    ctx.prove("c09_execute_frames_id_metadata_id_parameters", pre, z3.And(goals), inputs=inputs,
              functions="SerializedRequest::make::<ExecuteV2 | Execute>, ExecuteV2::serialize, Execute::serialize, types::write_short_bytes, QueryParameters::serialize",
              bounds="EXECUTE: statement id of 0 / 2 / 16 bytes, result-metadata id absent / empty / 2 bytes (written only when present, between id and parameters), "
                     "3 parameter shapes incl. null / unset / value cells, paging state, serial consistency, timestamp; legacy Execute with a 3-byte id; all bytes "
                     "and scalars symbolic; header as for QUERY with opcode 0x0A",
              backend="BV", assumes=LIB, outside="ids longer than 16 bytes (refusal above 65535: c09_write_short_length_*), compressed bodies",
              replay=lambda m: replay_execute(m))


# ------------------------------------------------------------------------------------------------ BATCH
def batch_value(it, reg, k, stmts, lists, serial, ts, pre):
    """stmts: list of ('q', textlen) | ('p', idlen); lists: per value list a list of cell kinds"""
    bt = reg.get("BatchType"); bs = reg.get("BatchStatement")
    btd = z3.BitVec(f"batch_type_{k}", 64)
    pre.append(z3.Or([btd == v for _, v, _ in bt.variants]))
    cons, cd = q.sym_consistency(reg, f"bcons_{k}", pre)
    sc = reg.get("SerialConsistency")
    scd = z3.BitVec(f"bserial_{k}", 64)
    pre.append(z3.Or([scd == v for _, v, _ in sc.variants]))
    tsv = z3.BitVec(f"bts_{k}", 64)
    inputs = [btd, cd, scd, tsv]
    svals, sspec = [], []
    for i, (kind, L) in enumerate(stmts):
        bsx = [z3.BitVec(f"bs{i}_{j}_{k}", 8) for j in range(L)]
        inputs += bsx
        if kind == "q":
            svals.append(Enum(Int(bv(bs.discr("Query"), 64), 64, True), {bs.discr("Query"): Tup([slice_of(it, bsx)])}, bs.variant_map(), bs.name))
            sspec.append([bv(0, 8)] + be_bytes(bv(L, 32), 4) + bsx)
        else:
            svals.append(Enum(Int(bv(bs.discr("Prepared"), 64), 64, True), {bs.discr("Prepared"): Tup([slice_of(it, bsx)])}, bs.variant_map(), bs.name))
            sspec.append([bv(1, 8)] + be_bytes(bv(L, 16), 2) + bsx)
    vvals, vspec = [], []
    for i, cells in enumerate(lists):
        data = []
        for j, kind in enumerate(cells):
            if kind == "null": data += [bv(0xff, 8)] * 4
            elif kind == "unset": data += [bv(0xff, 8)] * 3 + [bv(0xfe, 8)]
            else:
                x = z3.BitVec(f"bv{i}_{j}_{k}", 8); inputs.append(x)
                data += [bv(0, 8), bv(0, 8), bv(0, 8), bv(1, 8), x]
        vvals.append(Tup([Seq([Int(b, 8, False) for b in data]), Int(bv(len(cells), 16), 16, False)], "SerializedValues"))
        vspec.append(be_bytes(bv(len(cells), 16), 2) + data)
    req = Tup([Seq(svals), Enum(Int(btd, 64, True), {}, bt.variant_map(), bt.name), cons,
               opt(None, serial, Enum(Int(scd, 64, True), {}, sc.variant_map(), sc.name)), opt(None, ts, Int(tsv, 64, True)), Seq(vvals)], "Batch")
    body = [z3.Extract(7, 0, btd)] + be_bytes(bv(len(stmts), 16), 2)
    for i in range(len(stmts)):
        body += sspec[i] + (vspec[i] if i < len(vspec) else [])
    flags = (0x10 if serial else 0) | (0x20 if ts else 0)
    body += be_bytes(z3.Extract(15, 0, cd), 2) + [bv(flags, 8)]
    if serial: body += be_bytes(z3.Extract(15, 0, scd), 2)
    if ts: body += be_bytes(tsv, 8)
    return req, body, inputs


def batch_shapes(tier):
    out = [([], [], False, False), ([("q", 2)], [["val"]], True, True), ([("p", 3), ("q", 0)], [[], ["null", "val"]], False, True),
           ([("q", 1), ("p", 16), ("p", 0)], [["unset"], [], ["val", "val"]], True, False)]
    if tier == "thorough":
        out += [([("p", 2)] * 4, [["val"], [], ["null"], ["unset", "val"]], False, False), ([("q", 3), ("q", 3)], [[], []], True, True)]
    return out


def mismatch_shapes():
    return [([("q", 1)], []), ([("q", 1), ("p", 2)], [["val"]]), ([], [[]]), ([("p", 2)], [["val"], []]), ([("p", 2)], [[], ["val"], ["null"]])]


def batch_frames(ctx, mf, reg, tier):
    ro = reg.get("RequestOpcode")
    goals, inputs, pre = [], [], []
    ser = r"batch\.rs[^>]*>::serialize\(_1: &frame::request::batch::Batch<"
    for k, (stmts, lists, serial, ts) in enumerate(batch_shapes(tier)):
        def build(it, k=k, stmts=stmts, lists=lists, serial=serial, ts=ts):
            return batch_value(it, reg, k, stmts, lists, serial, ts, pre)
        paths, body, ins, tr = run_make(mf, reg, ser, "Batch", build, pre, f"_b{k}")
        goals.append(frame_goals(paths, ro.discr("Batch"), body, tr)); inputs += ins
    ctx.prove("c09_batch_frames_statements_values_flags", pre, z3.And(goals), inputs=inputs,
              functions="SerializedRequest::make::<Batch<BatchStatement, Vec<SerializedValues>>>, Batch::{serialize,do_serialize}, serialize_batch_statement, "
                        "RowWriter::{new,append_serialize_row,value_count}, <Vec<SerializedValues> as RawBatchValues>, <slice::Iter<SerializedValues> as RawBatchValuesIterator> "
                        "[scylla-cql/src/frame/request/batch.rs, serialize/raw_batch.rs, scylla-cql-core/src/serialize/writers.rs]",
              bounds=f"{len(batch_shapes(tier))} batch shapes: 0..3 (thorough 4) statements mixing unprepared (long string) and prepared (short bytes id, 0..16 bytes), value lists "
                     "of 0..2 cells (null / unset / 1-byte value) with the per-statement count patched in, every batch type, consistency, optional serial consistency "
                     "and timestamp (flags 0x10 / 0x20), all bytes and scalars symbolic; header opcode 0x0D",
              backend="BV", assumes=LIB, outside="more statements / cells; > 65535 statements or values (refusal paths: TooManyStatements / TooManyValues)",
              replay=lambda m, tier=tier: replay_batch(m, tier))
    goals, inputs, pre = [], [], []
    for k, (stmts, lists) in enumerate(mismatch_shapes()):
        def build(it, k=k, stmts=stmts, lists=lists):
            return batch_value(it, reg, 100 + k, stmts, lists, False, False, pre)
        paths, body, ins, tr = run_make(mf, reg, ser, "Batch", build, pre, f"_bm{k}")
        goals.append(frame_goals(paths, ro.discr("Batch"), body, tr, expect_ok=False)); inputs += ins
    ctx.prove("c09_batch_value_list_count_mismatch_is_refused", pre, z3.And(goals), inputs=inputs,
              functions="Batch::do_serialize (ValuesAndStatementsLengthMismatch in both directions)",
              bounds=f"{len(mismatch_shapes())} shapes with fewer or more value lists than statements (0..2 statements, 0..3 lists): the request is refused (Err), no frame is produced",
              backend="BV", assumes=LIB, witness=False, replay=lambda m: replay_batch_mismatch(m))


PROTOCOL_CODES = {
    "Consistency": {"Any": 0, "One": 1, "Two": 2, "Three": 3, "Quorum": 4, "All": 5, "LocalQuorum": 6, "EachQuorum": 7, "Serial": 8, "LocalSerial": 9, "LocalOne": 10},
    "SerialConsistency": {"Serial": 8, "LocalSerial": 9},
    "BatchType": {"Logged": 0, "Unlogged": 1, "Counter": 2},
    "RequestOpcode": {"Startup": 0x01, "Options": 0x05, "Query": 0x07, "Prepare": 0x09, "Execute": 0x0A, "Register": 0x0B, "Batch": 0x0D, "AuthResponse": 0x0F},
}


def wire_codes(ctx, mf, reg, tier):
    """the frame obligations take the numeric value of an enum variant from the CURRENT source (that is what the compiled code writes); this one pins those
    values to the protocol's tables, so that renumbering a variant is a violation rather than something the other obligations follow along with"""
    goals, details = [], []
    for ename, table in PROTOCOL_CODES.items():
        ed = reg.get(ename)
        if ed is None:
            raise mir.Unsupported("enum " + ename + " not found in the sources")
        names = {n for n, _, _ in ed.variants}
        goals.append(z3.BoolVal(names == set(table)))
        for n, v, _ in ed.variants:
            goals.append(z3.BoolVal(table.get(n) == v)); details.append(f"{ename}::{n}={v}")
    # and the conversion that actually writes a consistency level: write_consistency for every level
    sel = z3.BitVec("consistency_selector", 8)
    ed = reg.get("Consistency")
    d = bv(0, 64); want = bv(0xffff, 16)
    for i, (n, v, _) in enumerate(ed.variants):
        d = z3.If(sel == i, bv(v, 64), d); want = z3.If(sel == i, bv(PROTOCOL_CODES["Consistency"].get(n, 0xffff), 16), want)
    pre = [z3.ULT(sel, len(ed.variants))]
    it = mir.Interp(mf, mir.BVBackend(), q.models(), inline=q.INLINE, registry=reg, max_steps=2000)
    sink = Cell(Seq([]))
    paths = it.run(mf.find(r"(^|::)write_consistency\("), [Enum(Int(d, 64, True), {}, ed.variant_map(), ed.name), Ref(sink)], pre)
    for p in paths:
        pc = z3.And(p.pc) if p.pc else z3.BoolVal(True)
        if p.outcome[0] != "return":
            goals.append(z3.Not(pc)); continue
        items = sm.deref(p.locals[2].v).items
        goals.append(z3.Implies(pc, z3.And(z3.BoolVal(len(items) == 2), z3.Concat(items[0].t, items[1].t) == want) if len(items) == 2 else z3.BoolVal(False)))
    ctx.prove("c09_enum_wire_codes_match_the_protocol_tables", pre, z3.And(goals), inputs=[sel],
              functions="enum definitions Consistency / SerialConsistency / BatchType / RequestOpcode (variant values as compiled), types::write_consistency",
              bounds="every variant of the four enums whose numeric value goes on the wire: the value in the current source equals the CQL v4 code, no variant is missing or extra; "
                     "write_consistency writes that code big-endian for every level (symbolic selector)",
              backend="BV", assumes=LIB, witness=False, replay=lambda m: replay_codes())


def replay_codes():
    from . import native
    nat = native.Native("core")
    got = nat.ask("wirecodes")
    nat.close()
    want = " ".join(f"{e}::{n}={v}" for e, t in PROTOCOL_CODES.items() for n, v in t.items())
    return native.record("C09", "wire_codes", {"native": got, "expected": want}, got != want)


def batch_value_count(ctx, mf, reg, tier):
    """the per-statement [short] value count is range-checked, never truncated: a value list that writes n cells (n an arbitrary usize, chosen by the
    environment: the list's serialize_next is abstract here) is refused when n > 65535 and otherwise announced as exactly n"""
    ro = reg.get("RequestOpcode")
    n = z3.BitVec("cells_written_by_the_list", 64)
    pre = []
    def build(it):
        return batch_value(it, reg, 200, [("p", 2)], [[]], False, False, pre)
    def abstract_next(it, p, callee, args):
        rw = sm.deref(args[1])
        rw.f[1] = Int(n, 64, False)
        return sm.some(it, Enum(it.const_int(0, "isize"), {0: Tup([Unit()])}, sm.RESULT, "Result"))
    tracing = z3.Bool("tracing_bvc")
    itp, make, comp = make_frame(mf, reg, r"batch\.rs[^>]*>::serialize\(_1: &frame::request::batch::Batch<", "Batch", None, tracing, pre, False, "_bvc")
    # the first list's serialize_next is the abstract one; skip_next / count keep the real impl
    real = itp.models[r"^<<Values as RawBatchValues>::RawBatchValuesIter<'_> as RawBatchValuesIterator<'_>>::serialize_next$"]
    state = {"first": True}
    def serialize_next(it, p, callee, args):
        return abstract_next(it, p, callee, args)
    itp.models = {**{r"^<<Values as RawBatchValues>::RawBatchValuesIter<'_> as RawBatchValuesIterator<'_>>::serialize_next$": None}, **itp.models}
    itp.models[r"^<<Values as RawBatchValues>::RawBatchValuesIter<'_> as RawBatchValuesIterator<'_>>::serialize_next$"] = serialize_next
    req, body, inputs = build(itp)
    # the abstract list consumes no entry of the Vec: hand the batch an empty Vec so that nothing is left over afterwards
    req.f[5] = Seq([])
    paths = itp.run(make, [Ref(Cell(req)), comp, Bool(tracing)], pre)
    goals, cover = [], []
    for p in paths:
        pc = z3.And(p.pc[len(pre):]) if len(p.pc) > len(pre) else z3.BoolVal(True)
        if p.outcome[0] != "return":
            goals.append(z3.Not(pc)); continue
        cover.append(pc)
        r = p.outcome[1]
        fits = z3.ULE(n, 65535)
        conj = [(r.discr.t == 0) == fits]
        if 0 in r.payloads:
            data = r.payloads[0].f[0].f[0].items
            # header(9) type(1) n_statements(2) kind(1) idlen(2) id(2) -> count at offset 17
            if len(data) >= 19:
                conj.append(z3.Implies(fits, z3.Concat(data[17].t, data[18].t) == z3.Extract(15, 0, n)))
            else:
                conj.append(z3.Not(fits))
        goals.append(z3.Implies(pc, z3.And(conj)))
    goals.append(z3.Or(cover) if cover else z3.BoolVal(False))
    ctx.prove("c09_batch_value_count_is_range_checked_not_truncated", pre, z3.And(goals), inputs=[n],
              functions="Batch::do_serialize (count patch-back) [scylla-cql/src/frame/request/batch.rs], RowWriter::value_count",
              bounds="a one-statement batch whose value list reports ANY number of written cells (all 2^64 values, the list itself abstract): refused iff the number exceeds 65535, otherwise the "
                     "[short] count in the frame is exactly that number",
              backend="BV", assumes=LIB + "; the value list's serialize_next is abstract (sets the writer's cell count to an arbitrary number, writes no bytes)", witness=False,
              replay=lambda m: replay_value_count(m))


def replay_value_count(m):
    from . import native
    nat = native.Native("core")
    n = (m.get("cells_written_by_the_list") or 0) & ((1 << 64) - 1)
    bad = []
    for k in sorted({min(n, 70000), 65535, 65536}):
        got = nat.ask(f"req batchcount 0 {k}")
        want = "ERR" if k > 65535 else f"count={k}"
        if got != want: bad.append({"cells": k, "native": got, "expected": want})
    nat.close()
    return native.record("C09", "batch_value_count", {"mismatches": bad, "model_cells": n}, bool(bad))


def run(ctx, mf, reg, tier):
    for name, f in (("wire_codes", wire_codes), ("simple_requests", simple_requests), ("execute_frames", execute_frames), ("batch_frames", batch_frames), ("batch_value_count", batch_value_count)):
        try:
            f(ctx, mf, reg, tier)
        except mir.Unsupported as e:
            ctx.add(name=f"smt:c09_translate_{name}", engine="smt:mir2smt", status="inconclusive",
                    reason="translator rejected the current source: " + str(e), functions="scylla-cql/src/frame/request/")
        except (AttributeError, KeyError, IndexError, TypeError, ValueError) as e:
            ctx.add(name=f"smt:c09_translate_{name}", engine="smt:mir2smt", status="inconclusive",
                    reason=f"translator failed on the current source ({type(e).__name__}: {e})", functions="scylla-cql/src/frame/request/")


# ------------------------------------------------------------------------------------------------ native replays
def _hdr_ok(g, opcode, tracing, body):
    return list(g[:5]) == [4, 2 if tracing else 0, 0, 0, opcode] and int.from_bytes(g[5:9], "big") == len(g) - 9 and list(g[9:]) == list(body)


def _b(m, name): return (m.get(name) or 0) & 0xff


def replay_simple(m):
    from . import native
    nat = native.Native("core")
    bad = []
    def check(cmd, opcode, body):
        for tracing in (0, 1):
            got = nat.ask(f"req {cmd.split()[0]} {tracing} " + " ".join(cmd.split()[1:]))
            try:
                g = bytes.fromhex(got)
            except ValueError:
                bad.append({"cmd": cmd, "native": got}); continue
            if not _hdr_ok(g, opcode, tracing, body):
                bad.append({"cmd": cmd, "tracing": tracing, "native": got, "expected_body": bytes(body).hex()})
    for L in (0, 3):
        text = bytes((_b(m, f"pq{i}_{L}") & 0x7f) or 0x61 for i in range(L))
        check(f"prepare {text.hex() or '-'}", 0x09, len(text).to_bytes(4, "big") + text)
    check("options", 0x05, b"")
    for L in (None, 0, 2):
        tok = bytes(_b(m, f"au{i}_{L}") for i in range(L or 0))
        check("auth " + ("none" if L is None else (tok.hex() or "-")), 0x0F, b"\xff\xff\xff\xff" if L is None else len(tok).to_bytes(4, "big") + tok)
    # STARTUP with one entry (HashMap order is not observable with one entry)
    k = bytes((_b(m, f"sk0_{i}_1") & 0x7f) or 0x61 for i in range(2))
    check(f"startup {k.hex()}:-", 0x01, b"\x00\x01\x00\x02" + k + b"\x00\x00")
    names = {"TopologyChange": b"TOPOLOGY_CHANGE", "StatusChange": b"STATUS_CHANGE", "SchemaChange": b"SCHEMA_CHANGE", "ClientRoutesChange": b"CLIENT_ROUTES_CHANGE"}
    for lst in ([], ["TopologyChange", "StatusChange", "SchemaChange"], ["SchemaChange"], ["ClientRoutesChange", "TopologyChange"]):
        body = len(lst).to_bytes(2, "big") + b"".join(len(names[x]).to_bytes(2, "big") + names[x] for x in lst)
        check("register " + (",".join(lst) or "-"), 0x0B, body)
    nat.close()
    return native.record("C09", "simple_requests", {"mismatches": bad[:6]}, bool(bad))


def replay_execute(m):
    from . import native
    nat = native.Native("core")
    bad = []
    shapes = [(2, None, dict(values=0, cells=[], page=True, paging=None, serial=False, ts=True)),
              (16, 2, dict(values=2, cells=["null", "val"], page=False, paging=2, serial=True, ts=False)),
              (0, 0, dict(values=1, cells=["unset"], page=False, paging=None, serial=False, ts=False))]
    for k, (idlen, midlen, shape) in enumerate(shapes):
        args, cells, pspec = q._concrete(m, shape, f"_e{k}")
        sid = bytes(_b(m, f"id{i}_{k}") for i in range(idlen))
        mid = bytes(_b(m, f"mid{i}_{k}") for i in range(midlen or 0))
        body = len(sid).to_bytes(2, "big") + sid + (b"" if midlen is None else len(mid).to_bytes(2, "big") + mid) + bytes(pspec)
        for tracing in (0, 1):
            got = nat.ask(f"req execute {tracing} {sid.hex() or '-'} {'none' if midlen is None else (mid.hex() or '-')} {args} {cells}")
            try:
                g = bytes.fromhex(got)
            except ValueError:
                bad.append({"shape": k, "native": got}); continue
            if not _hdr_ok(g, 0x0A, tracing, body):
                bad.append({"shape": k, "tracing": tracing, "native": got, "expected_body": body.hex()})
    nat.close()
    return native.record("C09", "execute_frames", {"mismatches": bad[:6]}, bool(bad))


def _batch_concrete(m, k, stmts, lists, serial, ts):
    bt = (m.get(f"batch_type_{k}") or 0) & 0xff
    if bt not in (0, 1, 2): bt = 0
    cons = (m.get(f"bcons_{k}") or 1) & 0xffff
    if cons not in q.CONS: cons = 1
    sc = (m.get(f"bserial_{k}") or 8) & 0xffff
    if sc not in (8, 9): sc = 8
    tsv = m.get(f"bts_{k}") or 0
    tsv = tsv - (1 << 64) if tsv >= (1 << 63) else tsv
    sargs, body = [], bytes([bt]) + len(stmts).to_bytes(2, "big")
    vparts = []
    for i, cells in enumerate(lists):
        data, desc = b"", []
        for j, kind in enumerate(cells):
            if kind == "null": data += b"\xff" * 4; desc.append("n")
            elif kind == "unset": data += b"\xff\xff\xff\xfe"; desc.append("u")
            else:
                x = _b(m, f"bv{i}_{j}_{k}"); data += bytes([0, 0, 0, 1, x]); desc.append(f"v{x}")
        vparts.append((len(cells).to_bytes(2, "big") + data, ",".join(desc) or "-"))
    for i, (kind, L) in enumerate(stmts):
        bsx = bytes(_b(m, f"bs{i}_{j}_{k}") for j in range(L))
        if kind == "q":
            bsx = bytes((c & 0x7f) or 0x61 for c in bsx)
            body += b"\x00" + L.to_bytes(4, "big") + bsx
        else:
            body += b"\x01" + L.to_bytes(2, "big") + bsx
        sargs.append(f"{kind}{bsx.hex() or '-'}")
        if i < len(vparts):
            body += vparts[i][0]
    body += cons.to_bytes(2, "big") + bytes([(0x10 if serial else 0) | (0x20 if ts else 0)])
    if serial: body += sc.to_bytes(2, "big")
    if ts: body += (tsv & ((1 << 64) - 1)).to_bytes(8, "big")
    cmd = f"{bt} {cons} {sc if serial else '-'} {tsv if ts else '-'} {','.join(sargs) or '-'} {';'.join(v[1] for v in vparts) or '-'}"
    return cmd, body


def replay_batch(m, tier):
    from . import native
    nat = native.Native("core")
    bad = []
    for k, (stmts, lists, serial, ts) in enumerate(batch_shapes(tier)):
        cmd, body = _batch_concrete(m, k, stmts, lists, serial, ts)
        for tracing in (0, 1):
            got = nat.ask(f"req batch {tracing} {cmd}")
            try:
                g = bytes.fromhex(got)
            except ValueError:
                bad.append({"shape": k, "native": got}); continue
            if not _hdr_ok(g, 0x0D, tracing, body):
                bad.append({"shape": k, "tracing": tracing, "native": got, "expected_body": body.hex()})
    nat.close()
    return native.record("C09", "batch_frames", {"mismatches": bad[:6]}, bool(bad))


def replay_batch_mismatch(m):
    from . import native
    nat = native.Native("core")
    bad = []
    for k, (stmts, lists) in enumerate(mismatch_shapes()):
        cmd, _ = _batch_concrete(m, 100 + k, stmts, lists, False, False)
        got = nat.ask(f"req batch 0 {cmd}")
        if got != "ERR":
            bad.append({"shape": k, "native": got, "expected": "ERR"})
    nat.close()
    return native.record("C09", "batch_mismatch", {"mismatches": bad[:6]}, bool(bad))
