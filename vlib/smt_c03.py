"""C03 — engine S: the Murmur3 partitioner hasher (block mix, fmix, tail, buffering/chunking, token normalisation)
and the CDC partitioner, encoded from the MIR of scylla/src/routing/partitioner.rs and compared with an independent
definition of Cassandra's MurmurHash3_x64_128 (signed-byte tail variant) written directly over bit-vectors."""
import z3
from mir2smt import dump, mir, solve, oblig, rustenum, stdmodels as sm
from mir2smt.mir import Int, Bool, Tup, Enum, Ref, Cell, Seq, Opaque

FILE = "scylla/src/routing/partitioner.rs"
LIB = ("library models (trusted): Wrapping<i64> arithmetic (mul/add/xor/shl with masked shift), Range/Rev iteration, array/slice "
       "indexing, copy_from_slice, bytes::Buf::{advance,get_i64_le,get_i64} on &[u8], usize::min, [u8;N]::default")
M64 = (1 << 64) - 1
C1, C2 = 0x87c37b91114253d5, 0x4cf5ad432745937f


# ------------------------------------------------------------------ independent specification (Cassandra's variant)
def bv(v, w=64): return z3.BitVecVal(v & ((1 << w) - 1), w)
def rotl(x, r): return (x << r) | z3.LShR(x, 64 - r)     # portable SMT-LIB (no z3-only ext_rotate_left)
def spec_fmix(k):
    k = k ^ z3.LShR(k, 33); k = k * bv(0xff51afd7ed558ccd); k = k ^ z3.LShR(k, 33); k = k * bv(0xc4ceb9fe1a85ec53)
    return k ^ z3.LShR(k, 33)
def spec_block(h1, h2, k1, k2):
    k1 = k1 * bv(C1); k1 = rotl(k1, 31); k1 = k1 * bv(C2); h1 = h1 ^ k1
    h1 = rotl(h1, 27); h1 = h1 + h2; h1 = h1 * bv(5) + bv(0x52dce729)
    k2 = k2 * bv(C2); k2 = rotl(k2, 33); k2 = k2 * bv(C1); h2 = h2 ^ k2
    h2 = rotl(h2, 31); h2 = h2 + h1; h2 = h2 * bv(5) + bv(0x38495ab5)
    return h1, h2
def le64(bs):
    t = bs[7]
    for b in reversed(bs[:7]):
        t = z3.Concat(t, b)
    return t
def spec_tail_finish(h1, h2, tail, total_len):
    """tail: list of < 16 BV8; Cassandra reads them as SIGNED bytes"""
    n = len(tail)
    k1, k2 = bv(0), bv(0)
    if n > 8:
        for i in range(n - 1, 7, -1):
            k2 = k2 ^ (z3.SignExt(56, tail[i]) << ((i - 8) * 8))
        k2 = k2 * bv(C2); k2 = rotl(k2, 33); k2 = k2 * bv(C1); h2 = h2 ^ k2
    if n > 0:
        for i in range(min(8, n) - 1, -1, -1):
            k1 = k1 ^ (z3.SignExt(56, tail[i]) << (i * 8))
        k1 = k1 * bv(C1); k1 = rotl(k1, 31); k1 = k1 * bv(C2); h1 = h1 ^ k1
    h1 = h1 ^ total_len; h2 = h2 ^ total_len
    h1 = h1 + h2; h2 = h2 + h1
    h1 = spec_fmix(h1); h2 = spec_fmix(h2)
    h1 = h1 + h2
    return h1
def spec_normalise(t):
    return z3.If(t == bv(1 << 63), bv((1 << 63) - 1), t)
def spec_murmur3_token(data):
    h1, h2 = bv(0), bv(0)
    n = len(data)
    for blk in range(n // 16):
        b = data[16 * blk:16 * blk + 16]
        h1, h2 = spec_block(h1, h2, le64(b[:8]), le64(b[8:]))
    return spec_normalise(spec_tail_finish(h1, h2, data[16 * (n // 16):], bv(n)))


def models():
    m = {}
    m.update(sm.WRAPPING_MODELS); m.update(sm.RANGE_MODELS); m.update(sm.SLICE_MODELS); m.update(sm.INT_MODELS)
    m[r"^<\[u8; \d+\] as Default>::default$"] = lambda it, p, c, a: Tup([it.const_int(0, "u8") for _ in range(int(c.split(";")[1].split("]")[0]))], "array")
    m["__consts__"] = {"RangeFull": Opaque("RangeFull")}
    return m


INLINE = [r"Murmur3PartitionerHasher::(rotl64|fmix|hash_16_bytes|fetch_16_bytes_from_buf)$", r"(^|::)Token::new$", r"routing::Token::new$"]


def hasher_state(be, total_len, buf, h1, h2):
    return Tup([Int(total_len, 64, False), Tup([Int(b, 8, False) for b in buf], "array"),
                Tup([Int(h1, 64, True)], "Wrapping"), Tup([Int(h2, 64, True)], "Wrapping")], "Murmur3PartitionerHasher")


def single_return(paths, what):
    bad = [p for p in paths if p.outcome[0] != "return"]
    good = [p for p in paths if p.outcome[0] == "return"]
    if not good:
        raise mir.Unsupported(f"{what}: no returning path")
    return good, bad


def run(tier, seed, only):
    ctx = oblig.Ctx(tier, only)
    try:
        mf = mir.MirFile(dump.dump("scylla"))
    except Exception as e:
        return [{"name": "smt:c03_mir_dump", "engine": "smt:mir2smt", "status": "inconclusive", "reason": str(e)[:500]}]
    steps = [("kernels", lambda: kernels(ctx, mf))]
    steps += [(f"finish_r{r}", (lambda r=r: finish_tail(ctx, mf, r))) for r in range(16)]
    lens = [0, 1, 7, 8, 9, 15, 16, 17, 31, 32, 33] if tier == "quick" else list(range(0, 49)) + [63, 64, 65, 70]
    steps += [(f"stream_L{L}", (lambda L=L: stream(ctx, mf, L, tier))) for L in lens]
    steps += [("cdc", lambda: cdc(ctx, mf, tier))]
    for name, f in steps:
        try:
            f()
        except mir.Unsupported as e:
            ctx.add(name=f"smt:c03_translate_{name}", engine="smt:mir2smt", status="inconclusive",
                    reason="translator rejected the current source: " + str(e), functions=FILE)
    from . import smt_c03pk
    smt_c03pk.run(ctx, tier)
    return ctx.results


def interp(mf):
    return mir.Interp(mf, mir.BVBackend(), models(), inline=INLINE, max_steps=6000)


def kernels(ctx, mf):
    be = mir.BVBackend()
    h1, h2, k1, k2, k = z3.BitVecs("h1 h2 k1 k2 k", 64)
    # ---- block mix
    fn = mf.find(r"partitioner\.rs[^>]*>::hash_16_bytes\(")
    it = interp(mf)
    st = Cell(hasher_state(be, bv(0), [bv(0, 8)] * 16, h1, h2))
    paths = it.run(fn, [Ref(st), Tup([Int(k1, 64, True)], "Wrapping"), Tup([Int(k2, 64, True)], "Wrapping")], [])
    good, bad = single_return(paths, "hash_16_bytes")
    F = f"Murmur3PartitionerHasher::hash_16_bytes, rotl64 [{FILE}]"
    B = "all h1,h2,k1,k2: 2^256 inputs; BV64 exact"
    s1, s2 = spec_block(h1, h2, k1, k2)
    goals = [z3.Not(z3.And(p.pc)) for p in bad if p.pc] + [z3.BoolVal(False) for p in bad if not p.pc]
    for p in good:
        after = sm.deref(Ref(p.locals[1].v.cell))
        goals.append(z3.Implies(z3.And(p.pc) if p.pc else z3.BoolVal(True), z3.And(after.f[2].f[0].t == s1, after.f[3].f[0].t == s2,
                                                                                   after.f[0].t == bv(0))))
    ctx.prove("c03_block_mix_matches_murmur3_x64_128", [], z3.And(goals), inputs=[h1, h2, k1, k2], functions=F, bounds=B, backend="BV",
              assumes=LIB, witness=False, replay=lambda m: replay_block(m))
    # ---- fmix
    fn = mf.find(r"partitioner\.rs[^>]*>::fmix\(")
    it = interp(mf)
    paths = it.run(fn, [Tup([Int(k, 64, True)], "Wrapping")], [])
    good, bad = single_return(paths, "fmix")
    goals = [z3.Not(z3.And(p.pc)) if p.pc else z3.BoolVal(False) for p in bad]
    goals += [z3.Implies(z3.And(p.pc) if p.pc else z3.BoolVal(True), p.outcome[1].f[0].t == spec_fmix(k)) for p in good]
    ctx.prove("c03_fmix_matches_fmix64", [], z3.And(goals), inputs=[k], functions=f"Murmur3PartitionerHasher::fmix [{FILE}]",
              bounds="all 2^64 inputs", backend="BV", assumes=LIB, witness=False, replay=lambda m: replay_fmix(m))
    # ---- Token::new
    fn = mf.find(r"^routing::<impl at scylla/src/routing/mod\.rs[^>]*>::new\(_1: i64\)|Token::new\(_1: i64\)")
    it = interp(mf)
    paths = it.run(fn, [Int(k, 64, True)], [])
    good, bad = single_return(paths, "Token::new")
    goals = [z3.Not(z3.And(p.pc)) if p.pc else z3.BoolVal(False) for p in bad]
    goals += [z3.Implies(z3.And(p.pc) if p.pc else z3.BoolVal(True), p.outcome[1].f[0].t == spec_normalise(k)) for p in good]
    ctx.prove("c03_token_new_maps_long_min_to_long_max", [], z3.And(goals), inputs=[k], functions="Token::new [scylla/src/routing/mod.rs]",
              bounds="all i64", backend="BV", assumes=LIB, witness=False)


def finish_tail(ctx, mf, r):
    """finish() from an ARBITRARY hasher state whose total_len = 16*q + r (q symbolic, r concrete)"""
    be = mir.BVBackend()
    fn = mf.find(r"partitioner\.rs[^>]*>::finish\(_1: &Murmur3PartitionerHasher\)")
    it = interp(mf)
    h1, h2 = z3.BitVecs("h1 h2", 64)
    q = z3.BitVec("q", 60)
    total = z3.Concat(q, z3.BitVecVal(r, 4))
    buf = [z3.BitVec(f"b{i}", 8) for i in range(16)]
    st = Cell(hasher_state(be, total, buf, h1, h2))
    paths = it.run(fn, [Ref(st)], [])
    good, bad = single_return(paths, "finish")
    goals = [z3.Not(z3.And(p.pc)) if p.pc else z3.BoolVal(False) for p in bad]
    spec = spec_normalise(spec_tail_finish(h1, h2, buf[:r], total))
    for p in good:
        goals.append(z3.Implies(z3.And(p.pc) if p.pc else z3.BoolVal(True), p.outcome[1].f[0].t == spec))
    ctx.prove(f"c03_finish_tail_r{r}_matches_cassandra_signed_tail", [], z3.And(goals), inputs=[h1, h2, q] + buf,
              functions=f"Murmur3PartitionerHasher::finish, fmix, rotl64, Token::new [{FILE}]",
              bounds=f"arbitrary hasher state: any h1,h2, any 16 buffer bytes (bytes >= 0x80 included), total_len = 16*q+{r} for any q < 2^60",
              backend="BV", assumes=LIB, witness=False, outside="choice of partitioner from table metadata (async fetching code)",
              replay=lambda m, r=r: replay_finish(m, r))


def fresh_state(be):
    return hasher_state(be, bv(0), [bv(0, 8)] * 16, bv(0), bv(0))


def run_writes(mf, data, cuts):
    """feed data split at `cuts` into a fresh hasher through the MIR of write(); returns (state value, paths ok?)"""
    be = mir.BVBackend()
    wr = mf.find(r"partitioner\.rs[^>]*>::write\(_1: &mut Murmur3PartitionerHasher")
    st = Cell(fresh_state(be))
    backing = Cell(Seq([Int(b, 8, False) for b in data]))
    bounds = [0] + list(cuts) + [len(data)]
    pcs = []
    for a, b in zip(bounds, bounds[1:]):
        it = interp(mf)
        sl = sm.mk_slice(it, Ref(backing), a, b - a)
        paths = it.run(wr, [Ref(st), sl], [])
        if len(paths) != 1 or paths[0].outcome[0] != "return":
            bad = [p.outcome for p in paths if p.outcome[0] != "return"]
            raise mir.Unsupported(f"write() on concrete-length chunks does not run on a single returning path: {bad[:2]}")
        p = paths[0]
        st = p.locals[1].v.cell
        pcs += p.pc
    return sm.deref(Ref(st)), pcs


def state_eq(a, b, nbuf):
    conj = [a.f[0].t == b.f[0].t, a.f[2].f[0].t == b.f[2].f[0].t, a.f[3].f[0].t == b.f[3].f[0].t]
    for i in range(nbuf):
        conj.append(a.f[1].f[i].t == b.f[1].f[i].t)
    return z3.And(conj)


def stream(ctx, mf, L, tier):
    be = mir.BVBackend()
    data = [z3.BitVec(f"d{i}", 8) for i in range(L)]
    F = f"Murmur3PartitionerHasher::{{write,finish,hash_16_bytes,fetch_16_bytes_from_buf,fmix,rotl64}}, Token::new [{FILE}]"
    one, pcs = run_writes(mf, data, [])
    # ---- one-shot == specification
    fin = mf.find(r"partitioner\.rs[^>]*>::finish\(_1: &Murmur3PartitionerHasher\)")
    it = interp(mf)
    paths = it.run(fin, [Ref(Cell(mir.copy_value(one)))], [])
    good, bad = single_return(paths, "finish")
    goals = [z3.Not(z3.And(p.pc)) if p.pc else z3.BoolVal(False) for p in bad]
    spec = spec_murmur3_token(data)
    goals += [z3.Implies(z3.And(p.pc) if p.pc else z3.BoolVal(True), p.outcome[1].f[0].t == spec) for p in good]
    ctx.prove(f"c03_token_of_{L}_bytes_matches_cassandra_murmur3", [], z3.And(goals), inputs=data, functions=F,
              bounds=f"every byte string of length {L} (all bytes symbolic, >= 0x80 included), hashed in one write", backend="BV",
              assumes=LIB, witness=False, replay=lambda m, L=L: replay_stream(m, L, []))
    # ---- chunk independence: every 2-way split (and 3-way for short inputs) reaches the same hasher state
    conj = []
    nsplits = 0
    for s in range(0, L + 1):
        st2, _ = run_writes(mf, data, [s])
        conj.append(state_eq(one, st2, L % 16)); nsplits += 1
    if L <= (20 if tier == "quick" else 40):
        for s in range(0, L + 1):
            for t in range(s, L + 1, max(1, L // 6)):
                st3, _ = run_writes(mf, data, [s, t])
                conj.append(state_eq(one, st3, L % 16)); nsplits += 1
    ctx.prove(f"c03_chunking_independent_L{L}", [], z3.And(conj), inputs=data, functions=F,
              bounds=f"every byte string of length {L}; every split point 0..={L} (and a grid of 3-way splits for short inputs): {nsplits} chunkings; "
                     "compared state = (total_len, h1, h2, pending buffer prefix)", backend="BV", assumes=LIB, witness=False,
              replay=lambda m, L=L: replay_stream(m, L, None))


def cdc(ctx, mf, tier):
    be = mir.BVBackend()
    wr = mf.find(r"partitioner\.rs[^>]*>::write\(_1: &mut CDCPartitionerHasher")
    fin = mf.find(r"partitioner\.rs[^>]*>::finish\(_1: &CDCPartitionerHasher\)")
    reg = rustenum.Registry(["/repo/scylla/src/routing/partitioner.rs"])
    F = f"CDCPartitionerHasher::{{write,finish}}, Token::new [{FILE}]"
    for L in ([0, 3, 7, 8, 9, 12] if tier == "quick" else range(0, 20)):
        data = [z3.BitVec(f"d{i}", 8) for i in range(L)]
        results = []
        for cuts in [[]] + [[s] for s in range(0, L + 1)]:
            ed = reg.get("CDCPartitionerHasherState")
            feeding = Enum(Int(bv(ed.discr("Feeding")), 64, True), {ed.discr("Feeding"): Tup([Int(bv(0), 64, False), Tup([Int(bv(0, 8), 8, False) for _ in range(8)], "array")])},
                           ed.variant_map(), ed.name)
            st = Cell(Tup([feeding], "CDCPartitionerHasher"))
            backing = Cell(Seq([Int(b, 8, False) for b in data]))
            bounds = [0] + cuts + [L]
            for a, b in zip(bounds, bounds[1:]):
                it = mir.Interp(mf, be, models(), inline=INLINE, registry=reg, max_steps=3000)
                paths = it.run(wr, [Ref(st), sm.mk_slice(it, Ref(backing), a, b - a)], [])
                if len(paths) != 1 or paths[0].outcome[0] != "return":
                    raise mir.Unsupported("CDC write() does not run on a single returning path")
                st = paths[0].locals[1].v.cell
            it = mir.Interp(mf, be, models(), inline=INLINE, registry=reg, max_steps=3000)
            paths = it.run(fin, [Ref(st)], [])
            if len(paths) != 1 or paths[0].outcome[0] != "return":
                raise mir.Unsupported("CDC finish() does not run on a single returning path")
            results.append(paths[0].outcome[1].f[0].t)
        if L >= 8:
            t = data[0]
            for b in data[1:8]:
                t = z3.Concat(t, b)
            spec = spec_normalise(t)
        else:
            spec = bv(1 << 63)     # too short: the invalid/minimum token (i64::MIN)
        ctx.prove(f"c03_cdc_token_L{L}", [], z3.And([r == spec for r in results]), inputs=data, functions=F,
                  bounds=f"every key of {L} bytes, one-shot and every 2-way chunking ({len(results)} runs): first 8 bytes big-endian as i64 (MIN->MAX), "
                         "shorter keys give the invalid token", backend="BV", assumes=LIB, witness=False, replay=lambda m, L=L: replay_cdc(m, L))


# ------------------------------------------------------------------ native replays
def replay_cdc(m, L):
    from . import native
    data = [int(m.get(f"d{i}") or 0) & 0xff for i in range(L)]
    if L >= 8:
        v = int.from_bytes(bytes(data[:8]), "big", signed=True)
        want = (1 << 63) - 1 if v == -(1 << 63) else v
    else:
        want = -(1 << 63)
    nat = native.Native("drv")
    bad = []
    runs = [("cdc 0 " + " ".join(map(str, data))).strip()] + [(f"cdc 1 {s} " + " ".join(map(str, data))).strip() for s in range(0, L + 1)]
    for cmd in runs:
        got = nat.ask(cmd)
        if got != str(want):
            bad.append({"cmd": cmd, "native": got, "expected": want})
    nat.close()
    return native.record("C03", f"cdc_token_L{L}", {"key": data, "mismatches": bad[:4]}, bool(bad))


def _s64(v):
    v = (v or 0) & M64
    return v - (1 << 64) if v >= (1 << 63) else v


def replay_block(m):
    from . import native
    nat = native.Native("drv")
    got = nat.ask(f"hash16 {_s64(m.get('h1'))} {_s64(m.get('h2'))} {_s64(m.get('k1'))} {_s64(m.get('k2'))}")
    nat.close()
    s1, s2 = spec_block(bv(m.get("h1", 0)), bv(m.get("h2", 0)), bv(m.get("k1", 0)), bv(m.get("k2", 0)))
    exp = f"{_s64(z3.simplify(s1).as_long())} {_s64(z3.simplify(s2).as_long())}"
    return native.record("C03", "block", {"inputs": m, "native": got, "expected": exp}, got != exp)


def replay_fmix(m):
    from . import native
    nat = native.Native("drv")
    got = nat.ask(f"fmix {_s64(m.get('k'))}")
    nat.close()
    exp = str(_s64(z3.simplify(spec_fmix(bv(m.get('k', 0)))).as_long()))
    return native.record("C03", "fmix", {"inputs": m, "native": got, "expected": exp}, got != exp)


def replay_finish(m, r):
    from . import native
    nat = native.Native("drv")
    total = ((m.get("q", 0) << 4) | r) & M64
    buf = [m.get(f"b{i}", 0) for i in range(16)]
    got = nat.ask(f"finish {total} {_s64(m.get('h1'))} {_s64(m.get('h2'))} " + " ".join(str(b) for b in buf))
    nat.close()
    spec = spec_normalise(spec_tail_finish(bv(m.get("h1", 0)), bv(m.get("h2", 0)), [bv(b, 8) for b in buf[:r]], bv(total)))
    exp = str(_s64(z3.simplify(spec).as_long()))
    return native.record("C03", f"finish_r{r}", {"inputs": m, "native": got, "expected": exp}, got != exp)


def replay_stream(m, L, cuts):
    """hash the model's bytes natively: one-shot must equal the specification, and every 2-way split must agree"""
    from . import native
    nat = native.Native("drv")
    data = [m.get(f"d{i}", 0) for i in range(L)]
    exp = str(_s64(z3.simplify(spec_murmur3_token([bv(b, 8) for b in data])).as_long()))
    got = nat.ask("murmur3 0 " + " ".join(str(b) for b in data))
    bad = got != exp
    detail = {"one_shot": got}
    for s in range(0, L + 1):
        g = nat.ask(f"murmur3 1 {s} " + " ".join(str(b) for b in data))
        if g != exp:
            bad = True; detail[f"split_{s}"] = g
    nat.close()
    return native.record("C03", f"stream_L{L}", {"inputs": m, "native": detail, "expected": exp}, bad)
