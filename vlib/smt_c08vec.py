"""C08 (vector values) — engine S: decoding a CQL vector whose type the SERVER chose.

A vector column's type arrives in RESULT metadata as a custom type string and may be nested (`vector<vector<uuid, a>, b>` ...);
`ColumnType::type_size_for_vector` computes the byte size of one element from it and `VectorIterator::{deserialize, next, nth}`
walk the cell with that size.  Executed from the MIR of scylla-cql-core with the native element type, every dimension (u16),
the element size and the cell length SYMBOLIC: none of these steps panics ('does not panic ... nesting deepened'), and the size is
the product of the native size and the dimensions whenever that product is representable."""
import math
import z3
from mir2smt import dump, mir, solve, oblig, rustenum, stdmodels as sm, itermodels as im
from mir2smt.mir import Int, Bool, Tup, Enum, Ref, Cell, Seq, Opaque, Unit

FILE = "scylla-cql-core/src/frame/response/result.rs"
VFILE = "scylla-cql-core/src/deserialize/value.rs"
LIB = ("library models (trusted): Box deref transparent, Option::map with the closure's MIR, usize::from(u16) zero extension, "
       "usize::{saturating_mul, checked_mul, wrapping_mul, checked_sub} by their definitions")
OPTION, RESULT = mir.ENUM_VARIANTS["Option"], mir.ENUM_VARIANTS["Result"]
SIZES = {"Boolean": 1, "Double": 8, "Float": 4, "Int": 4, "BigInt": 8, "Timestamp": 8, "Timeuuid": 16, "Uuid": 16}
JAVA = {"Boolean": "BooleanType", "Double": "DoubleType", "Float": "FloatType", "Int": "Int32Type", "BigInt": "LongType", "Timestamp": "TimestampType",
        "Timeuuid": "TimeUUIDType", "Uuid": "UUIDType", "Ascii": "AsciiType", "Blob": "BytesType", "Text": "UTF8Type", "Varint": "IntegerType"}


def bv(v, w): return z3.BitVecVal(v, w)


def m_opt_map_closure(it, p, callee, args):
    o, clo = args
    d = z3.simplify(o.discr.t)
    target = sm.find_closure_by_value(it, clo, callee)
    if z3.is_bv_value(d):
        if d.as_long() == 0:
            return sm.none(it)
        return [(q, v if v is mir.PANIC else sm.some(it, v)) for q, v in it.call_mir(target, p, [clo, o.payloads[1].f[0]])]
    out = []
    q0 = mir.fork(p); q0.pc.append(o.discr.t == 0)
    if it.feasible(q0.pc):
        out.append((q0, sm.none(it)))
    p.pc.append(o.discr.t == 1)
    if it.feasible(p.pc):
        out += [(q, v if v is mir.PANIC else sm.some(it, v)) for q, v in it.call_mir(target, p, [clo, o.payloads[1].f[0]])]
    return out


def m_mul(kind):
    def f(it, p, callee, args):
        wide = args[0].t * args[1].t
        ovf = wide >= (1 << 64)
        if kind == "saturating":
            return Int(z3.If(ovf, z3.IntVal((1 << 64) - 1), wide), 64, False)
        if kind == "wrapping":
            return Int(wide % (1 << 64), 64, False)
        return Enum(Int(z3.If(ovf, z3.IntVal(0), z3.IntVal(1)), 64, True), {1: Tup([Int(wide, 64, False)])}, OPTION, "Option")
    return f


def models():
    m = {}
    m.update(sm.SLICE_MODELS)
    m[r"^<Box<ColumnType<'_>> as Deref>::deref$"] = sm.m_identity
    m[r"^Option::<usize>::(map|and_then)::<"] = m_opt_map_closure
    m[r"^<usize as From<u16>>::from$"] = lambda it, p, c, a: Int(a[0].t, 64, False)
    m[r"core::num::<impl usize>::saturating_mul$"] = m_mul("saturating")
    m[r"core::num::<impl usize>::wrapping_mul$"] = m_mul("wrapping")
    m[r"core::num::<impl usize>::checked_mul$"] = m_mul("checked")
    return m


def iv(v): return z3.IntVal(v)


def vector_type(reg, native_discr, dims):
    ct, nt = reg.get("ColumnType"), reg.get("NativeType")
    v = Enum(Int(iv(ct.discr("Native")), 64, True), {ct.discr("Native"): Tup([Enum(Int(native_discr, 64, True), {}, nt.variant_map(), nt.name)])}, ct.variant_map(), ct.name)
    fields = ct.fields("Vector")
    for d in dims:
        f = [None, None]
        f[fields.index("typ")] = Tup([Tup([Ref(Cell(v))], "Unique")], "Box")     # Box<T> as rustc lays it out: Box(Unique(NonNull))
        f[fields.index("dimensions")] = Int(d, 16, False)
        v = Enum(Int(iv(ct.discr("Vector")), 64, True), {ct.discr("Vector"): Tup(f)}, ct.variant_map(), ct.name)
    return v


def vector_size(ctx, core, reg, depth):
    fn = core.find(r"result\.rs[^>]*>::type_size_for_vector\(_1: &ColumnType")
    nt = reg.get("NativeType")
    nat = z3.Int("native_type")
    dims = [z3.Int(f"dim{i}") for i in range(depth)]          # innermost first
    pre = [nat >= 0, nat < len(nt.variants)] + [z3.And(d >= 0, d <= 65535) for d in dims]
    it = mir.Interp(core, mir.IntBackend(), models(), inline=[r"(^|::)(ColumnType::<.*>|NativeType)::type_size_for_vector$"], registry=reg, max_steps=20000)
    paths = it.run(fn, [Ref(Cell(vector_type(reg, nat, dims)))], pre)
    size = iv(0); fixed = z3.BoolVal(False)
    for name, s in SIZES.items():
        size = z3.If(nat == nt.discr(name), iv(s), size); fixed = z3.Or(fixed, nat == nt.discr(name))
    prod = size
    for d in dims:                                                           # the mathematical product
        prod = prod * d
    fits = prod < (1 << 64)
    goals, cover = [], []
    for p in paths:
        pc = z3.And(p.pc[len(pre):]) if len(p.pc) > len(pre) else z3.BoolVal(True)
        if p.outcome[0] != "return":
            goals.append(z3.Not(pc)); continue                              # no panic, whatever the nesting and the dimensions
        cover.append(pc)
        r = p.outcome[1]
        some = r.payloads[1].f[0].t if 1 in r.payloads else iv(0)
        goals.append(z3.Implies(pc, z3.And(z3.Implies(z3.Not(fixed), r.discr.t == 0),
                                           z3.Implies(z3.And(fixed, fits), z3.And(r.discr.t == 1, some == prod)))))
    goals.append(z3.Or(cover) if cover else z3.BoolVal(False))
    ctx.prove(f"c08_vector_element_size_depth{depth}_never_panics_and_is_the_product_when_representable", pre, z3.And(goals), inputs=[nat] + dims,
              functions=f"ColumnType::type_size_for_vector, NativeType::type_size_for_vector [{FILE}]",
              bounds=f"vector types nested {depth} deep over ANY native element type, every dimension any u16 (symbolic): no panic; variable-size natives give None; fixed-size natives give "
                     "Some(native size x product of the dimensions) whenever that product fits usize (nothing but absence of panic is demanded when it does not)",
              backend="INT (mathematical integers, explicit mod 2^64; the overflow checks of the dev profile are MIR asserts)", assumes=LIB, witness=True,
              outside=f"nesting deeper than {depth}; tuples / collections / UDTs inside vectors (size None by a constant match arm)",
              replay=lambda m, depth=depth: replay_size(m, reg, depth))


def replay_size(m, reg, depth):
    from . import native
    nt = reg.get("NativeType")
    code = int(m.get("native_type") or 0)
    name = next((n for n in JAVA if nt.discr(n) == code), None)
    if name is None:
        return native.record("C08", f"vector_size_depth{depth}", {"note": f"native type #{code} has no custom-type spelling in this replay"}, False)
    dims = [int(m.get(f"dim{i}") or 0) & 0xffff for i in range(depth)]
    nat = native.Native("core")
    got = nat.ask(f"vecde {JAVA[name]} {','.join(map(str, dims))} 00")
    nat.close()
    prod = SIZES.get(name)
    if prod is not None:
        for d in dims: prod *= d
    want = None if prod is None else (prod if prod < (1 << 64) else "any")
    bad = got.startswith("PANIC") or (want not in ("any",) and f"size={'None' if want is None else 'Some(%d)' % want}" not in got)
    return native.record("C08", f"vector_size_depth{depth}", {"element": name, "dimensions_innermost_first": dims, "native": got,
                                                               "expected": f"no PANIC; size={want}"}, bad)


# ---------------------------------------------------------------------------------------------------- VectorIterator::{next, nth}
def iter_models(elem_ok):
    m = models()
    def read_n(it, p, callee, args):
        fs = sm.deref(args[0]); n = args[1].t
        ln = fs.f[0].t
        empty, short = ln == 0, n > ln
        newlen = z3.If(z3.Or(empty, short), ln, ln - n)
        fs.f[0] = Int(newlen, 64, False)
        inner = Enum(Int(z3.If(empty, iv(0), iv(1)), 64, True), {1: Tup([Tup([Int(n, 64, False)], "FrameSlice")])}, OPTION, "Option")
        return Enum(Int(z3.If(z3.And(z3.Not(empty), short), iv(1), iv(0)), 64, True), {0: Tup([inner]), 1: Tup([Opaque("too-few-bytes")])}, RESULT, "Result")
    m[r"^FrameSlice::<'_>::read_n_bytes$"] = read_n
    m[r"core::num::<impl usize>::checked_sub$"] = lambda it, p, c, a: Enum(Int(z3.If(a[0].t >= a[1].t, iv(1), iv(0)), 64, True), {1: Tup([Int(a[0].t - a[1].t, 64, False)])}, OPTION, "Option")
    def branch(it, p, callee, args):
        o = args[0]
        return Enum(Int(z3.If(o.discr.t == 1, iv(0), iv(1)), 64, True), {0: Tup([o.payloads[1].f[0]]), 1: Tup([Opaque("residual")])}, mir.ENUM_VARIANTS["ControlFlow"], "ControlFlow")
    m[r"^<Option<usize> as Try>::branch$"] = branch
    m[r" as FromResidual<Option<Infallible>>>::from_residual$"] = lambda it, p, c, a: sm.none(it)
    m[r"^(std::result::)?Result::<.*>::map_err::<"] = lambda it, p, c, a: Enum(a[0].discr, {**a[0].payloads, 1: Tup([Opaque("mapped-error")])}, RESULT, "Result")
    # the element's own deserializer: an arbitrary Ok / Err answer (T is a type parameter)
    m[r"^(std::result::)?Result::<Option<FrameSlice<'_>>, DeserializationError>::and_then::<T, "] = \
        lambda it, p, c, a: Enum(Int(z3.If(z3.And(a[0].discr.t == 0, elem_ok), iv(0), iv(1)), 64, True), {0: Tup([Opaque("element")]), 1: Tup([Opaque("error")])}, RESULT, "Result")
    m[r"mk_deser_err::<"] = sm.m_opaque("deser-error")
    return m


def vector_nth(ctx, core):
    """`nth` / `next` on a vector of FIXED-size elements from an arbitrary iterator state"""
    for which in ("nth", "next"):
        name = f"c08_vector_iterator_{which}_fixed_size_elements_never_panics_and_counts_down"
        if ctx.skip(name):
            continue
        fn = core.find(r"::nth\(_1: &mut VectorIterator<") if which == "nth" else core.find(r"value\.rs[^>]*>::next\(_1: &mut VectorIterator<")
        rem, el, ln, n = z3.Ints("remaining element_length cell_bytes n")
        elem_ok = z3.Bool("element_decodes")
        U = 1 << 64
        pre = [rem >= 0, rem <= 65535, el >= 0, el < U, ln >= 0, ln < (1 << 31), n >= 0, n < U]
        vi = Tup([Ref(Cell(Opaque("collection_type"))), Ref(Cell(Opaque("element_type"))), Int(rem, 64, False),
                  Enum(Int(iv(1), 64, True), {1: Tup([Int(el, 64, False)])}, OPTION, "Option"), Tup([Int(ln, 64, False)], "FrameSlice"), Opaque("phantom")], "VectorIterator")
        it = mir.Interp(core, mir.IntBackend(), iter_models(elem_ok), inline=[r"VectorIterator::<.*>::next_constant_length_elem$"], max_steps=20000)
        cell = Cell(vi)
        args = [Ref(cell)] + ([Int(n, 64, False)] if which == "nth" else [])
        paths = it.run(fn, args, pre)
        k = n if which == "nth" else iv(0)
        goals, cover = [], []
        for p in paths:
            pc = z3.And(p.pc[len(pre):]) if len(p.pc) > len(pre) else z3.BoolVal(True)
            if p.outcome[0] != "return":
                goals.append(z3.Not(pc)); continue
            cover.append(pc)
            r = p.outcome[1]
            after = sm.deref(p.locals[1].v)
            rem2 = after.f[2].t
            # fewer than k+1 elements left: None and nothing remains; otherwise Some(..) and k+1 elements are consumed
            goals.append(z3.Implies(pc, z3.If(k >= rem, z3.And(r.discr.t == 0, rem2 == 0), z3.And(r.discr.t == 1, rem2 == rem - k - 1))))
        goals.append(z3.Or(cover) if cover else z3.BoolVal(False))
        ctx.prove(name, pre, z3.And(goals), inputs=[rem, el, ln, elem_ok] + ([n] if which == "nth" else []),
                  functions=f"<VectorIterator<T> as Iterator>::{which}, VectorIterator::next_constant_length_elem [{VFILE}]",
                  bounds="arbitrary iterator state: remaining 0..=65535, element size ANY usize (it is a product of server-chosen dimensions), cell length < 2^31, "
                         + ("n ANY usize" if which == "nth" else "one step") + ", the element deserializer answering Ok or Err arbitrarily: no panic; None iff fewer than n+1 elements remain "
                         "(then nothing remains), otherwise Some and exactly n+1 elements are consumed",
                  backend="INT", assumes=LIB + "; FrameSlice::read_n_bytes by its contract (Ok(None) on an empty slice, Err and unchanged when short, else the sub-slice); T::deserialize arbitrary",
                  witness=True, outside="variable-size elements (vint-prefixed; the loop of nth over them)", replay=lambda m, which=which: replay_nth(m, which))


def vector_deserialize(ctx, core, reg):
    """`VectorIterator::<T>::deserialize`: setting the iterator up from a type and a cell"""
    name = "c08_vector_iterator_setup_never_panics_and_takes_count_and_size_from_the_type"
    if ctx.skip(name):
        return
    fn = core.find(r"value\.rs[^>]*>::deserialize\(_1: &ColumnType<'_>, _2: Option<FrameSlice<'_>>\) -> Result<VectorIterator<")
    ct = reg.get("ColumnType")
    dim, el, ln = z3.Ints("dimensions element_length cell_bytes")
    fixed, null = z3.Bools("element_has_fixed_size cell_is_null")
    U = 1 << 64
    pre = [dim >= 0, dim <= 65535, el >= 0, el < U, ln >= 0, ln < (1 << 31)]
    fields = ct.fields("Vector")
    f = [None, None]
    f[fields.index("typ")] = Tup([Tup([Ref(Cell(Opaque("element-type")))], "Unique")], "Box")
    f[fields.index("dimensions")] = Int(dim, 16, False)
    typ = Enum(Int(iv(ct.discr("Vector")), 64, True), {ct.discr("Vector"): Tup(f)}, ct.variant_map(), ct.name)
    m = iter_models(z3.BoolVal(True))
    m[r"(^|::)ColumnType::<'_>::type_size_for_vector$"] = lambda it, p, c, a: Enum(Int(z3.If(fixed, iv(1), iv(0)), 64, True), {1: Tup([Int(el, 64, False)])}, OPTION, "Option")
    m[r"(^|::)ensure_not_null_frame_slice::<"] = lambda it, p, c, a: Enum(Int(z3.If(a[1].discr.t == 1, iv(0), iv(1)), 64, True), {0: Tup([a[1].payloads[1].f[0]]), 1: Tup([Opaque("null-error")])}, RESULT, "Result")
    def try_branch(it, p, callee, args):
        r = args[0]
        return Enum(Int(z3.If(r.discr.t == 0, iv(0), iv(1)), 64, True), {0: Tup([r.payloads[0].f[0]]), 1: Tup([Opaque("residual")])}, mir.ENUM_VARIANTS["ControlFlow"], "ControlFlow")
    m[r"^<Result<FrameSlice<'_>, DeserializationError> as Try>::branch$"] = try_branch
    m[r" as FromResidual<Result<Infallible, DeserializationError>>>::from_residual$"] = lambda it, p, c, a: Enum(Int(iv(1), 64, True), {1: Tup([Opaque("error")])}, RESULT, "Result")
    m[r"^FrameSlice::<'_>::as_slice$"] = lambda it, p, c, a: Tup([Ref(Cell(Opaque("cell-bytes"))), Int(iv(0), 64, False), Int((sm.deref(a[0]) if isinstance(a[0], Ref) else a[0]).f[0].t, 64, False)], "Slice")
    m[r"core::slice::<impl \[u8\]>::len$"] = lambda it, p, c, a: Int((sm.deref(a[0]) if isinstance(a[0], Ref) else a[0]).f[0].t, 64, False)
    m[r"^FrameSlice::<'_>::is_empty$"] = lambda it, p, c, a: Bool((sm.deref(a[0]) if isinstance(a[0], Ref) else a[0]).f[0].t == 0)
    it = mir.Interp(core, mir.IntBackend(), m, inline=[r"VectorIterator::<.*>::new$"], registry=reg, max_steps=20000)
    cell = Enum(Int(z3.If(null, iv(0), iv(1)), 64, True), {1: Tup([Tup([Int(ln, 64, False)], "FrameSlice")])}, OPTION, "Option")
    paths = it.run(fn, [Ref(Cell(typ)), cell], pre)
    goals, cover = [], []
    for p in paths:
        pc = z3.And(p.pc[len(pre):]) if len(p.pc) > len(pre) else z3.BoolVal(True)
        if p.outcome[0] != "return":
            goals.append(z3.Not(pc)); continue
        cover.append(pc)
        r = p.outcome[1]
        conj = [z3.Implies(null, r.discr.t == 1)]
        if 0 in r.payloads and isinstance(r.payloads[0].f[0], Tup) and len(r.payloads[0].f[0].f) >= 5:
            vi = r.payloads[0].f[0]
            conj.append(z3.Implies(r.discr.t == 0, z3.And(vi.f[2].t == dim, vi.f[3].discr.t == z3.If(fixed, iv(1), iv(0)),
                                                          z3.Implies(fixed, vi.f[3].payloads[1].f[0].t == el) if 1 in vi.f[3].payloads else z3.Not(fixed), vi.f[4].f[0].t == ln)))
        else:
            conj.append(r.discr.t == 1)
        goals.append(z3.Implies(pc, z3.And(conj)))
    goals.append(z3.Or(cover) if cover else z3.BoolVal(False))
    ctx.prove(name, pre, z3.And(goals), inputs=[dim, el, ln, fixed, null],
              functions=f"<VectorIterator<T> as DeserializeValue>::deserialize, VectorIterator::new [{VFILE}]",
              bounds="vector type with ANY dimension (u16) and ANY element size (None, or Some(s) for every usize s, 0 included: vectors of zero-dimension vectors), cell null or of any length "
                     "< 2^31: no panic; a null cell is an error; an iterator, when produced, has remaining = the dimension, the element size of the type and the whole cell",
              backend="INT", assumes=LIB + "; ensure_not_null_frame_slice = Ok(slice) iff the cell is not null; type_size_for_vector arbitrary here (decided separately)",
              witness=True, outside="-", replay=lambda m: replay_setup(m))


def replay_setup(m):
    from . import native
    el = int(m.get("element_length") or 0); ln = min(int(m.get("cell_bytes") or 0), 64); dim = int(m.get("dimensions") or 0)
    fixed = bool(m.get("element_has_fixed_size"))
    nat = native.Native("core")
    if not fixed:
        got = nat.ask(f"vecnth UTF8Type {dim} {'00' * ln or '-'} next")
        used = "text elements"
    elif el == 0:
        got = nat.ask(f"vecnth Int32Type 0,{dim} {'00' * ln or '-'} next")
        used = "vector<vector<int,0>,dim>"
    else:
        d0 = max(1, min(el // 4, 65535))
        got = nat.ask(f"vecnth Int32Type {d0},{dim} {'00' * ln or '-'} next")
        used = f"vector<vector<int,{d0}>,dim>"
    nat.close()
    return native.record("C08", "vector_iterator_setup", {"type_used": used, "dimensions": dim, "cell_bytes": ln, "native": got, "expected": "no PANIC"}, got.startswith("PANIC"))


def replay_nth(m, which):
    """native: a nested vector type whose element size is the model's (when it is a product the type grammar can express), decoded cell of the model's length"""
    from . import native
    el = int(m.get("element_length") or 0); n = int(m.get("n") or 0) if which == "nth" else 0
    rem = int(m.get("remaining") or 0); ln = min(int(m.get("cell_bytes") or 0), 64)
    # express the element size as 16 * d0 * d1 * d2 (uuid elements) when it is large, else as 1 * d0 (boolean)
    best = None
    for base, java in ((1, "BooleanType"), (4, "Int32Type"), (8, "LongType"), (16, "UUIDType")):
        for depth in (1, 2, 3, 4):
            d = int(math.ceil((el / base) ** (1.0 / depth))) if el else 0
            dims = [min(max(d, 0), 65535)] * depth
            size = base
            for x in dims: size *= x
            score = abs(size - el)
            if best is None or score < best[0]:
                best = (score, java, dims, size)
    _, java, dims, size = best
    nat = native.Native("core")
    got = nat.ask(f"vecnth {java} {','.join(map(str, dims + [rem]))} {'00' * ln or '-'} {n if which == 'nth' else 'next'}")
    nat.close()
    return native.record("C08", f"vector_iterator_{which}", {"element": java, "inner_dimensions": dims, "element_size_used": size, "element_size_in_model": el, "remaining": rem,
                                                               "cell_bytes": ln, "n": n, "native": got, "expected": "no PANIC"}, got.startswith("PANIC"))


def run(ctx, core, reg, tier):
    try:
        vector_deserialize(ctx, core, reg)
        vector_nth(ctx, core)
    except mir.Unsupported as e:
        ctx.add(name="smt:c08_translate_vector_iterator", engine="smt:mir2smt", status="inconclusive", reason="translator rejected the current source: " + str(e), functions=VFILE)
    except (AttributeError, KeyError, IndexError, TypeError, ValueError) as e:
        ctx.add(name="smt:c08_translate_vector_iterator", engine="smt:mir2smt", status="inconclusive", reason=f"translator failed on the current source ({type(e).__name__}: {e})", functions=VFILE)
    for depth in ((1, 2, 4, 5) if tier == "quick" else (1, 2, 3, 4, 5, 6)):
        name = f"c08_vector_element_size_depth{depth}_never_panics_and_is_the_product_when_representable"
        if ctx.skip(name):
            continue
        try:
            vector_size(ctx, core, reg, depth)
        except mir.Unsupported as e:
            ctx.add(name=f"smt:c08_translate_vector_size_depth{depth}", engine="smt:mir2smt", status="inconclusive", reason="translator rejected the current source: " + str(e), functions=FILE)
        except (AttributeError, KeyError, IndexError, TypeError, ValueError) as e:
            ctx.add(name=f"smt:c08_translate_vector_size_depth{depth}", engine="smt:mir2smt", status="inconclusive", reason=f"translator failed on the current source ({type(e).__name__}: {e})", functions=FILE)
