"""Native evaluation of the real functions through the vnative binaries (built from /repo on every run)."""
import os, subprocess, json, time
from . import kanirun
VERIF = kanirun.VERIF

class Native:
    def __init__(self, crate, profile="dev"):
        self.crate = crate
        cwd = os.path.join(VERIF, "kani", crate)
        kanirun.sync_lock(crate)
        tdir = os.path.join(kanirun.CACHE, f"native-{crate}")
        cmd = ["cargo", "build", "--offline", "--bin", "vnative", "--target-dir", tdir] + (["--release"] if profile == "release" else [])
        p = subprocess.run(cmd, cwd=cwd, capture_output=True, text=True, env=kanirun.kani_env())
        if p.returncode != 0:
            raise RuntimeError("native build failed: " + p.stderr[-1500:])
        self.bin = os.path.join(tdir, "release" if profile == "release" else "debug", "vnative")
        self.proc = subprocess.Popen([self.bin], stdin=subprocess.PIPE, stdout=subprocess.PIPE, text=True, bufsize=1)

    def _ensure(self):
        if self.proc is None or self.proc.poll() is not None or self.proc.stdin.closed:
            self.proc = subprocess.Popen([self.bin], stdin=subprocess.PIPE, stdout=subprocess.PIPE, text=True, bufsize=1)

    def ask(self, line):
        self._ensure()
        self.proc.stdin.write(line + "\n"); self.proc.stdin.flush()
        return self.proc.stdout.readline().strip()

    def ask_many(self, lines):
        # avoid pipe deadlock: feed in chunks
        out = []
        self._ensure()
        for i in range(0, len(lines), 200):
            chunk = lines[i:i + 200]
            self.proc.stdin.write("\n".join(chunk) + "\n"); self.proc.stdin.flush()
            for _ in chunk:
                out.append(self.proc.stdout.readline().strip())
        return out

    def close(self):
        try:
            self.proc.stdin.close(); self.proc.wait(timeout=5)
        except Exception:
            self.proc.kill()

def record(prop, name, rec, reproduced):
    d = os.path.join(VERIF, "replays", prop)
    os.makedirs(d, exist_ok=True)
    path = os.path.join(d, f"{name}.json")
    rec = dict(rec); rec["reproduced"] = bool(reproduced); rec["replay_kind"] = "native call of the real function with the solver's model"
    json.dump(rec, open(path, "w"), indent=1, default=str)
    return {"reproduced": bool(reproduced), "path": path, "note": "" if reproduced else "model does not violate the property natively"}
