"""Engine K: discover and run Kani proof harnesses that live in /verif/kani/<crate>/src/*.rs.

Every harness is annotated in its source with a comment block

    // VK: prop=C01 tier=quick cap=300 [stubbed=1] [replay=none|playback]
    // VK-funcs: real functions symbolically executed
    // VK-bounds: bounds (unwind, sizes, ranges)
    // VK-assumes: stubs / assumptions in force
    // VK-out: what lies outside the bound
    #[kani::proof]
    fn name() { ... }

The runner never counts anything but `VERIFICATION:- SUCCESSFUL` together with a satisfied
`kani::cover!` reachability witness as a discharged obligation.  Timeouts, OOM, CBMC errors,
compile errors and Kani ICEs are *inconclusive* (exit 2).
"""
import os, re, subprocess, time, json, glob, shutil, resource, signal

VERIF = os.path.dirname(os.path.dirname(os.path.abspath(__file__)))
CACHE = os.path.join(VERIF, ".cache")

class Harness:
    def __init__(self, crate, module, name, meta):
        self.crate, self.module, self.name, self.meta = crate, module, name, meta
        self.full = f"{module}::{name}"
    @property
    def prop(self): return self.meta.get("prop")
    @property
    def tier(self): return self.meta.get("tier", "quick")
    @property
    def cap(self): return int(self.meta.get("cap", "300"))

def discover(crate):
    """Return list of Harness for /verif/kani/<crate>."""
    out = []
    src = os.path.join(VERIF, "kani", crate, "src")
    for path in sorted(glob.glob(os.path.join(src, "**", "*.rs"), recursive=True)):
        rel = os.path.relpath(path, src)[:-3]
        module = rel.replace(os.sep, "::")
        if module.endswith("::mod"): module = module[:-5]
        lines = open(path).read().split("\n")
        meta = None
        pend_macro = None
        for i, ln in enumerate(lines):
            s = ln.strip()
            m = re.match(r"//+\s*VK:\s*(.*)$", s)
            if m:
                meta = dict(kv.split("=", 1) for kv in m.group(1).split())
                continue
            m = re.match(r"//+\s*VK-(\w+):\s*(.*)$", s)
            if m and meta is not None:
                k = m.group(1)
                meta[k] = (meta.get(k, "") + " " + m.group(2)).strip()
                continue
            m = re.match(r"(?:pub\s+)?fn\s+(\w+)\s*\(", s)
            if m and meta is not None:
                out.append(Harness(crate, module, m.group(1), meta))
                meta = None
                continue
            # macro-generated harness:   vk_harness!(name, ...)   keeps the meta
            m = re.match(r"(\w+)!\s*\(\s*(\w+)\s*[,)]", s)
            if m and meta is not None and m.group(1).startswith("vk_"):
                out.append(Harness(crate, module, m.group(2), meta))
                meta = None
    return out

def _limit(mem_gb):
    def f():
        b = int(mem_gb * (1 << 30))
        resource.setrlimit(resource.RLIMIT_AS, (b, b))
        os.setsid()
    return f

def kani_env():
    env = dict(os.environ)
    env["CARGO_NET_OFFLINE"] = "true"
    env.pop("RUSTFLAGS", None)
    return env

def sync_lock(crate):
    """Keep the harness crate's Cargo.lock = /repo's lock + nothing else (offline)."""
    dst = os.path.join(VERIF, "kani", crate, "Cargo.lock")
    if not os.path.exists(dst):
        shutil.copy("/repo/Cargo.lock", dst)

def run_harnesses(crate, harnesses, jobs=8, mem_gb=14, extra_args=(), log_dir=None, features=None):
    """Run the given harnesses of one crate in a single `cargo kani -j` invocation.
    Returns dict full_name -> result dict."""
    if not harnesses:
        return {}
    sync_lock(crate)
    cwd = os.path.join(VERIF, "kani", crate)
    tdir = os.path.join(CACHE, f"kani-{crate}")
    cap = max(h.cap for h in harnesses)
    cmd = ["cargo", "kani", "--target-dir", tdir, "-j", str(jobs), "--output-format", "terse",
           "-Z", "unstable-options", "-Z", "stubbing", "-Z", "restrict-vtable", "--harness-timeout", f"{cap}s", "--exact"]
    if features:
        cmd += ["--features", features]
    for h in harnesses:
        cmd += ["--harness", h.full]
    cmd += list(extra_args)
    t0 = time.time()
    # overall cap: build (<= 6 min) + ceil(n/jobs) waves of cap
    waves = (len(harnesses) + jobs - 1) // jobs
    overall = 600 + waves * (cap + 30)
    log_dir = log_dir or os.path.join(CACHE, "logs")
    os.makedirs(log_dir, exist_ok=True)
    log_path = os.path.join(log_dir, f"kani-{crate}-{int(t0)}-{os.getpid()}.log")
    with open(log_path, "w") as lf:
        lf.write("$ " + " ".join(cmd) + "\n"); lf.flush()
        p = subprocess.Popen(cmd, cwd=cwd, stdout=lf, stderr=subprocess.STDOUT, env=kani_env(),
                             preexec_fn=_limit(mem_gb))
        try:
            p.wait(timeout=overall)
            timed_out = False
        except subprocess.TimeoutExpired:
            timed_out = True
            try: os.killpg(p.pid, signal.SIGKILL)
            except ProcessLookupError: pass
            p.wait()
    wall = time.time() - t0
    text = open(log_path, errors="replace").read()
    res = parse_terse(text, harnesses)
    for h in harnesses:
        r = res.setdefault(h.full, {"status": "inconclusive", "reason": "no result block in Kani output"
                                    + (" (overall timeout)" if timed_out else "")})
        r["log"] = log_path
        r["wall_total_s"] = round(wall, 1)
    build_err = re.search(r"^error(\[E\d+\])?:", text, re.M)
    if build_err and not any(r["status"] == "discharged" for r in res.values()):
        for r in res.values():
            if r["status"] == "inconclusive":
                r["reason"] = "build failed / Kani compiler error: " + text[build_err.start():build_err.start()+300].replace("\n", " | ")
    return res

_RE_CHECKING = re.compile(r"^Thread (\d+): Checking harness (\S+?)\.\.\.")
_RE_THREAD = re.compile(r"^Thread (\d+):\s*(.*)$")

def parse_terse(text, harnesses):
    cur = {}     # thread -> harness
    blocks = {}  # harness -> list of lines
    active = None
    single = None
    for ln in text.split("\n"):
        m = _RE_CHECKING.match(ln)
        if m:
            cur[m.group(1)] = m.group(2)
            active = None
            continue
        m = re.match(r"^Checking harness (\S+?)\.\.\.", ln)
        if m:
            single = m.group(1); active = single; blocks.setdefault(active, []); continue
        m = _RE_THREAD.match(ln)
        if m:
            active = cur.get(m.group(1))
            if active is not None:
                blocks.setdefault(active, []).append(m.group(2))
            continue
        if active is not None:
            blocks[active].append(ln)
    out = {}
    for name, lines in blocks.items():
        b = "\n".join(lines)
        r = {"raw_tail": b[-1500:]}
        m = re.search(r"Verification Time: ([\d.]+)s", b)
        if m: r["verify_s"] = float(m.group(1))
        m = re.search(r"\*\* (\d+) of (\d+) failed", b)
        if m: r["checks_failed"], r["checks_total"] = int(m.group(1)), int(m.group(2))
        m = re.search(r"\*\* (\d+) of (\d+) cover properties satisfied", b)
        if m: r["cover_sat"], r["cover_total"] = int(m.group(1)), int(m.group(2))
        fails = re.findall(r"Failed Checks: (.*)\n\s*File: \"([^\"]*)\", line (\d+)", b)
        r["failed_checks"] = [{"desc": d, "file": f, "line": int(l)} for d, f, l in fails]
        if "VERIFICATION:- SUCCESSFUL" in b:
            if r.get("cover_total", 0) >= 1 and r.get("cover_sat") == r.get("cover_total"):
                r["status"] = "discharged"
            else:
                r["status"] = "inconclusive"
                r["reason"] = "vacuity witness (kani::cover!) missing or unsatisfied"
        elif "VERIFICATION:- FAILED" in b:
            descs = " ".join(f["desc"] for f in r["failed_checks"])
            if re.search(r"timed out|CBMC failed|out of memory|status 6|Status: ERROR", b) or "unwinding assertion" in descs and False:
                r["status"] = "inconclusive"; r["reason"] = "CBMC error/timeout"
            elif not r["failed_checks"] and ("CBMC" in b or "timed out" in b.lower()):
                r["status"] = "inconclusive"; r["reason"] = "FAILED without failed checks (CBMC error / timeout / OOM)"
            elif any("unwinding assertion" in f["desc"] for f in r["failed_checks"]) and \
                 all(("unwinding assertion" in f["desc"]) for f in r["failed_checks"]):
                r["status"] = "inconclusive"; r["reason"] = "unwinding bound too small for this input (unwinding assertion failed)"
            elif not r["failed_checks"]:
                r["status"] = "inconclusive"; r["reason"] = "FAILED without failed checks"
            else:
                r["status"] = "violated"
        else:
            r["status"] = "inconclusive"
            r["reason"] = "no verdict (timeout, OOM or crash)"
            if re.search(r"timed out", b, re.I): r["reason"] = "harness timeout"
        out[name] = r
    return out
