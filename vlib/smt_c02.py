"""C02 — engine S: the response-handler table of one connection (`ResponseHandlerMap`), decided inductively.

One `allocate` / `lookup` / `orphan` step (MIR of scylla/src/network/connection.rs) from an ARBITRARY table that satisfies the
representation invariant INV: hash maps are abstract total maps (z3 arrays: presence + value columns), keys and handler
identities symbolic. Obligations: the step preserves INV and
  * allocate never hands out a stream id whose bit is set (an id still carried by an unanswered request — orphaned ones included),
    registers exactly the given handler under it and leaves every other entry alone;
  * lookup(s) returns exactly the handler registered under s (the response reaches the request that owns the stream), Orphaned iff
    s was orphaned, Missing otherwise, and only then releases the id;
  * orphan(r) moves r's stream to the orphanage and does NOT release the id.
Since every history of the table is a sequence of these steps from the empty table (which satisfies INV), the clauses hold for
histories of any length.  `StreamIdSet::{allocate,free}` are replaced by the contract that engine K proves for them (C02 Kani
harnesses: a free id is handed out / None only when none is free; free clears exactly that bit)."""
import z3
from mir2smt import dump, mir, solve, oblig, rustenum, stdmodels as sm
from mir2smt.mir import Int, Bool, Tup, Enum, Ref, Cell, Seq, Opaque, Unit

FILE = "scylla/src/network/connection.rs"
LIB = ("library models (trusted): HashMap<K,V> = total map (z3 arrays: presence + value columns) with insert/remove/get/contains_key; "
       "BTreeSet<(Instant,i16)> insert/remove ignored (only orders orphans by age); Instant::now opaque; tracing level check = disabled; "
       "StreamIdSet::allocate = some id >= 0 whose bit is clear (bit gets set) or None, StreamIdSet::free(id) clears the bit of id — the contract "
       "engine K decides for the real bitmap code (c02_* Kani harnesses); request ids handed to allocate are unique (atomic counter in Connection)")

K16, K64 = z3.BitVecSort(16), z3.BitVecSort(64)
B = z3.BoolSort()


def bv(v, w): return z3.BitVecVal(v, w)


class St:
    """symbolic table state"""
    def __init__(self, tag):
        self.used = z3.Array(f"used{tag}", K16, B)
        self.hp = z3.Array(f"hp{tag}", K16, B); self.hh = z3.Array(f"hh{tag}", K16, K64); self.hr = z3.Array(f"hr{tag}", K16, K64)
        self.rp = z3.Array(f"rp{tag}", K64, B); self.rs = z3.Array(f"rs{tag}", K64, K16)
        self.op = z3.Array(f"op{tag}", K16, B)


def arr(t): return Int(t, 0, False)


def amap(name, present, cols): return Tup([arr(present)] + [arr(c) for c in cols], "AMap:" + name)


def table_value(st):
    stream_set = Tup([arr(st.used)], "StreamIdSet")
    handlers = amap("handlers", st.hp, [st.hh, st.hr])
    r2s = amap("r2s", st.rp, [st.rs])
    orphans = amap("orphans", st.op, [])
    tracker = Tup([orphans, Opaque("by_orphaning_times")], "OrphanageTracker")
    return Tup([stream_set, handlers, r2s, tracker], "ResponseHandlerMap")


def read_state(v):
    s = St.__new__(St)
    s.used = v.f[0].f[0].t
    s.hp, s.hh, s.hr = v.f[1].f[0].t, v.f[1].f[1].t, v.f[1].f[2].t
    s.rp, s.rs = v.f[2].f[0].t, v.f[2].f[1].t
    s.op = v.f[3].f[0].f[0].t
    return s


SPEC = {
    "handlers": (lambda leaves: Tup([Int(leaves[0], 64, False), Int(leaves[1], 64, False)], "ResponseHandler"), lambda v: [v.f[0].t, v.f[1].t]),
    "r2s": (lambda leaves: Int(leaves[0], 16, True), lambda v: [v.t]),
    "orphans": (lambda leaves: Opaque("instant"), lambda v: []),
}


def _key(k):
    for _ in range(3):
        if isinstance(k, Ref):
            k = sm.deref(k)
    return k.t


def _opt(it, present, val):
    d = z3.If(present, bv(1, 64), bv(0, 64))
    return Enum(Int(d, 64, True), {1: Tup([val])}, mir.ENUM_VARIANTS["Option"], "Option")


def m_insert(it, p, callee, args):
    m = sm.deref(args[0]); name = m.name.split(":", 1)[1]
    build, flat = SPEC[name]
    k = _key(args[1])
    old_p = z3.Select(m.f[0].t, k)
    old = build([z3.Select(c.t, k) for c in m.f[1:]])
    m.f[0] = arr(z3.Store(m.f[0].t, k, z3.BoolVal(True)))
    for i, leaf in enumerate(flat(args[2])):
        m.f[1 + i] = arr(z3.Store(m.f[1 + i].t, k, leaf))
    return _opt(it, old_p, old)


def m_remove(it, p, callee, args):
    m = sm.deref(args[0]); name = m.name.split(":", 1)[1]
    build, flat = SPEC[name]
    k = _key(args[1])
    old_p = z3.Select(m.f[0].t, k)
    old = build([z3.Select(c.t, k) for c in m.f[1:]])
    m.f[0] = arr(z3.Store(m.f[0].t, k, z3.BoolVal(False)))
    return _opt(it, old_p, old)


def m_get(it, p, callee, args):
    m = sm.deref(args[0]); name = m.name.split(":", 1)[1]
    build, flat = SPEC[name]
    k = _key(args[1])
    return _opt(it, z3.Select(m.f[0].t, k), Ref(Cell(build([z3.Select(c.t, k) for c in m.f[1:]]))))


def m_contains(it, p, callee, args):
    m = sm.deref(args[0])
    return Bool(z3.Select(m.f[0].t, _key(args[1])))


def m_sid_allocate(it, p, callee, args):
    s = sm.deref(args[0])
    used = s.f[0].t
    sid = it.fresh("sid", 16)
    out = []
    q = mir.fork(p)
    q.pc.append(z3.And(sid >= 0, z3.Not(z3.Select(used, sid))))
    if it.feasible(q.pc):
        qs = sm.deref(sm._reref(p, q, args[0]))
        qs.f[0] = arr(z3.Store(used, sid, z3.BoolVal(True)))
        out.append((q, sm.some(it, Int(sid, 16, True))))
    ex = z3.Bool(f"exhausted!{next(it._fresh)}")
    p.pc.append(ex)
    out.append((p, sm.none(it)))
    return out


def m_sid_free(it, p, callee, args):
    s = sm.deref(args[0])
    sid = args[1].t
    # the real code indexes used_bitmap[stream_id as usize / 64]: a negative id is out of bounds
    q = mir.fork(p)
    q.pc.append(sid < 0)
    out = []
    if it.feasible(q.pc):
        q.outcome = ("panic", "index out of bounds: negative stream id in StreamIdSet::free")
        out.append((q, mir.PANIC))
    p.pc.append(sid >= 0)
    s.f[0] = arr(z3.Store(s.f[0].t, sid, z3.BoolVal(False)))
    out.append((p, Unit()))
    return out


def m_btree_first(it, p, callee, args):
    """BTreeSet<(Instant, i16)>::first of the orphanage: None, or some orphaned stream id (the set mirrors the `orphans` map)"""
    tracker_set = args[0]
    # the tracker value is reachable from the table: find the orphans presence array through the path's first frame
    out = []
    sid = it.fresh("oldest_orphan", 16)
    op = None
    for fr in list(p.stack) + [p.locals]:
        for c in fr.values():
            v = c.v
            for _ in range(3):
                if isinstance(v, Ref):
                    try:
                        v = sm.deref(v)
                    except Exception:
                        break
            if isinstance(v, Tup) and v.name == "ResponseHandlerMap":
                op = v.f[3].f[0].f[0].t
            if isinstance(v, Tup) and v.name == "OrphanageTracker":
                op = v.f[0].f[0].t
    if op is None:
        raise mir.Unsupported("BTreeSet::first outside the orphanage tracker")
    q = mir.fork(p)
    q.pc.append(z3.Select(op, sid))
    if it.feasible(q.pc):
        out.append((q, sm.some(it, Ref(Cell(Tup([Opaque("instant"), Int(sid, 16, True)]))))))
    p.pc.append(z3.Bool(f"orphanage_empty!{next(it._fresh)}"))
    out.append((p, sm.none(it)))
    return out


def m_option_branch(it, p, callee, args):
    o = args[0]
    d = z3.If(o.discr.t == 1, bv(0, 64), bv(1, 64))
    pl = {1: Tup([sm.none(it)])}
    if 1 in o.payloads:
        pl[0] = o.payloads[1]
    return Enum(Int(d, 64, True), pl, sm.CONTROLFLOW, "ControlFlow")


def models():
    m = {}
    m[r"^BTreeSet::<\(tokio::time::Instant, i16\)>::first$"] = m_btree_first
    m[r"^<Option<.*> as Try>::branch$"] = m_option_branch
    m[r"^<Option<.*> as FromResidual<Option<(std::convert::)?Infallible>>>::from_residual$"] = lambda it, p, c, a: sm.none(it)
    m[r"^<(std::time::)?Duration as PartialOrd>::(lt|le|gt|ge)$"] = lambda it, p, c, a: Bool(z3.Bool(f"duration_cmp!{next(it._fresh)}"))
    m[r"^std::collections::HashMap::<.*>::insert$"] = m_insert
    m[r"^std::collections::HashMap::<.*>::remove::<"] = m_remove
    m[r"^std::collections::HashMap::<.*>::get::<"] = m_get
    m[r"^std::collections::HashMap::<.*>::contains_key::<"] = m_contains
    m[r"^BTreeSet::<.*>::(insert|remove)(::<.*>)?$"] = lambda it, p, c, a: Bool(z3.BoolVal(True))
    m[r"^tokio::time::Instant::now$"] = sm.m_opaque("instant")
    m[r"^StreamIdSet::allocate$"] = m_sid_allocate
    m[r"^StreamIdSet::free$"] = m_sid_free
    m[r"^<Level as PartialOrd<LevelFilter>>::le$"] = lambda it, p, c, a: Bool(z3.BoolVal(False))
    m[r"^Option::<.*>::is_none$"] = lambda it, p, c, a: Bool(sm.deref(a[0]).discr.t == 0)
    m[r"^Option::<.*>::is_some$"] = lambda it, p, c, a: Bool(sm.deref(a[0]).discr.t == 1)
    m[r"^Option::<.*>::or_else::<"] = m_or_else
    m[r"panicking::(panic|assert_failed)"] = m_panic
    m[r"^std::time::Instant::elapsed$|Instant::elapsed$"] = sm.m_opaque("duration")
    m["__consts__"] = {"tracing::Level::DEBUG": Opaque("level"), "tracing::level_filters::STATIC_MAX_LEVEL": Opaque("lf"),
                       "tracing::Level::TRACE": Opaque("level"), "tracing::Level::WARN": Opaque("level")}
    return m


def m_panic(it, p, callee, args):
    raise mir.Panic("panic: " + callee)


def m_or_else(it, p, callee, args):
    """Option::or_else with a symbolic discriminant: the closure runs on the None branch"""
    o, clo = args
    out = []
    q = mir.fork(p)
    q.pc.append(o.discr.t == 1)
    if it.feasible(q.pc):
        out.append((q, o))
    p.pc.append(o.discr.t == 0)
    if it.feasible(p.pc):
        target = sm.find_closure_by_value(it, clo, callee)
        out += it.call_mir(target, p, [clo])
    return out


INLINE = [r"(^|::)OrphanageTracker::\w+$", r"(^|::)ResponseHandlerMap::(lookup|orphan|allocate)$"]


# ------------------------------------------------------------------------------------------------ invariant
def inv(st, tag):
    s = z3.BitVec("s_" + tag, 16); r = z3.BitVec("r_" + tag, 64)
    a = z3.ForAll([s], z3.Implies(z3.Select(st.hp, s), z3.And(s >= 0, z3.Select(st.used, s), z3.Not(z3.Select(st.op, s)),
                                                              z3.Select(st.rp, z3.Select(st.hr, s)), z3.Select(st.rs, z3.Select(st.hr, s)) == s)))
    b = z3.ForAll([s], z3.Implies(z3.Select(st.op, s), z3.And(s >= 0, z3.Select(st.used, s))))
    c = z3.ForAll([r], z3.Implies(z3.Select(st.rp, r), z3.And(z3.Select(st.hp, z3.Select(st.rs, r)), z3.Select(st.hr, z3.Select(st.rs, r)) == r)))
    return [a, b, c]


def inv_at(st, s, r):
    """the invariant instantiated at one stream id and one request id (goal side: s, r are skolem constants)"""
    a = z3.Implies(z3.Select(st.hp, s), z3.And(s >= 0, z3.Select(st.used, s), z3.Not(z3.Select(st.op, s)),
                                               z3.Select(st.rp, z3.Select(st.hr, s)), z3.Select(st.rs, z3.Select(st.hr, s)) == s))
    b = z3.Implies(z3.Select(st.op, s), z3.And(s >= 0, z3.Select(st.used, s)))
    c = z3.Implies(z3.Select(st.rp, r), z3.And(z3.Select(st.hp, z3.Select(st.rs, r)), z3.Select(st.hr, z3.Select(st.rs, r)) == r))
    return z3.And(a, b, c)


def same_except(pre, post, sid=None, rid=None):
    """frame: every entry other than stream `sid` / request `rid` is unchanged (checked at the skolem points x, y)"""
    x = z3.BitVec("x_frame", 16); y = z3.BitVec("y_frame", 64)
    cs = []
    cx = [z3.Select(pre.hp, x) == z3.Select(post.hp, x), z3.Implies(z3.Select(pre.hp, x), z3.And(z3.Select(pre.hh, x) == z3.Select(post.hh, x), z3.Select(pre.hr, x) == z3.Select(post.hr, x))),
          z3.Select(pre.used, x) == z3.Select(post.used, x), z3.Select(pre.op, x) == z3.Select(post.op, x)]
    cs.append(z3.Implies(x != sid, z3.And(cx)) if sid is not None else z3.And(cx))
    cy = [z3.Select(pre.rp, y) == z3.Select(post.rp, y), z3.Implies(z3.Select(pre.rp, y), z3.Select(pre.rs, y) == z3.Select(post.rs, y))]
    cs.append(z3.Implies(y != rid, z3.And(cy)) if rid is not None else z3.And(cy))
    return z3.And(cs)


def run(tier, seed, only):
    ctx = oblig.Ctx(tier, only)
    try:
        mf = mir.MirFile(dump.dump("scylla"))
        reg = rustenum.Registry(["/repo/scylla/src/network/connection.rs"])
    except Exception as e:
        return [{"name": "smt:c02_mir_dump", "engine": "smt:mir2smt", "status": "inconclusive", "reason": str(e)[:500]}]
    for name, f in (("allocate", allocate), ("lookup", lookup), ("orphan", orphan)):
        try:
            f(ctx, mf, reg)
        except mir.Unsupported as e:
            ctx.add(name=f"smt:c02_translate_{name}", engine="smt:mir2smt", status="inconclusive",
                    reason="translator rejected the current source: " + str(e), functions=FILE)
        except (AttributeError, KeyError, IndexError, TypeError, ValueError) as e:
            ctx.add(name=f"smt:c02_translate_{name}", engine="smt:mir2smt", status="inconclusive",
                    reason=f"translator failed on the current source ({type(e).__name__}: {e})", functions=FILE)
    return ctx.results


def exec_step(mf, reg, fname, extra_args, pre_hyps):
    pre = St("0")
    it = mir.Interp(mf, mir.BVBackend(), models(), inline=INLINE, registry=reg, max_steps=4000)
    fn = mf.find(r"connection::<impl at [^>]*>::%s\(_1: &mut ResponseHandlerMap" % fname)
    cell = Cell(table_value(pre))
    paths = it.run(fn, [Ref(cell)] + extra_args, pre_hyps)
    return pre, paths


def post_of(p):
    return read_state(sm.deref(p.locals[1].v))


SK_S, SK_R = z3.BitVec("sk_s", 16), z3.BitVec("sk_r", 64)
STATE_INPUTS = []


def allocate(ctx, mf, reg):
    hid, rid = z3.BitVecs("hid rid", 64)
    handler = Tup([Int(hid, 64, False), Int(rid, 64, False)], "ResponseHandler")
    pre0 = St("0")
    hyps = inv(pre0, "h") + [z3.Not(z3.Select(pre0.rp, rid))]
    pre, paths = exec_step(mf, reg, "allocate", [handler], [])
    goals = []
    cover_ok, cover_err = [], []
    for p in paths:
        pc = z3.And(p.pc) if p.pc else z3.BoolVal(True)
        if p.outcome[0] != "return":
            goals.append(z3.Not(pc)); continue                   # the assert!(prev_handler.is_none()) must be unreachable
        cover_ok.append(pc)
        r = p.outcome[1]
        post = post_of(p)
        ok_case, err_case = [], []
        if 0 in r.payloads:
            sid = r.payloads[0].f[0].t
            ok_case = [sid >= 0, z3.Not(z3.Select(pre.used, sid)), z3.Not(z3.Select(pre.hp, sid)), z3.Not(z3.Select(pre.op, sid)),
                       z3.Select(post.used, sid), z3.Select(post.hp, sid), z3.Select(post.hh, sid) == hid, z3.Select(post.hr, sid) == rid,
                       z3.Select(post.rp, rid), z3.Select(post.rs, rid) == sid,
                       same_except(pre, post, sid, rid), inv_at(post, SK_S, SK_R)]
        if 1 in r.payloads:
            h = r.payloads[1].f[0]
            err_case = [h.f[0].t == hid, h.f[1].t == rid, same_except(pre, post), inv_at(post, SK_S, SK_R)]
        goals.append(z3.Implies(pc, z3.And(z3.Implies(r.discr.t == 0, z3.And(ok_case) if ok_case else z3.BoolVal(False)),
                                           z3.Implies(r.discr.t == 1, z3.And(err_case) if err_case else z3.BoolVal(False)))))
    # (no coverage disjunction here: the StreamIdSet contract introduces choice variables, so path conditions are not exhaustive over them;
    #  reachability of the Ok path is witnessed separately below)
    ctx.prove("c02_allocate_hands_out_only_unused_ids_and_registers_the_handler", hyps, z3.And(goals), inputs=[], functions=f"ResponseHandlerMap::allocate [{FILE}]",
              bounds="one allocate step from EVERY table satisfying INV (all 65536 stream slots and all 2^64 request ids symbolic), any handler with a request id "
                     "not yet in the table: Ok(id) => id >= 0, its bit / handler slot / orphan mark were all clear, afterwards id -> exactly this handler and request -> id; "
                     "Err => the handler comes back and nothing changed; every other entry is untouched; INV holds again; the internal assert cannot fire",
              backend="BV+arrays+quantified INV", assumes=LIB, witness=True, outside="orders of steps are covered by induction over INV; the tasks that call these steps "
              "(router, orphaner: tokio) and whether they call them at the right moments are not decided", replay=lambda m: replay("allocate", m))


def lookup(ctx, mf, reg):
    sid = z3.BitVec("sid_in", 16)
    pre0 = St("0")
    m_hp, m_op = z3.Bools("m_hp m_op")
    hyps = inv(pre0, "h") + [sid >= 0, m_hp == z3.Select(pre0.hp, sid), m_op == z3.Select(pre0.op, sid)]
    pre, paths = exec_step(mf, reg, "lookup", [Int(sid, 16, True)], [])
    ed = reg.get("HandlerLookupResult")
    goals = []
    for p in paths:
        pc = z3.And(p.pc) if p.pc else z3.BoolVal(True)
        if p.outcome[0] != "return":
            goals.append(z3.Not(pc)); continue
        r = p.outcome[1]
        post = post_of(p)
        d = r.discr.t
        dH, dO, dM = ed.discr("Handler"), ed.discr("Orphaned"), ed.discr("Missing")
        conj = [z3.Not(z3.Select(post.used, sid)), z3.Not(z3.Select(post.hp, sid)) if True else None, z3.Not(z3.Select(post.op, sid)),
                inv_at(post, SK_S, SK_R)]
        hcase = [z3.Select(pre.hp, sid), z3.Not(z3.Select(pre.op, sid))]
        if dH in r.payloads:
            h = r.payloads[dH].f[0]
            hcase += [h.f[0].t == z3.Select(pre.hh, sid), h.f[1].t == z3.Select(pre.hr, sid), z3.Not(z3.Select(post.rp, z3.Select(pre.hr, sid))),
                      same_except(pre, post, sid, z3.Select(pre.hr, sid))]
        else:
            hcase.append(z3.BoolVal(False))
        conj.append(z3.Implies(d == dH, z3.And(hcase)))
        conj.append(z3.Implies(d == dO, z3.And(z3.Select(pre.op, sid), same_except(pre, post, sid, None))))
        conj.append(z3.Implies(d == dM, z3.And(z3.Not(z3.Select(pre.hp, sid)), z3.Not(z3.Select(pre.op, sid)), same_except(pre, post, sid, None))))
        conj.append(z3.Or(d == dH, d == dO, d == dM))
        goals.append(z3.Implies(pc, z3.And(conj)))
    goals.append(z3.Or([z3.And(p.pc) if p.pc else z3.BoolVal(True) for p in paths if p.outcome[0] == "return"] or [z3.BoolVal(False)]))
    ctx.prove("c02_lookup_returns_exactly_the_registered_handler_and_then_releases_the_id", hyps, z3.And(goals), inputs=[sid, m_hp, m_op], functions=f"ResponseHandlerMap::lookup, OrphanageTracker::{{contains,remove}} [{FILE}]",
              bounds="one lookup step from EVERY table satisfying INV, any stream id >= 0 (ids in use, orphaned, or unknown): Handler(h) iff a handler is registered under the id "
                     "and h is that very handler (identity and request id), its request->stream entry is dropped; Orphaned iff the id was orphaned; Missing otherwise; the id's bit, "
                     "handler slot and orphan mark are clear afterwards; every other entry untouched; INV holds again",
              backend="BV+arrays+quantified INV", assumes=LIB, witness=True, outside="negative stream ids (events; filtered by the router before lookup)", replay=lambda m: replay("lookup", m))


def orphan(ctx, mf, reg):
    rid = z3.BitVec("rid_in", 64)
    pre0 = St("0")
    m_rp = z3.Bool("m_rp"); m_rs = z3.BitVec("m_rs", 16)
    hyps = inv(pre0, "h") + [m_rp == z3.Select(pre0.rp, rid), m_rs == z3.Select(pre0.rs, rid)]
    pre, paths = exec_step(mf, reg, "orphan", [Int(rid, 64, False)], [])
    goals = []
    for p in paths:
        pc = z3.And(p.pc) if p.pc else z3.BoolVal(True)
        if p.outcome[0] != "return":
            goals.append(z3.Not(pc)); continue
        post = post_of(p)
        sid = z3.Select(pre.rs, rid)
        known = z3.Select(pre.rp, rid)
        conj = [inv_at(post, SK_S, SK_R),
                z3.Implies(known, z3.And(z3.Select(post.used, sid),          # NOT released: the server has not answered yet
                                         z3.Select(post.op, sid), z3.Not(z3.Select(post.hp, sid)), z3.Not(z3.Select(post.rp, rid)),
                                         same_except(pre, post, sid, rid))),
                z3.Implies(z3.Not(known), same_except(pre, post))]
        goals.append(z3.Implies(pc, z3.And(conj)))
    goals.append(z3.Or([z3.And(p.pc) if p.pc else z3.BoolVal(True) for p in paths if p.outcome[0] == "return"] or [z3.BoolVal(False)]))
    ctx.prove("c02_orphan_keeps_the_stream_id_reserved_until_the_server_answers", hyps, z3.And(goals), inputs=[rid, m_rp, m_rs], functions=f"ResponseHandlerMap::orphan, OrphanageTracker::insert [{FILE}]",
              bounds="one orphan step from EVERY table satisfying INV, any request id: a known request's stream id stays reserved (bit still set), moves to the orphanage, "
                     "its handler and request->stream entry are dropped; an unknown request changes nothing; every other entry untouched; INV holds again",
              backend="BV+arrays+quantified INV", assumes=LIB, witness=True, replay=lambda m: replay("orphan", m))


def _script(nat, ops):
    return nat.ask("hmap " + " ".join(ops)).split()


def replay(step, m):
    """native replay through the HandlerTable hook: the pre-state the model describes around the step's argument is rebuilt by a real
    history from the empty table (ids are handed out lowest-first), then the step is run and its clause re-checked"""
    from . import native
    nat = native.Native("drv")
    bad = []
    base = 10_000_000
    if step == "lookup":
        sid = (m.get("sid_in") or 0) & 0x7fff
        cls = "H" if m.get("m_hp") else ("O" if m.get("m_op") else "M")
        rid = 77
        ops = [f"a{base + i}" for i in range(sid)] + [f"a{rid}"]
        if cls == "O": ops.append(f"o{rid}")
        if cls == "M": ops.append(f"l{sid}")
        k = len(ops)
        ops += [f"l{sid}", f"r{sid}", "a5"]
        got = _script(nat, ops)
        want = [{"H": f"H{rid}", "O": "O", "M": "M"}[cls], "0", str(sid)]
        if got[k:] != want or got[:sid + 1] != [str(i) for i in range(sid + 1)]:
            bad.append({"stream_id": sid, "state_of_id": cls, "native": got[k:], "expected": want})
    elif step == "orphan":
        known = bool(m.get("m_rp"))
        sid = (m.get("m_rs") or 0) & 0x7fff
        rid = 77
        ops = [f"a{base + i}" for i in range(sid)] + ([f"a{rid}"] if known else [f"a{base + sid}"])
        k = len(ops)
        ops += [f"o{rid}", f"r{sid}", "a999", f"l{sid}", f"r{sid}"]
        got = _script(nat, ops)
        nxt = str(sid + 1) if sid < 32767 else "E"
        want = ["-", "1", nxt, "O", "0"] if known else ["-", "1", nxt, f"H{base + sid}", "0"]
        if got[k:] != want:
            bad.append({"request_known": known, "stream_id": sid, "native": got[k:], "expected": want})
    else:
        got = _script(nat, ["a1", "a2", "o1", "r0", "a3", "l0", "r0", "a4", "l1", "l0"])
        want = ["0", "1", "-", "1", "2", "O", "0", "0", "H2", "H4"]
        if got != want:
            bad.append({"scenario": "orphaned id must stay reserved until the server answers", "native": got, "expected": want})
        ops = [f"a{base + i}" for i in range(32768)] + ["a1", f"o{base + 5}", "s1100", "a2", "l7", "a3", "l7"]
        got = _script(nat, ops)[32768:]
        want = ["E", "-", "-", "E", f"H{base + 7}", "7", "H3"]
        if got != want:
            bad.append({"scenario": "exhausted table: old orphans must not be recycled", "native": got, "expected": want})
    nat.close()
    return native.record("C02", "hmap_" + step, {"mismatches": bad[:4], "model": {k: v for k, v in list(m.items())[:12]}}, bool(bad))
