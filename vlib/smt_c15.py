"""C15 — engine S: one `TableTablets::add_tablet` step from an arbitrary invariant-satisfying pre-state of N
tablets, then `tablet_for_token` for an arbitrary token. Encoded from the MIR of
scylla/src/routing/locator/tablets.rs; Vec/slice operations are modelled as sequence operations."""
import time
import z3
from mir2smt import dump, mir, solve, oblig, stdmodels as sm
from mir2smt.mir import Int, Bool, Tup, Enum, Ref, Cell, Seq, Opaque

FILE = "scylla/src/routing/locator/tablets.rs"
NEW = 1000
LIB = ("library models (trusted): slice::partition_point = first index where the predicate turns false on a partitioned slice "
       "(non-partitioned => unspecified, shown infeasible), Vec::drain(a..b)+drop removes items a..b (panics if a>b or b>len), "
       "Vec::insert(i,x) (panics if i>len), slice::get, Option::filter, Option::is_some, Vec deref; "
       "Token ordering = signed comparison of the i64 value (derived PartialOrd on a one-field struct)")


def models():
    def tok_cmp(op):
        def f(it, p, callee, args):
            a, b = sm.deref(args[0]), sm.deref(args[1])
            x, y = a.f[0], b.f[0]
            be = it.be
            if op == "lt": return Bool(be.slt(x.t, y.t, 64))
            if op == "le": return Bool(be.sle(x.t, y.t, 64))
            if op == "gt": return Bool(be.slt(y.t, x.t, 64))
            if op == "ge": return Bool(be.sle(y.t, x.t, 64))
            if op == "eq": return Bool(x.t == y.t)
            return Bool(x.t != y.t)
        return f
    return {r"<Token as PartialOrd>::lt$": tok_cmp("lt"), r"<Token as PartialOrd>::le$": tok_cmp("le"),
            r"<Token as PartialOrd>::gt$": tok_cmp("gt"), r"<Token as PartialOrd>::ge$": tok_cmp("ge"),
            r"<Token as PartialEq>::eq$": tok_cmp("eq"), r"<Token as PartialEq>::ne$": tok_cmp("ne"),
            r"partition_point::<": sm.m_partition_point, r"^<Vec<Tablet> as Deref>::deref$": sm.m_vec_deref,
            r"^Vec::<Tablet>::drain::<": sm.m_drain, r"^Vec::<Tablet>::insert$": sm.m_insert,
            r"core::slice::<impl \[Tablet\]>::get::<usize>$": sm.m_slice_get,
            r"^Option::<&Tablet>::filter::<": sm.m_option_filter,
            r"^Option::<RawTabletReplicas>::is_some$": sm.m_option_is_some,
            r" as (?:std::ops::)?Index<(?:std::ops::)?RangeFrom<usize>>>::index$": sm.m_index_range("from"),
            r" as (?:std::ops::)?Index<(?:std::ops::)?RangeTo<usize>>>::index$": sm.m_index_range("to"),
            r" as (?:std::ops::)?Index<(?:std::ops::)?Range<usize>>>::index$": sm.m_index_range("range")}


def mk_tablet(be, f, l, tag):
    return Tup([Tup([Int(f, 64, True)], "Token"), Tup([Int(l, 64, True)], "Token"), Int(be.const(tag, 32), 32, False),
                Enum(Int(be.const(1, 64), 64, True), {1: Tup([Opaque("raw")])}, mir.ENUM_VARIANTS["Option"], "Option")], "Tablet")


def run(tier, seed, only):
    ctx = oblig.Ctx(tier, only)
    try:
        mf = mir.MirFile(dump.dump("scylla"))
    except Exception as e:
        return [{"name": "smt:c15_mir_dump", "engine": "smt:mir2smt", "status": "inconclusive", "reason": str(e)[:500]}]
    sizes = [0, 1, 2, 3, 4] if tier == "quick" else [0, 1, 2, 3, 4, 5, 6]
    for N in sizes:
        try:
            one_size(ctx, mf, N)
        except mir.Unsupported as e:
            ctx.add(name=f"smt:c15_translate_n{N}", engine="smt:mir2smt", status="inconclusive",
                    reason="translator rejected the current source: " + str(e), functions=FILE)
    from . import smt_c15info, smt_c15maint
    smt_c15info.run(ctx, mf, tier)
    smt_c15maint.run(ctx, mf, tier)
    return ctx.results


def one_size(ctx, mf, N):
    be = mir.BVBackend()
    it = mir.Interp(mf, be, models(), max_steps=2000)
    add = mf.find(r"tablets\.rs:\d+:1: \d+:18>::add_tablet\(_1: &mut TableTablets")
    look = mf.find(r"::tablet_for_token\(_1: &TableTablets")
    f = [z3.BitVec(f"f{i}", 64) for i in range(N)]
    l = [z3.BitVec(f"l{i}", 64) for i in range(N)]
    nf, nl, q = z3.BitVecs("nf nl q", 64)
    MIN = z3.BitVecVal(-(1 << 63), 64)
    pre = [nf != MIN, nf <= nl, q != MIN]
    for i in range(N):
        pre += [f[i] != MIN, f[i] <= l[i]]
        if i > 0:
            pre.append(l[i - 1] < f[i])
    table = Tup([Opaque("spec"), Seq([mk_tablet(be, f[i], l[i], i) for i in range(N)]), Bool(z3.BoolVal(False))], "TableTablets")
    tcell = Cell(table)
    paths = it.run(add, [Ref(tcell), mk_tablet(be, nf, nl, NEW)], pre)
    F = f"TableTablets::add_tablet + closures, TableTablets::tablet_for_token + closures [{FILE}]"
    B = (f"arbitrary pre-state of N={N} tablets satisfying the invariant (sorted, pairwise disjoint, first<=last, tokens != i64::MIN), "
         "all bounds fully symbolic i64; new tablet [nf,nl] symbolic; query token symbolic; BV64 exact")
    OUT = ("TabletsInfo (per-table hash map), perform_maintenance, per-DC replica restriction, RawTablet::from_custom_payload; "
           f"pre-states with more than {N} tablets in this obligation (one inductive step covers histories of any length over lists of this size)")
    inputs = f + l + [nf, nl, q]
    bad = [p for p in paths if p.outcome[0] != "return"]
    good = [p for p in paths if p.outcome[0] == "return"]
    goal = z3.Not(z3.Or([z3.And(p.pc) for p in bad])) if bad else z3.BoolVal(True)
    ctx.prove(f"c15_add_n{N}_no_panic_and_partitioned", pre, goal, inputs=inputs, functions=F, bounds=B, backend="BV",
              assumes=LIB, outside=OUT, replay=lambda m, N=N: replay(m, N))
    if not good:
        raise mir.Unsupported("add_tablet has no returning path")
    # ---- structural post-condition, per returning path (concrete list shape)
    ovl = [z3.And(f[i] <= nl, nf <= l[i]) for i in range(N)]
    n_ovl = z3.Sum([z3.If(o, 1, 0) for o in ovl]) if N else z3.IntVal(0)
    struct_goal, look_goal = [], []
    covered = []
    for p in good:
        pc = z3.And(p.pc)
        covered.append(pc)
        tab = sm.deref(Ref(p.locals[1].v.cell)) if isinstance(p.locals[1].v, Ref) else None
        items = tab.f[1].items
        conj = [z3.IntVal(len(items)) == N - n_ovl + 1]
        news = 0
        for k, t in enumerate(items):
            tf, tl, tag = t.f[0].f[0].t, t.f[1].f[0].t, z3.simplify(t.f[2].t).as_long()
            conj.append(tf <= tl)
            if k + 1 < len(items):
                conj.append(tl < items[k + 1].f[0].f[0].t)
            if tag == NEW:
                news += 1
                conj += [tf == nf, tl == nl]
            else:
                conj += [tf == f[tag], tl == l[tag], z3.Not(ovl[tag])]
        conj.append(z3.BoolVal(news == 1))
        struct_goal.append(z3.Implies(pc, z3.And(conj)))
        # ---- lookup on the post-state of this path
        it2 = mir.Interp(mf, be, models(), max_steps=2000)
        lp = it2.run(look, [Ref(Cell(mir.copy_value(tab))), Tup([Int(q, 64, True)], "Token")], list(p.pc))
        for r in lp:
            rpc = z3.And(r.pc)
            if r.outcome[0] != "return":
                look_goal.append(z3.Not(rpc))
                continue
            o = r.outcome[1]
            is_some = o.discr.t == 1
            if 1 in o.payloads:
                t = sm.deref(o.payloads[1].f[0])
                got = (t.f[0].f[0].t, t.f[1].f[0].t, z3.simplify(t.f[2].t).as_long())
            else:
                got = None
            in_new = z3.And(nf <= q, q <= nl)
            exp_old = [z3.And(f[i] <= q, q <= l[i], z3.Not(ovl[i])) for i in range(N)]
            conj = []
            # inside the new tablet -> answered by it
            conj.append(z3.Implies(in_new, z3.And(is_some, z3.BoolVal(got is not None and got[2] == NEW))))
            for i in range(N):
                conj.append(z3.Implies(z3.And(z3.Not(in_new), exp_old[i]), z3.And(is_some, z3.BoolVal(got is not None and got[2] == i))))
            conj.append(z3.Implies(z3.And(z3.Not(in_new), z3.Not(z3.Or(exp_old)) if N else z3.BoolVal(True)), z3.Not(is_some)))
            if got is not None:
                # whatever is returned really covers the token and is a current tablet
                conj.append(z3.Implies(is_some, z3.And(got[0] <= q, q <= got[1])))
            look_goal.append(z3.Implies(rpc, z3.And(conj)))
    ctx.prove(f"c15_add_n{N}_sorted_disjoint_latest_present", pre + [z3.Or(covered)], z3.And(struct_goal), inputs=inputs, functions=F,
              bounds=B, backend="BV", assumes=LIB, outside=OUT, replay=lambda m, N=N: replay(m, N))
    ctx.prove(f"c15_add_n{N}_lookup_latest_wins_never_stale", pre + [z3.Or(covered)], z3.And(look_goal), inputs=inputs, functions=F,
              bounds=B, backend="BV", assumes=LIB, outside=OUT, replay=lambda m, N=N: replay(m, N))
    # all pre-states are covered by some path (no input silently dropped by pruning)
    ctx.prove(f"c15_add_n{N}_paths_cover_all_inputs", pre, z3.Or([z3.And(p.pc) for p in paths]), inputs=inputs, functions=F, bounds=B,
              backend="BV", assumes=LIB, witness=False)


def replay(m, N):
    """native replay through the hook API: rebuild the pre-state, add, look up, compare with the oracle"""
    from . import native
    def s64(v):
        v = v or 0
        return v - (1 << 64) if v >= (1 << 63) else v
    pre = [(s64(m.get(f"f{i}")), s64(m.get(f"l{i}"))) for i in range(N)]
    nf, nl, q = s64(m.get("nf")), s64(m.get("nl")), s64(m.get("q"))
    nat = native.Native("drv")
    cmd = f"tablets {N} " + " ".join(f"{a} {b}" for a, b in pre) + f" {nf} {nl} {q}"
    got = nat.ask(cmd)
    nat.close()
    # oracle
    ovl = [a <= nl and nf <= b for a, b in pre]
    exp_list = sorted([(a, b, i) for i, (a, b) in enumerate(pre) if not ovl[i]] + [(nf, nl, NEW)])
    if nf <= q <= nl:
        exp_look = (nf, nl, NEW)
    else:
        exp_look = next(((a, b, i) for i, (a, b) in enumerate(pre) if a <= q <= b and not ovl[i]), None)
    exp = "LIST " + " ".join(f"{a},{b},{t}" for a, b, t in exp_list) + " LOOKUP " + ("None" if exp_look is None else f"{exp_look[0]},{exp_look[1]},{exp_look[2]}")
    return native.record("C15", f"add_n{N}", {"inputs": m, "native": got, "expected": exp, "cmd": cmd}, got != exp)
