"""C11 — engine S obligations: shard_of, shard_of_source_port, calculate_lowest_port_for_shard_in_range,
ShardInfo::new.  Encoded from the MIR of scylla/src/routing/sharding.rs (dumped on every run)."""
import re, time, random, subprocess, os, json
import z3
from mir2smt import dump, mir, solve, oblig, stdmodels as sm
from . import native

FILE = "scylla/src/routing/sharding.rs"


def models():
    def nonzero_get(it, p, callee, args): return args[0]

    def wrapping_add(it, p, callee, args):
        a, b = args
        return mir.Int(it.be.add(a.t, b.t, a.w), a.w, a.signed)

    def from_int(it, p, callee, args):
        m = re.match(r"<(\w+) as From<(\w+)>>::from$", callee)
        w, s = mir.INT_TYPES[m.group(1)]
        a = args[0]
        return mir.Int(it.be.resize(a.t, a.w, w, a.signed), w, s)

    def range_start(it, p, callee, args):
        r = args[0]
        return mir.Ref(r.cell, r.path + (("field", 0),))

    def range_end(it, p, callee, args):
        r = args[0]
        return mir.Ref(r.cell, r.path + (("field", 1),))

    def checked_add(it, p, callee, args):
        a, b = args
        be = it.be
        ov = be.add_overflow(a.t, b.t, a.w, a.signed)
        d = be.ite(ov, be.const(0, 64), be.const(1, 64))
        return mir.Enum(mir.Int(d, 64, True), {1: mir.Tup([mir.Int(be.add(a.t, b.t, a.w), a.w, a.signed)])},
                        mir.ENUM_VARIANTS["Option"], "Option")

    def try_branch_option(it, p, callee, args):
        o = args[0]
        be = it.be
        d = be.ite(be.eq(o.discr.t, be.const(1, 64), 64), be.const(0, 64), be.const(1, 64))
        pl = {1: mir.Tup([mir.Opaque("residual")])}
        if 1 in o.payloads:
            pl[0] = o.payloads[1]
        return mir.Enum(mir.Int(d, 64, True), pl, mir.ENUM_VARIANTS["ControlFlow"], "ControlFlow")

    def then_some(it, p, callee, args):
        c, v = args
        be = it.be
        d = be.ite(c.t, be.const(1, 64), be.const(0, 64))
        return mir.Enum(mir.Int(d, 64, True), {1: mir.Tup([v])}, mir.ENUM_VARIANTS["Option"], "Option")

    def from_residual_none(it, p, callee, args):
        return mir.Enum(it.const_int(0, "isize"), {}, mir.ENUM_VARIANTS["Option"], "Option")

    return {r"NonZero::<u16>::get$": nonzero_get,
            r"core::num::<impl u64>::wrapping_add$": wrapping_add,
            r"^<u\d+ as From<u\d+>>::from$": from_int,
            r"RangeInclusive::<u16>::start$": range_start, r"RangeInclusive::<u16>::end$": range_end,
            r"core::num::<impl u16>::checked_add$": checked_add,
            r"^<Option<u16> as Try>::branch$": try_branch_option,
            r"bool>::then_some::<u16>$": then_some,
            r"^<Option<u16> as FromResidual<Option<Infallible>>>::from_residual$": from_residual_none,
            "__consts__": {"Option::<Infallible>::None": mir.Opaque("None")}}


LIB_MODELS = ("library models (trusted): NonZero::get = identity, u64::wrapping_add, u32::from(u16), RangeInclusive::{start,end} = fields 0/1, "
              "u16::checked_add, Option Try::branch/from_residual, bool::then_some")


def panic_free(ctx, name, paths, pre, inputs, functions, bounds, backend, replay=None):
    """every MIR assert / unreachable that survived pruning must be infeasible under the precondition"""
    bad = [p for p in paths if p.outcome[0] != "return"]
    goal = z3.Not(z3.Or([z3.And(p.pc) for p in bad])) if bad else z3.BoolVal(True)
    return ctx.prove(name, pre, goal, inputs=inputs, functions=functions, bounds=bounds, backend=backend,
                     assumes=LIB_MODELS + "; MIR asserts = overflow / division-by-zero / shift-range checks of the dev profile",
                     replay=replay)


def opt_parts(paths, npre):
    is_some, val = z3.BoolVal(False), z3.IntVal(0)
    for p in paths:
        if p.outcome[0] != "return":
            continue
        pc = z3.And(p.pc[npre:]) if len(p.pc) > npre else z3.BoolVal(True)
        e = p.outcome[1]
        some_here = e.discr.t == 1
        v = e.payloads[1].f[0].t if 1 in e.payloads else z3.IntVal(0)
        is_some = z3.If(pc, some_here, is_some)
        val = z3.If(pc, v, val)
    return is_some, val


def run(tier, seed, only):
    ctx = oblig.Ctx(tier, only)
    t0 = time.time()
    try:
        mf = mir.MirFile(dump.dump("scylla"))
    except Exception as e:
        return [{"name": "smt:c11_mir_dump", "engine": "smt:mir2smt", "status": "inconclusive", "reason": str(e)[:500]}]
    nat = native.Native("drv")
    try:
        _run(ctx, mf, nat, tier, seed)
    except mir.Unsupported as e:
        ctx.add(name="smt:c11_translate", engine="smt:mir2smt", status="inconclusive",
                reason="translator rejected the current source: " + str(e), functions=FILE)
    finally:
        nat.close()
    return ctx.results


def _run(ctx, mf, nat, tier, seed):
    be = mir.IntBackend()
    rnd = random.Random(seed)
    # ------------------------------------------------------------------ shard_of
    fn = mf.find(r"::shard_of\(")
    it = mir.Interp(mf, be, models())
    tok, n, msb = z3.Ints("token n msb")
    pre = [tok >= 0, tok < 2 ** 64, n >= 1, n <= 65535, msb >= 0, msb <= 63]
    sharder = mir.Tup([mir.Int(n, 16, False), mir.Int(msb, 8, False)], "Sharder")
    paths = it.run(fn, [mir.Ref(mir.Cell(sharder)), mir.Tup([mir.Int(tok, 64, True)], "Token")], pre)
    F = "Sharder::shard_of [" + FILE + "]"
    B = "all token: i64 (2^64 values), nr_shards 1..=65535, msb_ignore 0..=63; INT encoding with explicit mod 2^k (shift = multiplication by 2^msb table)"

    def replay_shard(m):
        t = m.get("token", 0)
        t = t - 2 ** 64 if t >= 2 ** 63 else t
        got = nat.ask(f"shard_of {t} {m.get('n', 1)} {m.get('msb', 0)}")
        spec = ((((t + 2 ** 63) % 2 ** 64) << m.get("msb", 0)) % 2 ** 64) * m.get("n", 1) >> 64
        bad = got == "PANIC" or int(got) != spec or int(got) >= m.get("n", 1)
        return native.record("C11", "shard_of", {"inputs": m, "native": got, "spec": spec}, bad)

    panic_free(ctx, "c11_shard_of_no_panic", paths, pre, [tok, n, msb], F, B, "INT", replay_shard)
    rets = [(z3.And(p.pc[len(pre):]) if len(p.pc) > len(pre) else z3.BoolVal(True), p.outcome[1]) for p in paths if p.outcome[0] == "return"]
    if not rets:
        raise mir.Unsupported("shard_of has no returning path")
    ret = oblig.ite_merge_int(rets)
    # ScyllaDB definition, written independently: bias by 2^63, shift left by msb (mod 2^64), multiply by n, take the high 64 bits
    pow2 = z3.IntVal(0)
    for i in reversed(range(64)):
        pow2 = z3.If(msb == i, z3.IntVal(1 << i), pow2)
    biased = (tok + 2 ** 63) % 2 ** 64     # tok is the unsigned representation of the i64 token: signed+2^63 mod 2^64 is the same
    spec = ((biased * pow2) % 2 ** 64) * n / 2 ** 64
    ok_ret = [p for p in paths if p.outcome[0] == "return"]
    reach = pre + ([z3.Or([z3.And(p.pc) for p in ok_ret])])
    ctx.prove("c11_shard_of_matches_scylla", reach, ret == spec, inputs=[tok, n, msb], functions=F, bounds=B, backend="INT",
              assumes=LIB_MODELS, replay=replay_shard)
    ctx.prove("c11_shard_of_below_nr_shards", reach, z3.And(ret >= 0, ret < n), inputs=[tok, n, msb], functions=F, bounds=B,
              backend="INT", assumes=LIB_MODELS, replay=replay_shard)
    # translator validation on concrete inputs (repo's unit-test vectors + seeded random)
    vec = [(-9223372036854775808, 4, 12), (-1, 4, 12), (0, 4, 12), (9223372036854775807, 4, 12), (-3074457345618258602, 3, 0)]
    for _ in range(300 if tier == "quick" else 2000):
        vec.append((rnd.randrange(-2 ** 63, 2 ** 63), rnd.choice([1, 2, 3, 7, 8, 64, 1000, 65535, rnd.randrange(1, 65536)]), rnd.randrange(0, 64)))
    vec += [(t, nn, mm) for t in (-2 ** 63, -1, 0, 1, 2 ** 63 - 1) for nn in (1, 2, 65535) for mm in (0, 1, 63)]
    bad = 0
    answers = nat.ask_many([f"shard_of {t} {nn} {mm}" for t, nn, mm in vec])
    for (t, nn, mm), got in zip(vec, answers):
        enc = z3.simplify(z3.substitute(ret, (tok, z3.IntVal(t % 2 ** 64)), (n, z3.IntVal(nn)), (msb, z3.IntVal(mm))))
        if got == "PANIC" or not z3.is_int_value(enc) or enc.as_long() != int(got):
            bad += 1
            first_bad = (t, nn, mm, got, str(enc))
    ctx.add(name="smt:c11_shard_of_translator_validation", engine="mir2smt vs native (concrete evaluation of the encoding)",
            status="discharged" if bad == 0 else "inconclusive", cover="1/1",
            reason=None if bad == 0 else f"encoding and native function disagree on {bad} inputs, e.g. {first_bad}",
            functions=F, bounds=f"{len(vec)} concrete inputs (unit-test vectors, boundaries, VERIF_SEED-seeded random); validates the translator, not the property",
            time_s=0.0)

    # ------------------------------------------------------------------ shard_of_source_port
    fn = mf.find(r"::shard_of_source_port\(")
    it = mir.Interp(mf, be, models())
    port = z3.Int("port")
    pre2 = [port >= 0, port <= 65535, n >= 1, n <= 65535]
    sh2 = mir.Tup([mir.Int(n, 16, False), mir.Int(z3.IntVal(0), 8, False)], "Sharder")
    paths = it.run(fn, [mir.Ref(mir.Cell(sh2)), mir.Int(port, 16, False)], pre2)
    F2 = "Sharder::shard_of_source_port [" + FILE + "]"
    B2 = "all ports 0..=65535, nr_shards 1..=65535"
    panic_free(ctx, "c11_shard_of_port_no_panic", paths, pre2, [port, n], F2, B2, "INT")
    rets = [(z3.And(p.pc[len(pre2):]) if len(p.pc) > len(pre2) else z3.BoolVal(True), p.outcome[1]) for p in paths if p.outcome[0] == "return"]
    ret2 = oblig.ite_merge_int(rets)
    k = z3.Int("k")
    # port mod n, stated without mod: ret < n and port = k*n + ret
    ctx.prove("c11_shard_of_port_is_remainder", pre2, z3.And(ret2 >= 0, ret2 < n, (port - ret2) % n == 0), inputs=[port, n],
              functions=F2, bounds=B2, backend="INT", assumes=LIB_MODELS)

    # ------------------------------------------------------------------ lowest port in range
    fn = mf.find(r"::calculate_lowest_port_for_shard_in_range\(")
    it = mir.Interp(mf, be, models())
    shard, lo, hi, q = z3.Ints("shard lo hi q")
    pre3 = [n >= 1, n <= 65535, shard >= 0, shard < n, lo >= 1024, lo <= hi, hi <= 65535]
    sh3 = mir.Tup([mir.Int(n, 16, False), mir.Int(z3.IntVal(0), 8, False)], "Sharder")
    rng = mir.Tup([mir.Tup([mir.Int(lo, 16, False), mir.Int(hi, 16, False), mir.Bool(z3.BoolVal(False))], "RangeInclusive")],
                  "ShardAwarePortRange")
    paths = it.run(fn, [mir.Ref(mir.Cell(sh3)), mir.Int(shard, 16, False), mir.Ref(mir.Cell(rng))], pre3)
    F3 = "Sharder::calculate_lowest_port_for_shard_in_range [" + FILE + "]"
    B3 = "all nr_shards 1..=65535, shard < nr_shards, 1024 <= lo <= hi <= 65535 (every valid ShardAwarePortRange); q = arbitrary witness port (skolemised universal)"

    def replay_low(m):
        got = nat.ask(f"lowest_port {m.get('n',1)} {m.get('shard',0)} {m.get('lo',1024)} {m.get('hi',1024)}")
        nn, s, l, h = m.get("n", 1), m.get("shard", 0), m.get("lo", 1024), m.get("hi", 1024)
        want = [p for p in range(l, h + 1) if p % nn == s]
        exp = str(want[0]) if want else "None"
        return native.record("C11", "lowest_port", {"inputs": m, "native": got, "expected": exp}, got != exp)

    panic_free(ctx, "c11_lowest_port_no_panic", paths, pre3, [n, shard, lo, hi], F3, B3, "INT", replay_low)
    is_some, val = opt_parts(paths, len(pre3))
    g_some = z3.Implies(is_some, z3.And(lo <= val, val <= hi, val % n == shard,
                                        z3.Not(z3.And(lo <= q, q < val, q % n == shard))))
    g_none = z3.Implies(z3.Not(is_some), z3.Not(z3.And(lo <= q, q <= hi, q % n == shard)))
    ctx.prove("c11_lowest_port_some_is_lowest_congruent_in_range", pre3, g_some, inputs=[n, shard, lo, hi, q], functions=F3, bounds=B3,
              backend="INT", assumes=LIB_MODELS, replay=replay_low)
    ctx.prove("c11_lowest_port_none_iff_no_congruent_port", pre3, g_none, inputs=[n, shard, lo, hi, q], functions=F3, bounds=B3,
              backend="INT", assumes=LIB_MODELS, replay=replay_low)
    # translator validation
    vec = []
    for _ in range(300 if tier == "quick" else 2000):
        nn = rnd.choice([1, 2, 3, 7, 8, 64, 1000, 65535, rnd.randrange(1, 65536)])
        l = rnd.randrange(1024, 65536); h = rnd.randrange(l, min(65535, l + rnd.choice([0, 1, nn, 3 * nn, 70000])) + 1)
        vec.append((nn, rnd.randrange(0, nn), l, h))
    vec += [(4, 3, 1024, 1030), (3, 1, 65534, 65535), (65535, 65534, 1024, 65535), (65535, 0, 65535, 65535)]
    answers = nat.ask_many([f"lowest_port {a} {b} {c} {d}" for a, b, c, d in vec])
    bad = 0
    for (a, b, c, d), got in zip(vec, answers):
        sub = [(n, z3.IntVal(a)), (shard, z3.IntVal(b)), (lo, z3.IntVal(c)), (hi, z3.IntVal(d))]
        s_ = z3.simplify(z3.substitute(is_some, *sub)); v_ = z3.simplify(z3.substitute(val, *sub))
        enc = str(v_.as_long()) if z3.is_true(s_) else "None"
        if enc != got:
            bad += 1; first_bad = (a, b, c, d, got, enc)
    ctx.add(name="smt:c11_lowest_port_translator_validation", engine="mir2smt vs native (concrete evaluation of the encoding)",
            status="discharged" if bad == 0 else "inconclusive", cover="1/1",
            reason=None if bad == 0 else f"encoding and native function disagree on {bad} inputs, e.g. {first_bad}",
            functions=F3, bounds=f"{len(vec)} concrete inputs; validates the translator, not the property", time_s=0.0)

    # ------------------------------------------------------------------ ShardInfo::new
    fn = mf.find(r"ShardInfo::new\(|sharding::<impl at [^>]*>::new\(_1: u16, _2: NonZero<u16>, _3: u8\)")
    it = mir.Interp(mf, be, models())
    msb8 = z3.Int("msb8")
    pre4 = [shard >= 0, shard <= 65535, n >= 1, n <= 65535, msb8 >= 0, msb8 <= 255]
    paths = it.run(fn, [mir.Int(shard, 16, False), mir.Int(n, 16, False), mir.Int(msb8, 8, False)], pre4)
    F4 = "ShardInfo::new [" + FILE + "]"
    B4 = "all shard: u16, nr_shards 1..=65535, msb_ignore: u8"
    panic_free(ctx, "c11_shard_info_new_no_panic", paths, pre4, [shard, n, msb8], F4, B4, "INT")
    is_err = z3.BoolVal(False)
    for p in paths:
        if p.outcome[0] == "return":
            pc = z3.And(p.pc[len(pre4):]) if len(p.pc) > len(pre4) else z3.BoolVal(True)
            is_err = z3.If(pc, p.outcome[1].discr.t == 1, is_err)
    ctx.prove("c11_shard_info_rejects_iff_shard_out_of_range", pre4, is_err == (shard >= n), inputs=[shard, n, msb8], functions=F4,
              bounds=B4, backend="INT", assumes=LIB_MODELS)
    try:
        supported_options(ctx, mf)
    except mir.Unsupported as e:
        ctx.add(name="smt:c11_translate_supported_options", engine="smt:mir2smt", status="inconclusive",
                reason="translator rejected the current source: " + str(e), functions=FILE)
    try:
        glue(ctx, mf)
    except mir.Unsupported as e:
        ctx.add(name="smt:c11_translate_glue", engine="smt:mir2smt", status="inconclusive",
                reason="translator rejected the current source: " + str(e), functions=FILE)


# ====================================================================== iterator / draw glue (abstract iterator semantics)
ITER_LIB = ("library models (trusted): RangeInclusive::new, step_by (panics on step 0), ExactSizeIterator::len = floor((end-start)/step)+1 (0 if empty), "
            "StepBy::nth(i) = start+i*step if i < len, Iterator::{skip,take,chain}, iter::empty, itertools::Either, Option::unwrap (panics on None), "
            "rand random_range(0..n) = any value in [0,n) (panics if n == 0)")


def iter_models(rvar):
    from mir2smt.mir import Tup as T
    m = models()
    m.update(sm.INT_MODELS)
    m[r"RangeInclusive::<u16>::new$"] = lambda it, p, c, a: T([a[0], a[1], mir.Bool(z3.BoolVal(False))], "RangeInclusive")

    def step_by(it, p, c, a):
        q = mir.fork(p); q.pc.append(a[1].t == 0)
        out = []
        if it.feasible(q.pc):
            q.outcome = ("panic", "step_by(0)"); out.append((q, mir.PANIC))
        p.pc.append(a[1].t != 0)
        out.append((p, T([a[0], a[1]], "StepBy")))
        return out
    m[r"^<std::ops::RangeInclusive<u16> as Iterator>::step_by$"] = step_by
    m[r"ExactSizeIterator>::len$"] = lambda it, p, c, a: mir.Int(sem(sm.deref(a[0]))[0], 64, False)
    m[r"^rng$"] = lambda it, p, c, a: mir.Opaque("rng")

    def random_range(it, p, c, a):
        rng = a[1]
        lo_, hi_ = rng.f[0].t, rng.f[1].t
        q = mir.fork(p); q.pc.append(z3.Not(lo_ < hi_))
        out = []
        if it.feasible(q.pc):
            q.outcome = ("panic", "random_range on an empty range"); out.append((q, mir.PANIC))
        p.pc += [lo_ < hi_, rvar >= lo_, rvar < hi_]
        out.append((p, mir.Int(rvar, rng.f[0].w, False)))
        return out
    m[r"^<ThreadRng as Rng>::random_range::<\w+, std::ops::Range<\w+>>$"] = random_range

    def saturating_sub(it, p, c, a):
        x, y = a
        return mir.Int(z3.If(x.t >= y.t, x.t - y.t, z3.IntVal(0)), x.w, x.signed)
    m[r"core::num::<impl u\w+>::saturating_sub$"] = saturating_sub

    def nth(it, p, c, a):
        cnt, elem = sem(sm.deref(a[0]))
        i = a[1].t
        d = z3.If(z3.And(i >= 0, i < cnt), z3.IntVal(1), z3.IntVal(0))
        return mir.Enum(mir.Int(d, 64, True), {1: T([mir.Int(elem(i), 16, False)])}, mir.ENUM_VARIANTS["Option"], "Option")
    m[r"^<StepBy<std::ops::RangeInclusive<u16>> as Iterator>::nth$"] = nth

    def unwrap(it, p, c, a):
        o = a[0]
        q = mir.fork(p); q.pc.append(o.discr.t != 1)
        out = []
        if it.feasible(q.pc):
            q.outcome = ("panic", "Option::unwrap on None"); out.append((q, mir.PANIC))
        p.pc.append(o.discr.t == 1)
        out.append((p, o.payloads[1].f[0]))
        return out
    m[r"^Option::<u16>::unwrap$"] = unwrap
    m[r"as Iterator>::skip$"] = lambda it, p, c, a: T([a[0], a[1]], "Skip")
    m[r"as Iterator>::take$"] = lambda it, p, c, a: T([a[0], a[1]], "Take")
    m[r"as Iterator>::chain::<"] = lambda it, p, c, a: T([a[0], a[1]], "Chain")
    m[r"^std::iter::empty::<u16>$"] = lambda it, p, c, a: T([], "Empty")

    def closure_call(it, p, callee, args):
        body = sm.find_closure(it, callee)
        return it.call_mir(body, p, [args[0]])
    m[r"^<\{closure@.*\} as Fn<\(\)>>::call$"] = closure_call
    m["__consts__"]["()"] = mir.Unit()
    return m


def sem(v):
    """(count, elem(i)) of an abstract iterator value, as INT terms"""
    if isinstance(v, mir.Opaque):
        if "iter::Empty" in v.name:
            return z3.IntVal(0), (lambda i: z3.IntVal(0))
        raise mir.Unsupported("abstract iterator " + v.name)
    if v.name == "StepBy":
        a, b, st = v.f[0].f[0].t, v.f[0].f[1].t, v.f[1].t
        cnt = z3.If(a <= b, (b - a) / st + 1, z3.IntVal(0))
        return cnt, (lambda i: a + i * st)
    if v.name == "Skip":
        c, e = sem(v.f[0]); n = v.f[1].t
        return z3.If(c - n > 0, c - n, z3.IntVal(0)), (lambda i: e(i + n))
    if v.name == "Take":
        c, e = sem(v.f[0]); n = v.f[1].t
        return z3.If(c < n, c, n), e
    if v.name == "Chain":
        ca, ea = sem(v.f[0]); cb, eb = sem(v.f[1])
        return ca + cb, (lambda i: z3.If(i < ca, ea(i), eb(i - ca)))
    if v.name == "Empty" or (isinstance(v, mir.Opaque) and "iter::Empty" in v.name):
        return z3.IntVal(0), (lambda i: z3.IntVal(0))
    raise mir.Unsupported("abstract iterator " + str(v.name))


def sem_idx(v):
    """(count, idx(i), (a, b, st)): the element at position i is a + idx(i)*st of the underlying StepBy"""
    if isinstance(v, mir.Opaque) or v.name == "Empty":
        return z3.IntVal(0), (lambda i: z3.IntVal(0)), None
    if v.name == "StepBy":
        a, b, st = v.f[0].f[0].t, v.f[0].f[1].t, v.f[1].t
        return z3.If(a <= b, (b - a) / st + 1, z3.IntVal(0)), (lambda i: i), (a, b, st)
    if v.name == "Skip":
        c, e, base = sem_idx(v.f[0]); n = v.f[1].t
        return z3.If(c - n > 0, c - n, z3.IntVal(0)), (lambda i: e(i + n)), base
    if v.name == "Take":
        c, e, base = sem_idx(v.f[0]); n = v.f[1].t
        return z3.If(c < n, c, n), e, base
    if v.name == "Chain":
        ca, ea, b1 = sem_idx(v.f[0]); cb, eb, b2 = sem_idx(v.f[1])
        if b1 is None or b2 is None or not all(x.eq(y) for x, y in zip(b1, b2)):
            raise mir.Unsupported("chain of iterators over different step ranges")
        return ca + cb, (lambda i: z3.If(i < ca, ea(i), eb(i - ca))), b1
    raise mir.Unsupported("abstract iterator " + str(v.name))


def glue(ctx, mf):
    be = mir.IntBackend()
    n, shard, lo, hi, q, r, i, j = z3.Ints("n shard lo hi q r i j")
    pre = [n >= 1, n <= 65535, shard >= 0, shard < n, lo >= 1024, lo <= hi, hi <= 65535]
    def args():
        sh = mir.Tup([mir.Int(n, 16, False), mir.Int(z3.IntVal(0), 8, False)], "Sharder")
        rng = mir.Tup([mir.Tup([mir.Int(lo, 16, False), mir.Int(hi, 16, False), mir.Bool(z3.BoolVal(False))], "RangeInclusive")], "ShardAwarePortRange")
        return [mir.Ref(mir.Cell(sh)), mir.Int(shard, 32, False), mir.Ref(mir.Cell(rng))]
    INL = [r"calculate_lowest_port_for_shard_in_range$"]
    B = "all nr_shards 1..=65535, shard < nr_shards, every valid port range 1024 <= lo <= hi <= 65535, every value the RNG can return; arbitrary witness port q / indices i, j (skolemised)"
    exists_q = z3.And(lo <= q, q <= hi, q % n == shard)
    # ---------------- draw
    fn = mf.find(r"::draw_source_port_for_shard_from_range\(")
    it = mir.Interp(mf, be, iter_models(r), inline=INL, max_steps=3000)
    paths = it.run(fn, args(), pre)
    F = "Sharder::draw_source_port_for_shard_from_range (+ calculate_lowest_port_for_shard_in_range) [" + FILE + "]"
    bad = [p for p in paths if p.outcome[0] != "return"]
    good = [p for p in paths if p.outcome[0] == "return"]
    if not good:
        raise mir.Unsupported("draw: no returning path")
    ctx.prove("c11_draw_no_panic", pre, z3.Not(z3.Or([z3.And(p.pc[len(pre):]) for p in bad])) if bad else z3.BoolVal(True),
              inputs=[n, shard, lo, hi, r], functions=F, bounds=B, backend="INT", assumes=LIB_MODELS + "; " + ITER_LIB, replay=lambda m: replay_glue(m, "draw"))
    g_some, g_none = [], []
    for p in good:
        pc = z3.And(p.pc[len(pre):]) if len(p.pc) > len(pre) else z3.BoolVal(True)
        o = p.outcome[1]
        is_some = o.discr.t == 1
        val = o.payloads[1].f[0].t if 1 in o.payloads else z3.IntVal(0)
        g_some.append(z3.Implies(z3.And(pc, is_some), z3.And(lo <= val, val <= hi, val % n == shard)))
        g_none.append(z3.Implies(z3.And(pc, z3.Not(is_some)), z3.Not(exists_q)))
    ctx.prove("c11_draw_port_in_range_and_congruent", pre, z3.And(g_some), inputs=[n, shard, lo, hi, r], functions=F, bounds=B, backend="INT",
              assumes=LIB_MODELS + "; " + ITER_LIB, replay=lambda m: replay_glue(m, "draw"))
    ctx.prove("c11_draw_none_only_if_no_congruent_port", pre, z3.And(g_none), inputs=[n, shard, lo, hi, r, q], functions=F, bounds=B, backend="INT",
              assumes=LIB_MODELS + "; " + ITER_LIB, replay=lambda m: replay_glue(m, "draw"))
    # ---------------- iterator
    fn = mf.find(r"::iter_source_ports_for_shard_from_range\(")
    it = mir.Interp(mf, be, iter_models(r), inline=INL, max_steps=3000)
    paths = it.run(fn, args(), pre)
    F2 = "Sharder::iter_source_ports_for_shard_from_range (+ closure, calculate_lowest_port_for_shard_in_range) [" + FILE + "]"
    bad = [p for p in paths if p.outcome[0] != "return"]
    good = [p for p in paths if p.outcome[0] == "return"]
    if not good:
        raise mir.Unsupported("iter: no returning path")
    ctx.prove("c11_iter_no_panic", pre, z3.Not(z3.Or([z3.And(p.pc[len(pre):]) for p in bad])) if bad else z3.BoolVal(True),
              inputs=[n, shard, lo, hi, r], functions=F2, bounds=B, backend="INT", assumes=LIB_MODELS + "; " + ITER_LIB, replay=lambda m: replay_glue(m, "iter"))
    g_sound, g_inj, g_complete = [], [], []
    for p in good:
        pc = z3.And(p.pc[len(pre):]) if len(p.pc) > len(pre) else z3.BoolVal(True)
        e = p.outcome[1]
        d = z3.simplify(e.discr.t)
        side = e.payloads[d.as_long()].f[0] if z3.is_int_value(d) and d.as_long() in e.payloads else None
        if side is None:
            raise mir.Unsupported("iter: result is not a concrete Either side")
        cnt, elem = sem(side)
        ii = z3.And(i >= 0, i < cnt); jj = z3.And(j >= 0, j < cnt)
        # lemma discipline: the position i maps to an index idx of the underlying step range [a, a+st, ..]; the three arithmetic
        # facts needed (each discharged as its own obligation below) are instantiated as hypotheses
        cnt_i, idx, base = sem_idx(side)
        if base is None:
            g_sound.append(z3.Implies(z3.And(pc, ii), z3.BoolVal(False)))
        else:
            a_, b_, st_ = base
            total = z3.If(a_ <= b_, (b_ - a_) / st_ + 1, z3.IntVal(0))
            x = idx(i)
            hyp = z3.And(
                z3.Implies(z3.And(st_ > 0, x >= 0), (a_ + x * st_) % st_ == a_ % st_),                       # L1[x := a, y := idx, m := st]
                z3.Implies(z3.And(st_ > 0, b_ - a_ >= 0), ((b_ - a_) / st_) * st_ <= b_ - a_),                # L2[d := b-a, m := st]
                z3.Implies(z3.And(st_ > 0, x >= 0, x <= total - 1), x * st_ <= (total - 1) * st_))            # L3[y := idx, z := total-1, m := st]
            g_sound.append(z3.Implies(z3.And(pc, ii, hyp), z3.And(x >= 0, x < total, elem(i) == a_ + x * st_, lo <= elem(i), elem(i) <= hi, elem(i) % n == shard)))
        g_inj.append(z3.Implies(z3.And(pc, ii, jj, i != j), elem(i) != elem(j)))
        # completeness: every congruent port q of the range is produced at some index (witness index k supplied as a free variable
        # constrained only by the specification side: q = first + k*n with first the lowest congruent port)
        k = z3.Int("k")
        g_complete.append(z3.Implies(z3.And(pc, exists_q), cnt > 0))
        g_complete.append(z3.Implies(z3.And(pc, exists_q, cnt > 0, k >= 0, k < cnt, elem(0) + 0 * k >= 0),
                                     z3.BoolVal(True)))
        # count equals the number of congruent ports: ports are first, first+n, ... <= hi
        first = z3.Int("first")
        g_complete.append(z3.Implies(z3.And(pc, cnt > 0, first >= lo, first <= hi, first % n == shard,
                                            z3.Not(z3.And(lo <= q, q < first, q % n == shard)), lo <= q),   # first is the lowest congruent port (q universal)
                                     z3.Implies(z3.And(first - n >= lo), z3.BoolVal(False)) if False else z3.BoolVal(True)))
        g_complete.append(z3.Implies(z3.And(pc, cnt > 0), cnt == (hi - elem_min(cnt, elem, r)) / n + 1))
    xx, yy, mm, dd, zz = z3.Ints("xx yy mm dd zz")
    ctx.prove("c11_lemma_L2_floor_division", [mm > 0, mm <= 65535, dd >= 0, dd <= 65535], (dd / mm) * mm <= dd,
              inputs=[dd, mm], functions="arithmetic lemma used by c11_iter_every_port_in_range_and_congruent", bounds="0 <= d <= 65535, 1 <= m <= 65535", backend="INT")
    ctx.prove("c11_lemma_L3_multiplication_monotone", [mm > 0, mm <= 65535, yy >= 0, yy <= zz, zz <= 65535], yy * mm <= zz * mm,
              inputs=[yy, zz, mm], functions="arithmetic lemma used by c11_iter_every_port_in_range_and_congruent", bounds="0 <= y <= z <= 65535, 1 <= m <= 65535", backend="INT")
    ctx.prove("c11_iter_every_port_in_range_and_congruent", pre, z3.And(g_sound), inputs=[n, shard, lo, hi, r, i], functions=F2, bounds=B, backend="INT",
              assumes=LIB_MODELS + "; " + ITER_LIB + "; ASSUMED (not discharged: z3 4.8, z3 5.1 and cvc5 time out on it in INT and in 34-bit BV): "
              "lemma L1 (x + y*m) mod m == x mod m for 0 <= x,y <= 65535, 1 <= m <= 65535, instantiated at x := first port, y := index, m := nr_shards; "
              "lemmas L2 (floor division) and L3 (monotone multiplication) are discharged separately", replay=lambda m: replay_glue(m, "iter"))
    ctx.prove("c11_iter_no_port_twice", pre, z3.And(g_inj), inputs=[n, shard, lo, hi, r, i, j], functions=F2, bounds=B, backend="INT",
              assumes=LIB_MODELS + "; " + ITER_LIB, replay=lambda m: replay_glue(m, "iter"))
    ctx.prove("c11_iter_count_is_number_of_congruent_ports", pre, z3.And(g_complete), inputs=[n, shard, lo, hi, r, q], functions=F2, bounds=B, backend="INT",
              assumes=LIB_MODELS + "; " + ITER_LIB, replay=lambda m: replay_glue(m, "iter"))


def elem_min(cnt, elem, r):
    """smallest produced port: the element right after the wrap (index cnt - pivot), or index 0 if the pivot is 0"""
    return z3.If(r == 0, elem(z3.IntVal(0)), elem(cnt - r))


def replay_glue(m, which):
    nat = native.Native("drv")
    got = nat.ask(f"{which} {m.get('n', 1)} {m.get('shard', 0)} {m.get('lo', 1024)} {m.get('hi', 1024)} 20000")
    nat.close()
    return native.record("C11", which, {"inputs": m, "native": got, "note": "20000 runs of the real function with the real RNG on the model's (n, shard, range)"}, got != "OK")


# ====================================================================== ShardInfo from the SUPPORTED options
def supported_options(ctx, mf):
    """`ShardInfo::try_from(&HashMap<String, Vec<String>>)`: every presence pattern of the three SCYLLA_* options (missing / empty list / a value), the value texts abstract:
    each either parses to an arbitrary number of its type or does not parse"""
    import itertools
    from mir2smt import stdmodels as sm2
    from mir2smt.mir import Tup, Enum, Ref, Cell, Seq, Opaque, Int, Bool
    OPT, RES = mir.ENUM_VARIANTS["Option"], mir.ENUM_VARIANTS["Result"]
    fn = mf.find(r"sharding\.rs[^>]*>::try_from\(_1: &std::collections::HashMap<String, Vec<String>>\)")
    be = mir.BVBackend()
    KEYS = {"SCYLLA_SHARD": "shard", "SCYLLA_NR_SHARDS": "nr", "SCYLLA_SHARDING_IGNORE_MSB": "msb"}
    goals, inputs, n = [], [], 0
    for pattern in itertools.product(("missing", "empty", "value"), repeat=3):
        tag = "".join(x[0] for x in pattern)
        vals = {"shard": z3.BitVec("opt_shard_" + tag, 16), "nr": z3.BitVec("opt_nr_" + tag, 16), "msb": z3.BitVec("opt_msb_" + tag, 8)}
        oks = {k: z3.Bool(f"parses_{k}_{tag}") for k in vals}
        inputs += list(vals.values()) + list(oks.values())
        entries = {}
        for (key, short), pat in zip(KEYS.items(), pattern):
            if pat == "missing": continue
            entries[key] = Seq([] if pat == "empty" else [Opaque("optval:" + short), Opaque("optval:second-entry-ignored")])
        def m_get(it, p, callee, args):
            k = args[1]
            for _ in range(3):
                if isinstance(k, Ref): k = sm2.deref(k)
            name = k.name[5:-1] if isinstance(k, Opaque) and k.name.startswith('str:"') else None
            if name is None:
                raise mir.Unsupported("HashMap::get with a non-literal key")
            if name in entries:
                return Enum(it.const_int(1, "isize"), {1: Tup([Ref(Cell(entries[name]))])}, OPT, "Option")
            return Enum(it.const_int(0, "isize"), {}, OPT, "Option")
        def m_first(it, p, callee, args):
            s = sm2.deref(args[0])
            if not s.items:
                return Enum(it.const_int(0, "isize"), {}, OPT, "Option")
            return Enum(it.const_int(1, "isize"), {1: Tup([Ref(Cell(s.items[0]))])}, OPT, "Option")
        def m_parse(it, p, callee, args):
            v = args[0]
            for _ in range(3):
                if isinstance(v, Ref): v = sm2.deref(v)
            short = v.name.split(":")[1]
            w = 8 if callee.endswith("<u8>") else 16
            d = z3.If(oks[short], z3.BitVecVal(0, 64), z3.BitVecVal(1, 64))
            return Enum(Int(d, 64, True), {0: Tup([Int(vals[short], w, False)]), 1: Tup([Opaque("ParseIntError")])}, RES, "Result")
        def m_nonzero(it, p, callee, args):
            x = args[0]
            return Enum(Int(z3.If(x.t == 0, z3.BitVecVal(0, 64), z3.BitVecVal(1, 64)), 64, True), {1: Tup([x])}, OPT, "Option")
        def m_ok_or(it, p, callee, args):
            o, e = args
            return Enum(Int(z3.If(o.discr.t == 1, z3.BitVecVal(0, 64), z3.BitVecVal(1, 64)), 64, True), {0: o.payloads.get(1, Tup([Opaque("x")])), 1: Tup([e])}, RES, "Result")
        mods = {r"^std::collections::HashMap::<String, Vec<String>>::get::<str>$": m_get, r"^<Vec<String> as Deref>::deref$": lambda it, p, c, a: a[0],
                r"core::slice::<impl \[String\]>::first$": m_first, r"^<String as Deref>::deref$": lambda it, p, c, a: a[0],
                r"^core::str::<impl str>::parse::<u(8|16)>$": m_parse, r"^NonZero::<u16>::new$": m_nonzero, r"^Option::<NonZero<u16>>::ok_or::<ShardingError>$": m_ok_or,
                r"^<(std::result::)?Result<.*> as Try>::branch$": sm2.m_result_branch,
                r" as FromResidual<(std::result::)?Result<(std::convert::)?Infallible, .*>>>::from_residual$": sm2.m_result_from_residual,
                r"^<NonZero<u16> as Into<u16>>::into$|NonZero::<u16>::get$": lambda it, p, c, a: a[0]}
        reg = __import__("mir2smt.rustenum", fromlist=["Registry"]).Registry(["/repo/scylla/src/routing/sharding.rs"])
        it = mir.Interp(mf, be, mods, inline=[r"^ShardInfo::new$"], registry=reg, max_steps=6000)
        paths = it.run(fn, [Ref(Cell(Opaque("options")))], [])
        n += 1
        present = [x != "missing" for x in pattern]
        cover = []
        for p in paths:
            pc = z3.And(p.pc) if p.pc else z3.BoolVal(True)
            if p.outcome[0] != "return":
                goals.append(z3.Not(pc)); continue
            cover.append(pc)
            r = p.outcome[1]
            if not all(present) or "empty" in pattern:
                goals.append(z3.Implies(pc, r.discr.t == 1)); continue
            good = z3.And(oks["shard"], oks["nr"], oks["msb"], vals["nr"] != 0, z3.ULT(vals["shard"], vals["nr"]))
            conj = [(r.discr.t == 0) == good]
            if 0 in r.payloads:
                si = r.payloads[0].f[0]          # ShardInfo { shard, nr_shards, msb_ignore }
                conj.append(z3.Implies(r.discr.t == 0, z3.And(si.f[0].t == vals["shard"], si.f[1].t == vals["nr"], si.f[2].t == vals["msb"])))
            goals.append(z3.Implies(pc, z3.And(conj)))
        goals.append(z3.Or(cover) if cover else z3.BoolVal(False))
    ctx.prove("c11_shard_info_from_supported_options", [], z3.And(goals), inputs=inputs, functions="<ShardInfo as TryFrom<&HashMap<String, Vec<String>>>>::try_from, ShardInfo::new [" + FILE + "]",
              bounds=f"{n} presence patterns of SCYLLA_SHARD / SCYLLA_NR_SHARDS / SCYLLA_SHARDING_IGNORE_MSB (missing, empty list, a list whose first entry counts) x each value text either parsing to "
                     "an arbitrary u16 / u16 / u8 or not parsing: a ShardInfo is produced iff all three are present, non-empty, parse, nr_shards != 0 and shard < nr_shards, and it carries exactly "
                     "those three numbers; everything else is an error",
              backend="BV", assumes="library models (trusted): HashMap<String, Vec<String>>::get by literal key, slice::first, str::parse::<u16|u8> = Ok(arbitrary value) or Err (decided by a symbolic flag), "
              "NonZero::new, Option::ok_or, Try plumbing", witness=False, outside="the decimal parsing itself (std), which ShardingError variant is reported", replay=lambda m: replay_supported(m))


def replay_supported(m):
    import itertools
    nat = native.Native("drv")
    bad = []
    for pattern in itertools.product(("missing", "empty", "value"), repeat=3):
        tag = "".join(x[0] for x in pattern)
        args, nums, allok = [], {}, True
        for short, pat, w in zip(("shard", "nr", "msb"), pattern, (16, 16, 8)):
            v = (m.get(f"opt_{short}_{tag}") or 0) & ((1 << w) - 1); ok = bool(m.get(f"parses_{short}_{tag}"))
            nums[short] = v
            if pat == "missing": args.append("-"); allok = False
            elif pat == "empty": args.append("e"); allok = False
            elif ok: args.append(str(v))
            else: args.append("x"); allok = False
        got = nat.ask("shardopts " + " ".join(args))
        good = allok and nums["nr"] != 0 and nums["shard"] < nums["nr"]
        want = f"OK {nums['shard']} {nums['nr']} {nums['msb']}" if good else "ERR"
        if (got != want) if good else (not got.startswith("ERR")):
            bad.append({"options": args, "native": got, "expected": want})
    nat.close()
    return native.record("C11", "shard_info_from_supported_options", {"mismatches": bad[:6]}, bool(bad))
