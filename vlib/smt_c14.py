"""C14 — engine S, decision kernels only: which result metadata decodes the rows, and what the next EXECUTE announces.

`Connection::calculate_cached_metadata_params` and `Connection::handle_result_metadata_new_id` (MIR of
scylla/src/network/connection.rs) are pure decision functions inside the otherwise asynchronous re-prepare / execute path:
  * metadata may be omitted from the response (skip_metadata) only when the driver holds cached metadata with at least one
    column, and then exactly that cached metadata is handed to the row decoder;
  * a result-metadata id is put into EXECUTE iff the metadata-id extension was negotiated; when cached metadata is used it is
    that metadata's id (empty if it has none), otherwise the empty id (which makes the server resend id + metadata);
  * after a response: the statement's current metadata is replaced by the response's metadata iff that carries an id which
    differs from the current one, or equals it while the current metadata has no columns and the response's has some."""
import z3
from mir2smt import dump, mir, solve, oblig, rustenum, stdmodels as sm
from mir2smt.mir import Int, Bool, Tup, Enum, Ref, Cell, Seq, Opaque, Unit

FILE = "scylla/src/network/connection.rs"
LIB = ("library models (trusted): ResultMetadata = (column count, optional id), ids are abstract identities (equal iff the same value); Arc deref transparent; "
       "PreparedStatement::{get_use_cached_result_metadata, get_current_result_metadata} read the statement's fields, update_current_result_metadata records the stored value; "
       "bool::then_some, Option::{as_ref,unwrap_or,is_none}, Option<&[u8]> equality; clone / into_owned identity")
OPTION = mir.ENUM_VARIANTS["Option"]


def bv(v, w): return z3.BitVecVal(v, w)


def metadata(cols, has_id, idv):
    idopt = Enum(Int(bv(1 if has_id else 0, 64), 64, True), ({1: Tup([Int(idv, 64, False)])} if has_id else {}), OPTION, "Option")
    return Tup([Int(cols, 64, False), idopt], "ResultMetadata")


def models(store):
    m = {}
    m[r"^<Arc<.*ResultMetadata<'_>> as Deref>::deref$"] = lambda it, p, c, a: (sm.deref(a[0]) if isinstance(sm.deref(a[0]), Ref) else a[0])
    m[r"ResultMetadata::<'_>::col_count$"] = lambda it, p, c, a: sm.deref(a[0]).f[0]
    m[r"ResultMetadata::<'_>::id$"] = lambda it, p, c, a: mir.copy_value(sm.deref(a[0]).f[1])
    m[r"^PreparedStatement::get_use_cached_result_metadata$"] = lambda it, p, c, a: sm.deref(a[0]).f[0]
    m[r"^PreparedStatement::get_current_result_metadata$"] = lambda it, p, c, a: Ref(Cell(sm.deref(a[0]).f[1]))
    def update(it, p, callee, args):
        store.append((list(p.pc), args[1]))
        return Unit()
    m[r"^PreparedStatement::update_current_result_metadata$"] = update
    m[r"^core::bool::<impl bool>::then_some::<"] = lambda it, p, c, a: Enum(Int(z3.If(a[0].t, bv(1, 64), bv(0, 64)), 64, True), {1: Tup([a[1]])}, OPTION, "Option")
    def as_ref(it, p, callee, args):
        o = sm.deref(args[0])
        return Enum(o.discr, ({1: Tup([Ref(Cell(o.payloads[1].f[0]))])} if 1 in o.payloads else {}), OPTION, "Option")
    m[r"^Option::<.*>::as_ref$"] = as_ref
    def unwrap_or(it, p, callee, args):
        o = args[0]
        d = z3.simplify(o.discr.t)
        if not z3.is_bv_value(d):
            raise mir.Unsupported("unwrap_or on a symbolic Option")
        return o.payloads[1].f[0] if d.as_long() == 1 else args[1]
    m[r"^Option::<&\[u8\]>::unwrap_or$"] = unwrap_or
    m[r"^Option::<&\[u8\]>::is_none$"] = lambda it, p, c, a: Bool(sm.deref(a[0]).discr.t == 0)
    m[r"^Option::<&\[u8\]>::is_some$"] = lambda it, p, c, a: Bool(sm.deref(a[0]).discr.t == 1)
    def opt_ne(it, p, callee, args):
        x, y = sm.deref(args[0]), sm.deref(args[1])
        both = z3.And(x.discr.t == 1, y.discr.t == 1)
        eq = z3.Or(z3.And(x.discr.t == 0, y.discr.t == 0),
                   z3.And(both, (x.payloads[1].f[0].t == y.payloads[1].f[0].t) if (1 in x.payloads and 1 in y.payloads) else z3.BoolVal(False)))
        return Bool(z3.Not(eq))
    m[r"^<Option<&\[u8\]> as PartialEq>::ne$"] = opt_ne
    m[r"DeserializedMetadataAndRawRows::metadata$"] = lambda it, p, c, a: Ref(Cell(sm.deref(a[0]).f[0])) if not isinstance(sm.deref(a[0]).f[0], Ref) else sm.deref(a[0]).f[0]
    m[r"^<.*ResultMetadata<'_> as Clone>::clone$"] = lambda it, p, c, a: mir.copy_value(sm.deref(a[0]))
    m[r"ResultMetadata::<'_>::into_owned$"] = sm.m_identity
    m[r"^Arc::<.*ResultMetadata<'_>>::new$"] = lambda it, p, c, a: Ref(Cell(a[0]))
    return m


def run(tier, seed, only):
    ctx = oblig.Ctx(tier, only)
    try:
        mf = mir.MirFile(dump.dump("scylla"))
        reg = rustenum.Registry(["/repo/scylla-cql/src/frame/response/mod.rs", "/repo/scylla-cql/src/frame/response/result.rs"])
    except Exception as e:
        return [{"name": "smt:c14_mir_dump", "engine": "smt:mir2smt", "status": "inconclusive", "reason": str(e)[:500]}]
    for name, f in (("params", params), ("new_id", new_id)):
        try:
            f(ctx, mf, reg)
        except mir.Unsupported as e:
            ctx.add(name=f"smt:c14_translate_{name}", engine="smt:mir2smt", status="inconclusive",
                    reason="translator rejected the current source: " + str(e), functions=FILE)
        except (AttributeError, KeyError, IndexError, TypeError, ValueError) as e:
            ctx.add(name=f"smt:c14_translate_{name}", engine="smt:mir2smt", status="inconclusive",
                    reason=f"translator failed on the current source ({type(e).__name__}: {e})", functions=FILE)
    return ctx.results


def params(ctx, mf, reg):
    fn = mf.find(r"connection::<impl at [^>]*>::calculate_cached_metadata_params\(")
    goals, inputs = [], []
    for has_id in (False, True):
        tag = "i" if has_id else "n"
        ext, use_cached = z3.Bool("ext_" + tag), z3.Bool("use_cached_" + tag)
        cols = z3.BitVec("cols_" + tag, 64); idv = z3.BitVec("id_" + tag, 64)
        md = metadata(cols, has_id, idv)
        features = Tup([Opaque("shard_info"), Opaque("shard_aware_port"), Tup([Opaque("f0"), Opaque("f1"), Opaque("f2"), Bool(ext)], "ProtocolFeatures")], "ConnectionFeatures")
        conn = Tup([Opaque("worker"), Opaque("addr"), Opaque("config"), features, Opaque("router")], "Connection")
        stmt = Tup([Bool(use_cached), md], "PreparedStatement")
        mdref = Ref(Cell(Ref(Cell(md))))            # &Arc<ResultMetadata>
        it = mir.Interp(mf, mir.BVBackend(), models([]), registry=reg, max_steps=3000)
        paths = it.run(fn, [Ref(Cell(conn)), Ref(Cell(stmt)), mdref], [])
        cover = []
        for p in paths:
            pc = z3.And(p.pc) if p.pc else z3.BoolVal(True)
            if p.outcome[0] != "return":
                goals.append(z3.Not(pc)); continue
            cover.append(pc)
            r = p.outcome[1]
            cached, skip, rid = r.f[0], r.f[1], r.f[2]
            want_skip = z3.And(cols != 0, z3.Or(use_cached, ext))
            conj = [skip.t == want_skip, (cached.discr.t == 1) == want_skip, (rid.discr.t == 1) == ext]
            # the id that goes on the wire
            if 1 in rid.payloads:
                v = rid.payloads[1].f[0]
                is_abstract_id = isinstance(v, Int)
                is_empty = isinstance(v, Tup) and v.name == "Slice" and sm.slice_parts(v)[2] == 0
                if has_id:
                    conj.append(z3.Implies(z3.And(ext, want_skip), z3.And(z3.BoolVal(is_abstract_id), (v.t == idv) if is_abstract_id else z3.BoolVal(False))))
                    conj.append(z3.Implies(z3.And(ext, z3.Not(want_skip)), z3.BoolVal(is_empty)))
                else:
                    conj.append(z3.Implies(ext, z3.BoolVal(is_empty)))
            else:
                conj.append(z3.Not(ext))
            goals.append(z3.Implies(pc, z3.And(conj)))
        goals.append(z3.Or(cover) if cover else z3.BoolVal(False))
        inputs += [ext, use_cached, cols, idv]
    ctx.prove("c14_metadata_skipped_only_with_usable_cache_and_id_sent_iff_extension", [], z3.And(goals), inputs=inputs,
              functions=f"Connection::calculate_cached_metadata_params [{FILE}]",
              bounds="every combination of: metadata-id extension negotiated or not, statement asks for cached metadata or not, cached metadata with any column count, with or "
                     "without an id (any id value): skip_metadata <=> columns != 0 and (use_cached or extension); the cached metadata is handed to the decoder <=> skip_metadata; "
                     "an id is sent <=> extension; it is the cached metadata's id when that metadata is used and has one, the empty id otherwise",
              backend="BV", assumes=LIB, witness=False, outside="the asynchronous execute / re-prepare / batch paths around these decisions (UNPREPARED handling, id comparison after "
              "re-prepare), decoding with the chosen metadata (C01/C08)", replay=lambda m: replay_params(m))


def new_id(ctx, mf, reg):
    fn = mf.find(r"connection::<impl at [^>]*>::handle_result_metadata_new_id\(")
    ed = reg.get("ResponseWithDeserializedMetadataV2") or reg.get("ResponseWithDeserializedMetadata")
    rd = reg.get("ResultWithDeserializedMetadata")
    goals, inputs = [], []
    for cur_has, new_has in ((False, False), (False, True), (True, False), (True, True)):
        tag = f"{int(cur_has)}{int(new_has)}"
        ccols, ncols = z3.BitVec("cur_cols_" + tag, 64), z3.BitVec("new_cols_" + tag, 64)
        cid, nid = z3.BitVec("cur_id_" + tag, 64), z3.BitVec("new_id_" + tag, 64)
        cur, new = metadata(ccols, cur_has, cid), metadata(ncols, new_has, nid)
        stmt = Tup([Bool(z3.BoolVal(False)), cur], "PreparedStatement")
        rows = Tup([Tup([new, Opaque("raw_rows")], "DeserializedMetadataAndRawRows"), Opaque("paging")])
        dR, dRows = ed.discr("Result"), rd.discr("Rows")
        result = Enum(Int(bv(dRows, 64), 64, True), {dRows: Tup([rows])}, rd.variant_map(), rd.name)
        resp = Enum(Int(bv(dR, 64), 64, True), {dR: Tup([result])}, ed.variant_map(), ed.name)
        qr = Tup([resp, Opaque("tracing"), Opaque("warnings")], "QueryResponse")
        store = []
        it = mir.Interp(mf, mir.BVBackend(), models(store), registry=reg, max_steps=3000)
        paths = it.run(fn, [Ref(Cell(stmt)), Ref(Cell(qr))], [])
        want = z3.BoolVal(False)
        if new_has:
            differs = z3.BoolVal(True) if not cur_has else (nid != cid)
            want = z3.Or(differs, z3.And(z3.Not(differs), ccols == 0, ncols != 0))
        cover = []
        for p in paths:
            pc = z3.And(p.pc) if p.pc else z3.BoolVal(True)
            if p.outcome[0] != "return":
                goals.append(z3.Not(pc)); continue
            cover.append(pc)
        # an update happened on exactly the paths where `want` holds, and it stored the response's metadata
        upd = z3.Or([z3.And(pc) if pc else z3.BoolVal(True) for pc, _ in store]) if store else z3.BoolVal(False)
        goals.append(upd == want)
        for pc, val in store:
            v = sm.deref(val) if isinstance(val, Ref) else val
            goals.append(z3.Implies(z3.And(pc) if pc else z3.BoolVal(True), z3.And(v.f[0].t == ncols, v.f[1].discr.t == (1 if new_has else 0),
                                                                                   (v.f[1].payloads[1].f[0].t == nid) if new_has and 1 in v.f[1].payloads else z3.BoolVal(True))))
        goals.append(z3.Or(cover) if cover else z3.BoolVal(False))
        inputs += [ccols, ncols, cid, nid]
    ctx.prove("c14_statement_metadata_updated_exactly_when_the_server_announced_new_metadata", [], z3.And(goals), inputs=inputs,
              functions=f"Connection::handle_result_metadata_new_id [{FILE}]",
              bounds="ROWS responses whose metadata carries an id or not, against a statement whose current metadata carries an id or not, any ids and column counts: the statement's "
                     "metadata is replaced, by exactly the response's metadata, iff the response has an id and (it differs from the current id, or it is equal while the current "
                     "metadata has no columns and the response's has some); responses without an id and non-ROWS responses change nothing",
              backend="BV", assumes=LIB, witness=False, outside="as for the other C14 obligation", replay=lambda m: replay_new_id(m))


def _cols(v):
    v = (v or 0) & ((1 << 64) - 1)
    return 0 if v == 0 else (v % 1000) + 1          # the code only distinguishes 0 from non-zero column counts


def _idhex(v):
    return ((v or 0) & ((1 << 64) - 1)).to_bytes(8, "big").hex()


def replay_params(m):
    """native: a real Connection (to a local listener that never answers) with the model's negotiated feature, a real PreparedStatement"""
    from . import native
    nat = native.Native("drv")
    bad = []
    for has_id, tag in ((False, "n"), (True, "i")):
        ext, uc = bool(m.get("ext_" + tag)), bool(m.get("use_cached_" + tag))
        cols = _cols(m.get("cols_" + tag)); idh = _idhex(m.get("id_" + tag)) if has_id else "none"
        got = nat.ask(f"mdparams {int(ext)} {int(uc)} {cols} {idh}")
        skip = cols != 0 and (uc or ext)
        sent = "none" if not ext else (idh if (skip and has_id) else "empty")
        want = f"skip={int(skip)} cached={int(skip)} id={sent}"
        if got != want:
            bad.append({"extension": ext, "use_cached": uc, "columns": cols, "id": idh, "native": got, "expected": want})
    nat.close()
    return native.record("C14", "metadata_params", {"mismatches": bad}, bool(bad))


def replay_new_id(m):
    from . import native
    nat = native.Native("drv")
    bad = []
    for cur_has, new_has in ((False, False), (False, True), (True, False), (True, True)):
        tag = f"{int(cur_has)}{int(new_has)}"
        cc, nc = _cols(m.get("cur_cols_" + tag)), _cols(m.get("new_cols_" + tag))
        ci = _idhex(m.get("cur_id_" + tag)) if cur_has else "none"
        ni = _idhex(m.get("new_id_" + tag)) if new_has else "none"
        got = nat.ask(f"mdafter {cc} {ci} {nc} {ni}")
        update = new_has and (ni != ci or (cc == 0 and nc != 0))
        want = f"{nc} {ni}" if update else f"{cc} {ci}"
        if got != want:
            bad.append({"current": [cc, ci], "response": [nc, ni], "native": got, "expected": want})
    nat.close()
    return native.record("C14", "metadata_after_rows", {"mismatches": bad}, bool(bad))
