"""C03 (second half) — engine S: partition-key extraction and composite encoding.

(i)   scylla-cql `deser_prepared_metadata`: for k partition-key columns whose bind-marker indices are symbolic, the
      resulting pk_indexes are sorted by marker index and every entry keeps the pair (marker index, position within the
      partition key) it was read with.
(ii)  scylla `PartitionKey::new` + `write_encoded_partition_key`: for every injective placement of k key columns among m bind
      markers (non-key markers interleaved, carrying values, nulls or unset), the bytes handed to the hasher are the single
      key column's bytes, or for composite keys len_be16 ‖ bytes ‖ 0 per component in PARTITION-KEY order.
(iii) `PartitionKey::calculate_token`: the token is Cassandra's Murmur3 token (independent bit-vector definition from
      smt_c03) of that stream; CDC partitioner likewise.
The pk_indexes fed to (ii)/(iii) are laid out exactly as (i) proves the parser lays them out."""
import itertools
import z3
from mir2smt import dump, mir, solve, oblig, rustenum, stdmodels as sm, itermodels as im
from mir2smt.mir import Int, Bool, Tup, Enum, Ref, Cell, Seq, Opaque, Unit

FILES = "scylla/src/statement/prepared.rs, scylla-cql/src/frame/response/result.rs, scylla-cql-core/src/{serialize/row.rs,frame/types.rs}"
LIB = ("library models (trusted): byteorder read_i32/read_u16 on &[u8] (big-endian, advance), slice split_at/is_empty/len, Vec/SmallVec as a "
       "sequence (with_capacity, push, len, from_elem, index, index_mut, deref), eager iterator adaptors (slice::iter, copied, flatten over "
       "Option, map by the closure's MIR, once, chain, into_iter, next, nth = next applied n+1 times), Option::ok_or_else, Result::map_err/expect, "
       "Try plumbing, usize::try_into, to_be_bytes, sort_unstable_by_key = ANY permutation of the slice whose keys (computed by the closure's MIR) "
       "are non-decreasing; FnMut(&[u8]) writer = byte recorder. deser_col_specs_owned is cut (returns an opaque Ok): column specs do not "
       "influence the key bytes")


def bv(v, w): return z3.BitVecVal(v, w)


def m_nth_by_next(it, p, callee, args):
    """Iterator::nth's provided body: advance n times, then next()"""
    target = it.mir.find_by_callee(callee.replace("::nth", "::next"))
    n = sm._cint(args[1])
    cur = p
    val = None
    for _ in range(n + 1):
        ok, bad = sm.call_single(it, target, cur, [sm._reref(p, cur, args[0])])
        if bad or len(ok) != 1:
            raise mir.Unsupported("SerializedValuesIterator::next does not run on a single returning path here")
        cur, val = ok[0]
        d = z3.simplify(val.discr.t)
        if d.as_long() == 0:
            break
    return [(cur, val)]


def m_ok_or_else(it, p, callee, args):
    o = args[0]
    d = z3.simplify(o.discr.t)
    if not (z3.is_bv_value(d) or z3.is_int_value(d)):
        raise mir.Unsupported("ok_or_else on a symbolic Option")
    if d.as_long() == 1:
        return Enum(it.const_int(0, "isize"), {0: o.payloads[1]}, sm.RESULT, "Result")
    return Enum(it.const_int(1, "isize"), {1: Tup([Opaque("error-from-closure")])}, sm.RESULT, "Result")


def m_map_err(it, p, callee, args):
    r = args[0]
    return Enum(r.discr, {**r.payloads, 1: Tup([Opaque("mapped-error")])}, r.variants, r.name)


# --------------------------------------------------------------------------------------------- byte readers
def m_read_be(nbytes, signed):
    def f(it, p, callee, args):
        sl = sm.deref(args[0])
        base, st, ln = sm.slice_parts(sl)
        if ln < nbytes:
            return Enum(it.const_int(1, "isize"), {1: Tup([Opaque("io::Error(UnexpectedEof)")])}, sm.RESULT, "Result")
        bs = sm.elems(sm.deref(base))[st:st + nbytes]
        t = bs[0].t
        for b in bs[1:]:
            t = z3.Concat(t, b.t)
        sl.f[1] = it.const_int(st + nbytes, "usize")
        sl.f[2] = it.const_int(ln - nbytes, "usize")
        return Enum(it.const_int(0, "isize"), {0: Tup([Int(z3.simplify(t), 8 * nbytes, signed)])}, sm.RESULT, "Result")
    return f


def m_split_at(it, p, callee, args):
    base, st, ln = sm.slice_parts(args[0])
    k = sm._cint(args[1])
    if k > ln:
        raise mir.Panic("split_at: mid > len")
    return Tup([sm.mk_slice(it, base, st, k), sm.mk_slice(it, base, st + k, ln - k)])


def m_slice_len(it, p, callee, args):
    return it.const_int(sm.slice_parts(args[0])[2], "usize")


def m_slice_is_empty(it, p, callee, args):
    return Bool(z3.BoolVal(sm.slice_parts(args[0])[2] == 0))


def m_vecu8_deref(it, p, callee, args):
    return sm.mk_slice(it, args[0], 0, len(sm.elems(sm.deref(args[0]))))


def m_seq_len(it, p, callee, args):
    return it.const_int(len(sm.elems(sm.deref(args[0]))), "usize")


def m_seq_index(it, p, callee, args):
    vec, idx = args
    k = sm._cint(idx)
    if k >= len(sm.elems(sm.deref(vec))):
        raise mir.Panic(f"index out of bounds: the len is {len(sm.elems(sm.deref(vec)))} but the index is {k}")
    return Ref(vec.cell, vec.path + (("index_const", k),))


def m_vec_push(it, p, callee, args):
    sm.deref(args[0]).items.append(args[1])
    return Unit()


def m_expect(it, p, callee, args):
    r = args[0]
    d = z3.simplify(r.discr.t)
    if (z3.is_bv_value(d) or z3.is_int_value(d)) and d.as_long() == 0:
        return r.payloads[0].f[0]
    if z3.is_bv_value(d) or z3.is_int_value(d):
        raise mir.Panic("expect() on an Err value")
    raise mir.Unsupported("expect on a symbolic Result")


def m_writer_call(it, p, callee, args):
    """<impl FnMut(&[u8])>::call_mut: the recorder (a Seq cell) or a real closure value"""
    w = sm.deref(args[0])
    chunk = args[1].f[0]
    if isinstance(w, Seq):
        w.items.append(Tup(list(sm.slice_items(chunk)), "chunk"))
        return Unit()
    if isinstance(w, Tup) and w.name.startswith("{closure@"):
        target = sm.find_closure(it, w.name)
        return it.call_mir(target, p, [args[0]] + list(args[1].f))
    raise mir.Unsupported(f"writer is neither the recorder nor a closure: {w}")


def base_models():
    m = {}
    m.update(im.ITER_MODELS)
    m.update(sm.BUFMUT_MODELS); m.update(sm.SLICE_MODELS); m.update(sm.INT_MODELS); m.update(sm.RANGE_MODELS); m.update(sm.WRAPPING_MODELS)
    m[r"ReadBytesExt>::read_i32::<BigEndian>$"] = m_read_be(4, True)
    m[r"ReadBytesExt>::read_u16::<BigEndian>$"] = m_read_be(2, False)
    m[r"core::slice::<impl \[u8\]>::split_at$"] = m_split_at
    m[r"core::slice::<impl \[u8\]>::len$"] = m_slice_len
    m[r"core::slice::<impl \[u8\]>::is_empty$"] = m_slice_is_empty
    m[r"^<Vec<u8> as Deref>::deref$"] = m_vecu8_deref
    m[r"^<(Vec|SmallVec)<.*> as Deref(Mut)?>::deref(_mut)?$"] = lambda it, p, c, a: a[0]
    m[r"^Vec::<.*>::len$"] = m_seq_len
    m[r"^Vec::<.*>::with_capacity$"] = lambda it, p, c, a: Seq([])
    m[r"^Vec::<.*>::push$"] = m_vec_push
    m[r"^SmallVec::<.*>::from_elem$"] = sm.m_vec_from_elem
    m[r"^<(Vec|SmallVec)<.*> as (std::ops::)?Index(Mut)?<usize>>::index(_mut)?$"] = m_seq_index
    m[r"^<SerializedValuesIterator<'_> as Iterator>::nth$"] = m_nth_by_next
    m[r"^<[iu]\w+ as TryInto<[iu]\w+>>::try_into$"] = sm.m_try_into_int
    m[r"^Option::<.*>::ok_or_else::<"] = m_ok_or_else
    m[r"^(std::result::)?Result::<.*>::map_err::<"] = m_map_err
    m[r"^(std::result::)?Result::<.*>::expect$"] = m_expect
    m[r"^<impl FnMut\(&\[u8\]\) as FnMut<\(&\[u8\],\)>>::call_mut$"] = m_writer_call
    m[r"^deser_col_specs_owned$"] = lambda it, p, c, a: Enum(it.const_int(0, "isize"), {0: Tup([Opaque("col_specs")])}, sm.RESULT, "Result")
    m[r"^core::bool::<impl bool>::then::<"] = m_bool_then_false
    m[r"^Option::<.*>::transpose$"] = m_transpose_none
    m[r"^<\[u8; \d+\] as Default>::default$"] = lambda it, p, c, a: Tup([it.const_int(0, "u8") for _ in range(int(c.split(";")[1].split("]")[0]))], "array")
    m["__consts__"] = {"RangeFull": Opaque("RangeFull")}
    return m


def m_bool_then_false(it, p, callee, args):
    t = z3.simplify(args[0].t)
    if z3.is_false(t):
        return sm.none(it)
    raise mir.Unsupported("GLOBAL_TABLES_SPEC flag set: table-spec parsing is outside this obligation")


def m_transpose_none(it, p, callee, args):
    o = args[0]
    if z3.simplify(o.discr.t).as_long() == 0:
        return Enum(it.const_int(0, "isize"), {0: Tup([sm.none(it)])}, sm.RESULT, "Result")
    raise mir.Unsupported("transpose of Some")


INLINE = [r"(^|::)read_int$", r"(^|::)read_int_length$", r"(^|::)read_short$", r"(^|::)read_value$", r"(^|::)read_raw_bytes$", r"(^|::)SerializedValues::iter$",
          r"^<SerializedValuesIterator<'_> as Iterator>::next$", r"(^|::)PartitionKey::<'_>::(iter|new|write_encoded_partition_key)",
          r"Murmur3PartitionerHasher::(rotl64|fmix|hash_16_bytes|fetch_16_bytes_from_buf|new)$", r"(^|::)Token::new$",
          r"^<PartitionerName as Partitioner>::build_hasher$", r"^<PartitionerHasherAny as PartitionerHasher>::(write|finish)$",
          r"^<(Murmur3|CDC)PartitionerHasher as PartitionerHasher>::(write|finish)$", r"CDCPartitionerHasher::new$",
          r"^<(Murmur3|CDC)Partitioner as Partitioner>::build_hasher$"]


# --------------------------------------------------------------------------------------------- (i) the parser
def parser(ctx, cql, k, tier):
    be = mir.BVBackend()
    fn = cql.find(r"(^|\s|::)deser_prepared_metadata\(")
    m_cols = 6                         # concrete col_count in the frame; marker indices are symbolic u16 below it
    idx = [z3.BitVec(f"idx{j}", 16) for j in range(k)]
    body = [bv(0, 8)] * 4 + [bv(0, 8)] * 3 + [bv(m_cols, 8)] + [bv(0, 8)] * 3 + [bv(k, 8)]
    for j in range(k):
        body += [z3.Extract(15, 8, idx[j]), z3.Extract(7, 0, idx[j])]
    body += [bv(0xEE, 8)] * 4          # column specs: cut
    it = mir.Interp(cql, be, base_models(), inline=INLINE, max_steps=20000, max_block_visits=12)
    backing = Cell(Seq([Int(b, 8, False) for b in body]))
    buf = Cell(sm.mk_slice(it, Ref(backing), 0, len(body)))
    hyps = [z3.Distinct(*idx)] if k > 1 else []
    paths = it.run(fn, [Ref(buf)], hyps)
    goals, cover = [], []
    for p in paths:
        pc = z3.And(p.pc) if p.pc else z3.BoolVal(True)
        if p.outcome[0] != "return":
            goals.append(z3.Not(pc)); continue
        r = p.outcome[1]
        d = z3.simplify(r.discr.t)
        if not z3.is_bv_value(d) or d.as_long() != 0:
            goals.append(z3.Not(pc)); continue
        meta = r.payloads[0].f[0]
        pk = meta.f[2].items
        conj = [z3.BoolVal(len(pk) == k)]
        for e in pk:
            # the pair (marker index, pk position) is kept together
            conj.append(z3.Or([z3.And(e.f[1].t == bv(j, 16), e.f[0].t == idx[j]) for j in range(k)]))
        if len(pk) > 1:
            conj.append(z3.Distinct(*[e.f[1].t for e in pk]))       # every pk position exactly once
        for a, b in zip(pk, pk[1:]):
            conj.append(z3.ULE(a.f[0].t, b.f[0].t))             # sorted by marker index
        goals.append(z3.Implies(pc, z3.And(conj)))
        cover.append(pc)
    goals.append(z3.Or(cover) if cover else z3.BoolVal(False))
    ctx.prove(f"c03_pk_indexes_k{k}_sorted_by_marker_with_pk_position", hyps, z3.And(goals), inputs=idx,
              functions="deser_prepared_metadata [scylla-cql/src/frame/response/result.rs], read_int/read_int_length/read_short [scylla-cql-core/src/frame/types.rs]",
              bounds=f"{k} partition-key columns; their bind-marker indices: all distinct u16 {k}-tuples (symbolic); flags = 0 (no global table spec)",
              backend="BV", assumes=LIB, witness=True, outside="k > 4; equal marker indices (the server never sends them); the column specs that follow",
              replay=lambda m, k=k: replay_parser(m, k))


# --------------------------------------------------------------------------------------------- (ii)/(iii) extraction + encoding + token
def placements(k, m):
    """injective maps pk position -> marker index, as tuples"""
    return list(itertools.permutations(range(m), k))


def build_inputs(it, reg, k, m, place, lens, fill, tag):
    """PreparedMetadata with pk_indexes laid out as the parser does (sorted by marker; sequence = pk position) and a
    SerializedValues holding m cells: key cells symbolic bytes of the given lengths, other cells per `fill`."""
    pk_sorted = sorted(range(k), key=lambda j: place[j])
    pk_indexes = Seq([Tup([Int(bv(place[j], 16), 16, False), Int(bv(j, 16), 16, False)], "PartitionKeyIndex") for j in pk_sorted])
    specs = Seq([Opaque(f"spec{i}") for i in range(m)])
    meta = Tup([Int(bv(0, 32), 32, True), Int(bv(m, 64), 64, False), pk_indexes, specs], "PreparedMetadata")
    data, comps = [], {}
    for i in range(m):
        if i in place:
            j = place.index(i)
            bs = [z3.BitVec(f"{tag}c{j}_{t}", 8) for t in range(lens[j])]
            comps[j] = bs
            data += [bv(x, 8) for x in lens[j].to_bytes(4, "big")] + bs
        else:
            f = fill[i % len(fill)]
            if f == "null":
                data += [bv(0xff, 8)] * 4
            elif f == "unset":
                data += [bv(0xff, 8)] * 3 + [bv(0xfe, 8)]
            else:
                bs = [z3.BitVec(f"{tag}o{i}_{t}", 8) for t in range(f)]
                data += [bv(x, 8) for x in f.to_bytes(4, "big")] + bs
    values = Tup([Seq([Int(b, 8, False) for b in data]), Int(bv(m, 16), 16, False)], "SerializedValues")
    return meta, values, [comps[j] for j in range(k)]


def expected_stream(comps):
    if len(comps) == 1:
        return list(comps[0])
    out = []
    for c in comps:
        out += [bv(len(c) >> 8, 8), bv(len(c) & 0xff, 8)] + list(c) + [bv(0, 8)]
    return out


def run_new(mf, reg, meta, values):
    it = mir.Interp(mf, mir.BVBackend(), base_models(), inline=INLINE, registry=reg, max_steps=20000, max_block_visits=12)
    fn = mf.find(r"prepared\.rs[^>]*>::new\(_1: &[\w:]*PreparedMetadata")
    paths = it.run(fn, [Ref(Cell(meta)), Ref(Cell(values))], [])
    if len(paths) != 1 or paths[0].outcome[0] != "return":
        raise mir.Unsupported(f"PartitionKey::new does not run on a single returning path: {[p.outcome[:2] for p in paths][:3]}")
    r = paths[0].outcome[1]
    if z3.simplify(r.discr.t).as_long() != 0:
        return None
    return r.payloads[0].f[0]


def run_encode(mf, reg, pk):
    it = mir.Interp(mf, mir.BVBackend(), base_models(), inline=INLINE, registry=reg, max_steps=20000, max_block_visits=12)
    fn = mf.find(r"prepared\.rs[^>]*>::write_encoded_partition_key\(")
    rec = Cell(Seq([]))
    paths = it.run(fn, [Ref(Cell(pk)), Ref(rec)], [])
    if len(paths) != 1 or paths[0].outcome[0] != "return":
        raise mir.Unsupported(f"write_encoded_partition_key does not run on a single returning path: {[p.outcome[:2] for p in paths][:3]}")
    p = paths[0]
    r = p.outcome[1]
    chunks = sm.deref(p.locals[2].v).items
    stream = [b.t for c in chunks for b in c.f]
    return z3.simplify(r.discr.t).as_long() == 0, stream, [len(c.f) for c in chunks]


def run_token(mf, reg, pk, partitioner):
    it = mir.Interp(mf, mir.BVBackend(), base_models(), inline=INLINE, registry=reg, max_steps=60000, max_block_visits=40)
    fn = mf.find(r"prepared\.rs[^>]*>::calculate_token\(_1: &PartitionKey")
    pn = reg.get("PartitionerName")
    name = Enum(Int(bv(pn.discr(partitioner), 64), 64, True), {}, pn.variant_map(), pn.name)
    paths = it.run(fn, [Ref(Cell(pk)), Ref(Cell(name))], [])
    if len(paths) != 1 or paths[0].outcome[0] != "return":
        raise mir.Unsupported(f"calculate_token does not run on a single returning path: {[p.outcome[:2] for p in paths][:3]}")
    r = paths[0].outcome[1]
    if z3.simplify(r.discr.t).as_long() != 0:
        raise mir.Unsupported("calculate_token returned Err on short components")
    return r.payloads[0].f[0].f[0].t


def length_profiles(k, tier):
    base = {1: [(5,), (0,), (17,)], 2: [(3, 2), (0, 4), (16, 1)], 3: [(1, 2, 3), (0, 0, 2)], 4: [(2, 1, 0, 3)], 5: [(1, 0, 2, 1, 3)]}[k]
    if tier == "thorough":
        base = base + {1: [(33,), (70,)], 2: [(15, 17), (32, 0)], 3: [(16, 15, 1), (7, 8, 9)], 4: [(1, 1, 1, 1)], 5: []}[k]
    return base


def encoding(ctx, mf, reg, k, m, tier):
    goals, inputs, n = [], [], 0
    fills = [[3, "null", "unset", 0]]
    for place in placements(k, m):
        for lens in length_profiles(k, tier)[:2 if tier == "quick" else None]:
            for fill in fills:
                it0 = mir.Interp(mf, mir.BVBackend(), base_models(), inline=INLINE, registry=reg)
                meta, values, comps = build_inputs(it0, reg, k, m, list(place), lens, fill, "")
                pk = run_new(mf, reg, meta, values)
                if pk is None:
                    goals.append(z3.BoolVal(False)); continue
                ok, stream, chunk_lens = run_encode(mf, reg, pk)
                exp = expected_stream(comps)
                conj = [z3.BoolVal(ok), z3.BoolVal(len(stream) == len(exp))]
                if len(stream) == len(exp):
                    conj += [a == b for a, b in zip(stream, exp)]
                goals.append(z3.And(conj))
                for c in comps:
                    for b in c:
                        if not any(b.eq(x) for x in inputs):
                            inputs.append(b)
                n += 1
    ctx.prove(f"c03_partition_key_stream_k{k}_of_{m}_markers", [], z3.And(goals), inputs=inputs,
              functions="PartitionKey::{new,iter,write_encoded_partition_key} [scylla/src/statement/prepared.rs], SerializedValues::iter, "
                        "SerializedValuesIterator::next, read_value/read_int/read_raw_bytes [scylla-cql-core]",
              bounds=f"{k} key column(s) among {m} bind markers: all {len(placements(k, m))} injective placements of key columns on markers (every order, "
                     f"non-key markers interleaved holding a 3-byte value / null / unset / empty value); component lengths {length_profiles(k, tier)[:2 if tier == 'quick' else None]} "
                     f"with all bytes symbolic; {n} runs. pk_indexes laid out as obligation c03_pk_indexes_* shows the parser produces them. "
                     "Expected: single column -> its bytes; composite -> len_be16 ‖ bytes ‖ 0x00 per component in partition-key order",
              backend="BV", assumes=LIB, witness=False, outside="more than 5 key columns or 6 markers; component lengths other than listed (the stream is "
              "length-generic code: no branch on content); null key components; components > 65535 bytes (ValueTooLong)",
              replay=lambda mdl, k=k, m=m, tier=tier: replay_encoding(mdl, k, m, tier))


def token(ctx, mf, reg, tier):
    from . import smt_c03 as c03
    cases = [(1, 2, (1,), (5,)), (2, 3, (2, 0), (3, 2)), (3, 4, (3, 0, 2), (1, 2, 3))]
    if tier == "thorough":
        cases += [(2, 2, (1, 0), (16, 1)), (3, 3, (1, 2, 0), (16, 15, 1)), (4, 5, (4, 2, 0, 3), (2, 1, 0, 3)), (1, 1, (0,), (33,))]
    for k, m, place, lens in cases:
        it0 = mir.Interp(mf, mir.BVBackend(), base_models(), inline=INLINE, registry=reg)
        meta, values, comps = build_inputs(it0, reg, k, m, list(place), lens, [3, "null"], "")
        pk = run_new(mf, reg, meta, values)
        if pk is None:
            raise mir.Unsupported("PartitionKey::new failed on a well-formed input")
        t = run_token(mf, reg, pk, "Murmur3")
        exp = expected_stream(comps)
        spec = c03.spec_murmur3_token(exp)
        inputs = [b for c in comps for b in c]
        name = f"c03_token_of_key_k{k}_markers{'_'.join(map(str, place))}_lens{'_'.join(map(str, lens))}"
        ctx.prove(name, [], t == spec, inputs=inputs,
                  functions="PartitionKey::{new,write_encoded_partition_key,calculate_token}, PartitionerName::build_hasher, PartitionerHasherAny::{write,finish}, "
                            "Murmur3PartitionerHasher::{write,finish,…}, Token::new",
                  bounds=f"{k} key column(s) on markers {place} of {m}, component lengths {lens}, all component bytes symbolic; the hasher receives the "
                         "stream in the chunks write_encoded_partition_key produces (length, bytes, 0 separately)", backend="BV", assumes=LIB, witness=False,
                  outside="other placements/lengths: covered piecewise by c03_partition_key_stream_* (stream) and c03_token_of_*_bytes / c03_chunking_* (hash of any stream, any chunking)",
                  replay=lambda mdl, k=k, m=m, place=place, lens=lens: replay_token(mdl, k, m, place, lens))
    # CDC partitioner through the same path
    k, m, place, lens = 1, 2, (1,), (9,)
    it0 = mir.Interp(mf, mir.BVBackend(), base_models(), inline=INLINE, registry=reg)
    meta, values, comps = build_inputs(it0, reg, k, m, list(place), lens, ["null"], "")
    pk = run_new(mf, reg, meta, values)
    t = run_token(mf, reg, pk, "CDC")
    first8 = comps[0][0]
    for b in comps[0][1:8]:
        first8 = z3.Concat(first8, b)
    ctx.prove("c03_cdc_token_of_key_through_calculate_token", [], t == c03.spec_normalise(first8), inputs=comps[0],
              functions="PartitionKey::calculate_token with PartitionerName::CDC, CDCPartitionerHasher::{write,finish}",
              bounds="single key column of 9 bytes (symbolic) on marker 1 of 2", backend="BV", assumes=LIB, witness=False)


def run(ctx, tier):
    try:
        core = mir.MirFile(dump.dump("scylla-cql-core"))
        cql = mir.MirFile(dump.dump("scylla-cql"), others=[core])
        drv = mir.MirFile(dump.dump("scylla"), others=[core, cql])
        reg = rustenum.Registry(["/repo/scylla-cql-core/src/frame/types.rs", "/repo/scylla/src/routing/partitioner.rs"])
    except Exception as e:
        ctx.add(name="smt:c03_pk_mir_dump", engine="smt:mir2smt", status="inconclusive", reason=str(e)[:500])
        return
    steps = [(f"parser_k{k}", (lambda k=k: parser(ctx, cql, k, tier))) for k in ((1, 2, 3) if tier == "quick" else (1, 2, 3, 4))]
    shapes = [(1, 3), (2, 4), (3, 4)] if tier == "quick" else [(1, 4), (2, 5), (3, 5), (4, 5), (5, 6)]
    steps += [(f"encoding_k{k}_m{m}", (lambda k=k, m=m: encoding(ctx, drv, reg, k, m, tier))) for k, m in shapes]
    steps += [("pk_token", lambda: token(ctx, drv, reg, tier))]
    for name, f in steps:
        if ctx.only:
            import re
            # obligations are named after the step; skip whole steps cheaply when --only cannot match any of them
            if not re.search(ctx.only, "c03_pk_indexes c03_partition_key_stream c03_token_of_key c03_cdc_token_of_key " + name):
                continue
        try:
            f()
        except mir.Unsupported as e:
            ctx.add(name=f"smt:c03_translate_{name}", engine="smt:mir2smt", status="inconclusive",
                    reason="translator rejected the current source: " + str(e), functions=FILES)
        except (AttributeError, KeyError, IndexError, TypeError, ValueError) as e:
            ctx.add(name=f"smt:c03_translate_{name}", engine="smt:mir2smt", status="inconclusive",
                    reason=f"translator failed on the current source ({type(e).__name__}: {e})", functions=FILES)


# --------------------------------------------------------------------------------------------- native replays
def replay_parser(m, k):
    from . import native
    nat = native.Native("drv")
    idx = [(m.get(f"idx{j}") or 0) & 0xffff for j in range(k)]
    got = nat.ask("pkmeta " + " ".join(map(str, idx)))
    nat.close()
    want = ",".join(f"{i}:{j}" for i, j in sorted((idx[j], j) for j in range(k)))
    return native.record("C03", f"pk_indexes_k{k}", {"marker_index_of_pk_column": idx, "native_pk_indexes": got, "expected": want}, got != want)


def _native_token(nat, k, m, place, comps):
    """comps: list of bytes; non-key markers get a fixed 3-byte value"""
    cells = []
    for i in range(m):
        cells.append(comps[place.index(i)].hex() or "-" if i in place else "aabbcc")
    pk_sorted = sorted(range(k), key=lambda j: place[j])
    idxs = ",".join(f"{place[j]}:{j}" for j in pk_sorted)
    return nat.ask(f"pktoken {idxs} " + " ".join(cells))


def _py_murmur3_token(data):
    from . import smt_c03 as c03
    t = z3.simplify(c03.spec_murmur3_token([bv(b, 8) for b in data])).as_long()
    return t - (1 << 64) if t >= (1 << 63) else t


def _py_stream(comps):
    if len(comps) == 1:
        return comps[0]
    return b"".join(len(c).to_bytes(2, "big") + c + b"\0" for c in comps)


def replay_encoding(mdl, k, m, tier):
    from . import native
    nat = native.Native("drv")
    bad = []
    for place in placements(k, m):
        for lens in length_profiles(k, tier)[:2 if tier == "quick" else None]:
            comps = [bytes((mdl.get(f"c{j}_{t}") or 0) & 0xff for t in range(lens[j])) for j in range(k)]
            got = _native_token(nat, k, m, list(place), comps)
            want = f"stream={_py_stream(comps).hex()} token={_py_murmur3_token(_py_stream(comps))}"
            if got != want:
                bad.append({"placement": place, "components": [c.hex() for c in comps], "native": got, "expected": want})
    nat.close()
    return native.record("C03", f"pk_stream_k{k}_m{m}", {"mismatches": bad[:6], "checked": "all placements with the model's component bytes"}, bool(bad))


def replay_token(mdl, k, m, place, lens):
    from . import native
    nat = native.Native("drv")
    comps = [bytes((mdl.get(f"c{j}_{t}") or 0) & 0xff for t in range(lens[j])) for j in range(k)]
    got = _native_token(nat, k, m, list(place), comps)
    nat.close()
    want = f"stream={_py_stream(comps).hex()} token={_py_murmur3_token(_py_stream(comps))}"
    return native.record("C03", f"pk_token_k{k}", {"placement": place, "components": [c.hex() for c in comps], "native": got, "expected": want}, got != want)
