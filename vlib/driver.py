import os, re, sys, json, time, importlib, hashlib, subprocess
from . import kanirun

VERIF = kanirun.VERIF
CRATES = ["core", "drv"]

def load_known():
    """known_findings.txt lines:
         finding: property=<id> key=<obligation>[:<detail regex>] <what fails>
         fixed: property=<id> <commit> <what failed>
    """
    out = []
    p = os.path.join(VERIF, "known_findings.txt")
    if os.path.exists(p):
        for ln in open(p):
            ln = ln.strip()
            m = re.match(r"finding:\s*property=(\S+)\s+key=(\S+)\s+(.*)$", ln)
            if m:
                out.append({"prop": m.group(1), "key": m.group(2), "what": m.group(3)})
    return out

def repo_state():
    try:
        head = subprocess.run(["git", "-C", "/repo", "rev-parse", "HEAD"], capture_output=True, text=True).stdout.strip()
        diff = subprocess.run(["git", "-C", "/repo", "diff", "HEAD", "--stat"], capture_output=True, text=True).stdout.strip()
        return {"head": head, "dirty": bool(diff), "diffstat": diff[-400:]}
    except Exception as e:
        return {"error": str(e)}

def run_property(prop, tier, seed, only=None, jobs=12):
    t0 = time.time()
    results = []   # list of obligation result dicts
    tiers = ("quick",) if tier == "quick" else ("quick", "thorough")
    if prop == "SELFTEST":
        return selftest(jobs)
    mem = 14 if tier == "quick" else 24
    # ---- engine K
    for crate in CRATES:
        if not os.path.isdir(os.path.join(VERIF, "kani", crate)):
            continue
        hs = [h for h in kanirun.discover(crate) if h.prop == prop and h.tier in tiers]
        if only:
            hs = [h for h in hs if re.search(only, h.name)]
        if not hs:
            continue
        # group by cap so that a cheap wave is not held to the longest cap
        res = kanirun.run_harnesses(crate, hs, jobs=jobs, mem_gb=mem,
                                    features=crate_features(crate))
        for h in hs:
            r = res[h.full]
            results.append({
                "name": f"kani:{crate}:{h.full}", "engine": "kani-0.68/cbmc-6.11(cadical)",
                "status": r["status"], "reason": r.get("reason"),
                "time_s": r.get("verify_s"), "checks_total": r.get("checks_total"),
                "cover": f'{r.get("cover_sat")}/{r.get("cover_total")}',
                "failed_checks": r.get("failed_checks", []),
                "functions": h.meta.get("funcs", ""), "bounds": h.meta.get("bounds", ""),
                "assumes": h.meta.get("assumes", ""), "outside": h.meta.get("out", ""),
                "stubbed": h.meta.get("stubbed", "0") == "1", "replay_mode": h.meta.get("replay", "playback"),
                "log": r.get("log"), "_h": h,
            })
    # ---- engine S
    modname = f"vlib.smt_{prop.lower()}"
    try:
        mod = importlib.import_module(modname)
    except ModuleNotFoundError as e:
        if e.name != modname: raise
        mod = None
    if mod is not None:
        for r in mod.run(tier, seed, only):
            results.append(r)
    if not results:
        print(f"no obligations registered for {prop}", file=sys.stderr)
        return 2
    # ---- triage violations: replay on the real code
    known = [k for k in load_known() if k["prop"] == prop]
    violations, known_hits, inconclusive = [], [], []
    for r in results:
        if r["status"] == "violated":
            key = r["name"]
            kf = [k for k in known if key.endswith(k["key"]) or k["key"] == key]
            if kf:
                known_hits.append((r, kf[0])); continue
            rp = replay(prop, r)
            r["replay"] = rp
            if rp["reproduced"]:
                violations.append(r)
            else:
                r["status"] = "inconclusive"
                r["reason"] = "solver counterexample did not reproduce on the native build: " + rp.get("note", "")
                inconclusive.append(r)
        elif r["status"] != "discharged":
            inconclusive.append(r)
    wall = time.time() - t0
    write_evidence(prop, tier, seed, results, violations, known_hits, inconclusive, wall)
    for r, k in known_hits:
        print(f"KNOWN-FINDING: property={prop} {k['what']} [{r['name']}]")
    for r in results:
        tag = {"discharged": "ok  ", "violated": "FAIL", "inconclusive": "??  "}[r["status"]]
        print(f"  [{tag}] {r['name']}  {r.get('time_s')}s  {r.get('reason') or ''}")
    if violations:
        for r in violations:
            print(f"VIOLATION property={prop} replay={r['replay']['path']}")
        return 1
    if inconclusive:
        print(f"INCONCLUSIVE property={prop}: {len(inconclusive)} obligation(s) undecided; see evidence/logs", file=sys.stderr)
        return 2
    print(f"PASS property={prop} tier={tier} obligations={len(results)} wall={wall:.0f}s")
    return 0

def crate_features(crate):
    return None

def replay(prop, r):
    from . import replay as rp
    return rp.replay_obligation(prop, r)

def write_evidence(prop, tier, seed, results, violations, known_hits, inconclusive, wall):
    obligations = len(results)
    discharged = sum(1 for r in results if r["status"] == "discharged")
    samples = []
    for r in results:
        s = {k: v for k, v in r.items() if not k.startswith("_") and k not in ("log",) and v not in (None, "", [])}
        samples.append(s)
    trusted = ["Kani 0.68.0 MIR->goto translation and its models of std/alloc intrinsics",
               "CBMC 6.11.0 symbolic execution + CaDiCaL SAT verdicts",
               "rustc (Kani's pinned toolchain / nightly for MIR dumps) front end",
               "the reference oracles written in /verif/kani/*/src (specs transcribed from native_protocol_v4 and ScyllaDB docs)"]
    if any(r["engine"].startswith("smt") for r in results):
        trusted.append("mir2smt translator (validated each run against native execution on seeded inputs) and z3 / cvc5 unsat verdicts")
    ev = {
        "property_id": prop, "tier": tier, "seed": seed, "level": "model_checking",
        "coverage": {
            "evaluations": obligations,
            "distinct_nontrivial": sum(1 for r in results if r["status"] == "discharged" and r.get("cover", "1/1").split("/")[0] not in ("0", "None")),
            "rule": "one evaluation = one solver-decided obligation (a Kani/CBMC proof harness over the real compiled code, or an SMT query over the MIR-derived encoding); "
                    "all values of the symbolic inputs inside the stated bound are decided at once. An obligation is non-trivial iff its reachability witness "
                    "(kani::cover! after the last assertion / a sat check of the path condition) was confirmed, i.e. the assertion was reached by at least one input.",
            "obligations": obligations, "discharged": discharged,
            "checker_cmd": f"bin/vcheck {prop} --tier {tier}",
            "trusted_base": trusted,
            "samples": samples,
            "exhaustive": False,
            "solver_time_s": round(sum((r.get("time_s") or 0) for r in results), 2),
            "explanation": "Bounded symbolic verification: verdicts hold for every input within each obligation's 'bounds'; nothing is claimed outside them ('outside').",
            "repo": repo_state(),
        },
        "assumptions": sorted({a for r in results for a in [r.get("assumes")] if a}),
        "wall_s": round(wall, 1),
        "violations": len(violations),
        "known_findings": [k["what"] for _, k in known_hits],
        "inconclusive": [r["name"] for r in inconclusive],
    }
    os.makedirs(os.path.join(VERIF, "evidence"), exist_ok=True)
    with open(os.path.join(VERIF, "evidence", f"{prop}.json"), "w") as f:
        json.dump(ev, f, indent=1, default=str)

def selftest(jobs):
    """Runner self-test: harnesses with known verdicts (violated / vacuous / unwind too small / timeout)."""
    bad = 0
    for crate in CRATES:
        if not os.path.isdir(os.path.join(VERIF, "kani", crate)): continue
        hs = [h for h in kanirun.discover(crate) if h.prop == "SELFTEST"]
        if not hs: continue
        res = kanirun.run_harnesses(crate, hs, jobs=jobs, mem_gb=8)
        for h in hs:
            r = res[h.full]; exp = h.meta.get("expect")
            ok = r["status"] == exp
            print(f"  selftest {h.full}: got {r['status']} ({r.get('reason')}) expected {exp} -> {'ok' if ok else 'BAD'}")
            bad += (not ok)
            if r["status"] == "violated" and h.meta.get("replayexp"):
                rr = {"name": h.full, "engine": "kani", "_h": h, "failed_checks": r.get("failed_checks")}
                rp = replay("SELFTEST", rr)
                ok2 = str(rp["reproduced"]) == h.meta["replayexp"]
                print(f"    replay reproduced={rp['reproduced']} expected {h.meta['replayexp']} -> {'ok' if ok2 else 'BAD'} ({rp.get('note')})")
                bad += (not ok2)
    return 0 if bad == 0 else 2
