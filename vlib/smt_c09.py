"""C09 — engine S: request frames say exactly what the caller asked for.
QUERY / PREPARE / OPTIONS bodies and the frame header produced by SerializedRequest::make are symbolically executed from
the MIR of scylla-cql (frame/mod.rs, frame/request/*.rs, frame/types.rs) into a byte-sink model and compared, byte for
byte, with an independent CQL v4 request encoder written here from native_protocol_v4 §4.1.4 / §2."""
import itertools
import z3
from mir2smt import dump, mir, solve, oblig, rustenum, stdmodels as sm
from mir2smt.mir import Int, Bool, Tup, Enum, Ref, Cell, Seq, Opaque, Unit

LIB = ("library models (trusted): Vec<u8>/BufMut as an append-only byte sequence (put_u8/i16/u16/i32/i64/put_slice big-endian), "
       "vec![0; n], Vec index/len, to_be_bytes, copy_from_slice, usize::try_into, Result Try/map_err plumbing, Option::is_some, Cow/Arc deref; "
       "compression (compress_append) replaced by an opaque 3-byte body; enum discriminant values parsed from the current source")
OPTION = mir.ENUM_VARIANTS["Option"]


def bv(v, w): return z3.BitVecVal(v, w)
def be_bytes(t, n): return [z3.Extract(8 * k + 7, 8 * k, t) for k in reversed(range(n))]


def models(extra=None):
    m = {}
    m.update(sm.BUFMUT_MODELS); m.update(sm.SLICE_MODELS); m.update(sm.INT_MODELS)
    m[r"^<Cow<'_, SerializedValues> as Deref>::deref$"] = sm.m_identity
    m[r"^PagingState::as_bytes_slice$"] = lambda it, p, c, a: mir.copy_value(sm.deref(a[0]).f[0])
    m[r"^<std::sync::Arc<\[u8\]> as Deref>::deref$"] = lambda it, p, c, a: sm.mk_slice(it, a[0], 0, len(sm.elems(sm.deref(a[0]))))
    m[r"^<Cow<'_, str> as Deref>::deref$"] = lambda it, p, c, a: sm.deref(a[0])
    m[r"^<Vec<u8> as Deref>::deref$"] = lambda it, p, c, a: sm.mk_slice(it, a[0], 0, len(sm.elems(sm.deref(a[0]))))
    m[r"^Vec::<u8>::as_slice$"] = lambda it, p, c, a: sm.mk_slice(it, a[0], 0, len(sm.elems(sm.deref(a[0]))))
    def map_err(it, p, callee, args):
        r = args[0]
        pl = dict(r.payloads); pl[1] = Tup([Opaque("mapped-error")])
        return Enum(r.discr, pl, r.variants, r.name)
    m[r"^std::result::Result::<.*>::map_err::<"] = map_err
    if extra:
        m.update(extra)
    return m


INLINE = [r"write_(consistency|serial_consistency|int|long|short|bytes|long_string|string|short_bytes|int_length|short_length|bytes_opt)(::<.*>)?$",
          r"SerializedValues::(is_empty|element_count|write_to_request)(::<.*>)?$", r"QueryParameters::<'_>::serialize", r"QueryParameters::serialize"]


def opt(it_be, present, payload):
    return Enum(Int(bv(1 if present else 0, 64), 64, True), ({1: Tup([payload])} if present else {}), OPTION, "Option")


def text_slice(it, chars):
    return sm.mk_slice(it, Ref(Cell(Seq([Int(c, 8, False) for c in chars]))), 0, len(chars))


def run(tier, seed, only):
    ctx = oblig.Ctx(tier, only)
    try:
        core = mir.MirFile(dump.dump("scylla-cql-core"))
        mf = mir.MirFile(dump.dump("scylla-cql"), others=[core])
        reg = rustenum.Registry(["/repo/scylla-cql-core/src/frame/types.rs", "/repo/scylla-cql/src/frame/request/mod.rs",
                                 "/repo/scylla-cql-core/src/frame/mod.rs", "/repo/scylla-cql-core/src/frame/request/batch.rs",
                                 "/repo/scylla-cql/src/frame/server_event_type.rs"])
    except Exception as e:
        return [{"name": "smt:c09_mir_dump", "engine": "smt:mir2smt", "status": "inconclusive", "reason": str(e)[:500]}]
    steps = [("query_parameters", lambda: query_parameters(ctx, mf, reg, tier)),
             ("query_frame", lambda: query_frame(ctx, mf, reg)),
             ("length_writers", lambda: length_writers(ctx, mf))]
    for name, f in steps:
        try:
            f()
        except mir.Unsupported as e:
            ctx.add(name=f"smt:c09_translate_{name}", engine="smt:mir2smt", status="inconclusive",
                    reason="translator rejected the current source: " + str(e), functions="scylla-cql/src/frame/")
    from . import smt_c09req
    smt_c09req.run(ctx, mf, reg, tier)
    return ctx.results


def sym_consistency(reg, name, pre):
    ed = reg.get("Consistency")
    d = z3.BitVec(name, 64)
    pre.append(z3.Or([d == v for _, v, _ in ed.variants]))
    return Enum(Int(d, 64, True), {}, ed.variant_map(), ed.name), d


def build_params(it, reg, pre, shape, tag=""):
    """shape: dict(values=0|1|2, skip=bool|None(symbolic), page=bool, paging=0|None|k bytes, serial=bool, ts=bool)"""
    cons, cd = sym_consistency(reg, "consistency" + tag, pre)
    sc = reg.get("SerialConsistency")
    scd = z3.BitVec("serial" + tag, 64)
    pre.append(z3.Or([scd == v for _, v, _ in sc.variants]))
    serial = opt(None, shape["serial"], Enum(Int(scd, 64, True), {}, sc.variant_map(), sc.name))
    ts = z3.BitVec("timestamp" + tag, 64)
    page = z3.BitVec("page_size" + tag, 32)
    skip = z3.Bool("skip_metadata" + tag)
    pbytes = [z3.BitVec(f"ps{i}{tag}", 8) for i in range(shape["paging"] or 0)]
    paging = Tup([opt(None, shape["paging"] is not None, Ref(Cell(Seq([Int(b, 8, False) for b in pbytes]))))], "PagingState")
    # bound values: n cells; cell i is null / unset / a 1-byte value (symbolic choice is made by the caller through concrete shapes)
    vbytes, vcount = [], shape["values"]
    spec_vals = []
    for i, kind in enumerate(shape.get("cells", [])):
        if kind == "null": cell = [bv(0xff, 8)] * 4
        elif kind == "unset": cell = [bv(0xff, 8)] * 3 + [bv(0xfe, 8)]
        else:
            x = z3.BitVec(f"val{i}{tag}", 8)
            cell = [bv(0, 8), bv(0, 8), bv(0, 8), bv(1, 8), x]
        vbytes += cell
    values = Tup([Seq([Int(b, 8, False) for b in vbytes]), Int(bv(vcount, 16), 16, False)], "SerializedValues")
    params = Tup([cons, serial, opt(None, shape["ts"], Int(ts, 64, True)), opt(None, shape["page"], Int(page, 32, True)),
                  paging, Bool(skip), values], "QueryParameters")
    # ---- independent encoding (native_protocol_v4 §4.1.4): <consistency><flags>[<n><values>][<page_size>][<paging_state>][<serial>][<ts>]
    flags = (0x01 if vcount > 0 else 0) | (0x04 if shape["page"] else 0) | (0x08 if shape["paging"] is not None else 0) | \
            (0x10 if shape["serial"] else 0) | (0x20 if shape["ts"] else 0)
    spec = be_bytes(z3.Extract(15, 0, cd), 2)
    spec += [z3.If(skip, bv(flags | 0x02, 8), bv(flags, 8))]
    if vcount > 0:
        spec += be_bytes(bv(vcount, 16), 2) + vbytes
    if shape["page"]:
        spec += be_bytes(page, 4)
    if shape["paging"] is not None:
        spec += be_bytes(bv(len(pbytes), 32), 4) + pbytes
    if shape["serial"]:
        spec += be_bytes(z3.Extract(15, 0, scd), 2)
    if shape["ts"]:
        spec += be_bytes(ts, 8)
    inputs = [cd, scd, ts, page, skip] + pbytes + [b for b in vbytes if z3.is_const(b) and b.decl().kind() == z3.Z3_OP_UNINTERPRETED]
    return params, spec, inputs


def shapes(tier):
    out = []
    cells_opts = [(0, []), (1, ["val"]), (2, ["null", "val"]), (2, ["unset", "val"])] if tier != "quick" else [(0, []), (2, ["null", "val"]), (1, ["unset"])]
    for (vc, cells), page, paging, serial, ts in itertools.product(cells_opts, [False, True], [None, 0, 2], [False, True], [False, True]):
        out.append(dict(values=vc, cells=cells, page=page, paging=paging, serial=serial, ts=ts))
    return out


def run_single(it, fn, args, pre, what):
    paths = it.run(fn, args, pre)
    good = [p for p in paths if p.outcome[0] == "return"]
    bad = [p for p in paths if p.outcome[0] != "return"]
    if not good:
        raise mir.Unsupported(f"{what}: no returning path ({[p.outcome for p in bad][:2]})")
    return good, bad


def sink_equals(good, bad, sink_local, spec, result_ok=True):
    """for every returning path: result is Ok and the sink holds exactly `spec`"""
    goals = [z3.Not(z3.And(p.pc)) if p.pc else z3.BoolVal(False) for p in bad]
    for p in good:
        pc = z3.And(p.pc) if p.pc else z3.BoolVal(True)
        sink = sm.deref(p.locals[sink_local].v)
        items = sink.items
        conj = [z3.BoolVal(len(items) == len(spec))]
        if len(items) == len(spec):
            conj += [a.t == b for a, b in zip(items, spec)]
        r = p.outcome[1]
        if isinstance(r, Enum):
            conj.append(r.discr.t == (0 if result_ok else 1))
        goals.append(z3.Implies(pc, z3.And(conj)))
    return z3.And(goals)


def query_parameters(ctx, mf, reg, tier):
    be = mir.BVBackend()
    fn = mf.find(r"query\.rs[^>]*>::serialize\(_1: &QueryParameters")
    F = "QueryParameters::serialize, SerializedValues::write_to_request, types::write_{consistency,int,long,bytes,serial_consistency,int_length} [scylla-cql/src/frame/request/query.rs, frame/types.rs]"
    all_goals, all_inputs, n = [], [], 0
    allpre = []
    for k, shape in enumerate(shapes(tier)):
        pre = []
        it = mir.Interp(mf, be, models(), inline=INLINE, registry=reg, max_steps=4000)
        params, spec, inputs = build_params(it, reg, pre, shape, tag=f"_{k}")
        sink = Cell(Seq([]))
        good, bad = run_single(it, fn, [Ref(Cell(params)), Ref(sink)], pre, "QueryParameters::serialize")
        all_goals.append(sink_equals(good, bad, 2, spec))
        all_inputs += inputs; allpre += pre; n += 1
    ctx.prove("c09_query_parameters_all_option_subsets_match_v4_layout", allpre, z3.And(all_goals), inputs=all_inputs, functions=F,
              bounds=f"{n} shapes = every subset of the optional fields {{page size, paging state (absent / empty / 2 bytes), serial consistency, timestamp}} x "
                     "value lists (0..2 cells incl. null / unset / 1-byte value); all scalar fields symbolic (consistency over all levels, "
                     "i32 page size, i64 timestamp, skip_metadata, value and paging-state bytes)",
              backend="BV", assumes=LIB, outside="value lists > 2 cells, paging states > 2 bytes; named values (never produced by the driver)",
              replay=lambda m, tier=tier: replay_params(m, tier))


def query_frame(ctx, mf, reg):
    be = mir.BVBackend()
    make = mf.find(r"frame/mod\.rs[^>]*>::make\(_1: &R")
    qser = mf.find(r"query\.rs[^>]*>::serialize\(_1: &frame::request::query::Query<")
    F = "SerializedRequest::make::<Query>, Query::serialize, QueryParameters::serialize, types::write_long_string [scylla-cql/src/frame/mod.rs, request/query.rs]"
    ro = reg.get("RequestOpcode")
    goals, inputs, pre_all = [], [], []
    for k, (compressed, shape) in enumerate([(False, dict(values=0, cells=[], page=True, paging=None, serial=True, ts=True)),
                                             (False, dict(values=1, cells=["val"], page=False, paging=0, serial=False, ts=False)),
                                             (True, dict(values=0, cells=[], page=False, paging=None, serial=False, ts=False))]):
        pre = []
        text = [z3.BitVec(f"q{i}_{k}", 8) for i in range(2)]
        tracing = z3.Bool(f"tracing_{k}")
        def r_serialize(it, p, callee, args, _q=qser):
            return it.call_mir(_q, p, args)
        def r_to_bytes(it, p, callee, args):
            return Enum(it.const_int(0, "isize"), {0: Tup([Opaque("Bytes")])}, sm.RESULT, "Result")
        def compress_append(it, p, callee, args):
            sm.sink_items(args[2]).extend([Int(z3.BitVec(f"cz{i}_{k}", 8), 8, False) for i in range(3)])
            return Enum(it.const_int(0, "isize"), {0: Tup([Unit()])}, sm.RESULT, "Result")
        extra = {r"^<R as SerializableRequest>::serialize$": r_serialize, r"^<R as SerializableRequest>::to_bytes$": r_to_bytes,
                 r"^compress_append$": compress_append, r"^<bytes::Bytes as Deref>::deref$": lambda it, p, c, a: Opaque("bytes"),
                 "__consts__": {"<R as frame::request::SerializableRequest>::OPCODE":
                                Enum(Int(bv(ro.discr("Query"), 64), 64, True), {}, ro.variant_map(), ro.name)}}
        it = mir.Interp(mf, be, models(extra), inline=INLINE, registry=reg, max_steps=6000)
        params, pspec, pin = build_params(it, reg, pre, shape, tag=f"_f{k}")
        query = Tup([text_slice(it, text), params], "Query")
        comp = opt(None, compressed, Enum(Int(bv(0, 64), 64, True), {}, {"Lz4": 0, "Snappy": 1}, "Compression"))
        good, bad = run_single(it, make, [Ref(Cell(query)), comp, Bool(tracing)], pre, "SerializedRequest::make")
        body = be_bytes(bv(len(text), 32), 4) + text + pspec
        if compressed:
            body = [z3.BitVec(f"cz{i}_{k}", 8) for i in range(3)]
        flags = z3.If(tracing, bv(0x02, 8), bv(0, 8)) | bv(0x01 if compressed else 0, 8)
        header = [bv(4, 8), flags, bv(0, 8), bv(0, 8), bv(ro.discr("Query"), 8)] + be_bytes(bv(len(body), 32), 4)
        spec = header + body
        for p in bad:
            goals.append(z3.Not(z3.And(p.pc)) if p.pc else z3.BoolVal(False))
        for p in good:
            pc = z3.And(p.pc) if p.pc else z3.BoolVal(True)
            r = p.outcome[1]
            data = r.payloads[0].f[0].f[0] if 0 in r.payloads else None
            conj = [r.discr.t == 0]
            if data is None or len(data.items) != len(spec):
                conj.append(z3.BoolVal(False))
            else:
                conj += [a.t == b for a, b in zip(data.items, spec)]
            goals.append(z3.Implies(pc, z3.And(conj)))
        inputs += pin + text + [tracing]; pre_all += pre
    ctx.prove("c09_query_frame_header_and_body", pre_all, z3.And(goals), inputs=inputs, functions=F,
              bounds="QUERY frames for 3 parameter shapes (one with a compressed body): version byte 4, flags = tracing bit (| compression bit), stream 0, "
                     "opcode 0x07, length = body size, body = [long string][parameters]; statement text of 2 symbolic bytes; tracing symbolic",
              backend="BV", assumes=LIB, outside="LZ4/Snappy bodies themselves (compressor loops, third-party code); set_stream; EXECUTE/BATCH/REGISTER/AUTH_RESPONSE/STARTUP",
              replay=lambda m: replay_frames(m))


def length_writers(ctx, mf):
    """oversize inputs are refused, not truncated: the checked length writers over ALL usize lengths"""
    be = mir.BVBackend()
    n = z3.BitVec("n", 64)
    for fname, width, maxv in (("write_int_length", 4, (1 << 31) - 1), ("write_short_length", 2, (1 << 16) - 1)):
        fn = mf.find(r"(^|::)" + fname + r"\(_1: usize")
        it = mir.Interp(mf, be, models(), inline=INLINE, max_steps=2000)
        sink = Cell(Seq([]))
        paths = it.run(fn, [Int(n, 64, False), Ref(sink)], [])
        goals = []
        for p in paths:
            pc = z3.And(p.pc) if p.pc else z3.BoolVal(True)
            if p.outcome[0] != "return":
                goals.append(z3.Not(pc)); continue
            r = p.outcome[1]
            items = sm.deref(p.locals[2].v).items
            fits = z3.ULE(n, maxv)
            conj = [(r.discr.t == 0) == fits]
            # on success exactly the big-endian length was written; on refusal nothing was written
            if len(items) == width:
                conj.append(z3.And([a.t == b for a, b in zip(items, be_bytes(z3.Extract(8 * width - 1, 0, n), width))]))
                conj.append(fits)
            elif len(items) == 0:
                conj.append(z3.Not(fits))
            else:
                conj.append(z3.BoolVal(False))
            goals.append(z3.Implies(pc, z3.And(conj)))
        goals.append(z3.Or([z3.And(p.pc) if p.pc else z3.BoolVal(True) for p in paths]))
        ctx.prove(f"c09_{fname}_refuses_oversize_and_writes_exact_prefix", [], z3.And(goals), inputs=[n],
                  functions=f"types::{fname} [scylla-cql/src/frame/types.rs]", bounds=f"all 2^64 usize lengths: Err iff > {maxv}, else the exact {width}-byte big-endian prefix",
                  backend="BV", assumes=LIB, witness=False, replay=lambda m, fname=fname, width=width, maxv=maxv: replay_length(m, fname, width, maxv))


def replay_length(m, fname, width, maxv):
    from . import native
    v = int(m.get("n") or 0) & ((1 << 64) - 1)
    nat = native.Native("core")
    got = nat.ask(f"wlen {'int' if width == 4 else 'short'} {v}")
    nat.close()
    want = f"OK {(v).to_bytes(width, 'big').hex()}" if v <= maxv else "ERR -"
    return native.record("C09", fname, {"length": v, "native": got, "expected": want}, got != want)


# ------------------------------------------------------------------ native replay (real scylla-cql code, concrete values from the model)
FRAME_SHAPES = [(0, dict(values=0, cells=[], page=True, paging=None, serial=True, ts=True)),
                (0, dict(values=1, cells=["val"], page=False, paging=0, serial=False, ts=False)),
                (1, dict(values=0, cells=[], page=False, paging=None, serial=False, ts=False))]
CONS = [0, 1, 2, 3, 4, 5, 6, 7, 8, 9, 10]


def _concrete(m, shape, tag):
    def g(name, default=0):
        v = m.get(name + tag)
        return default if v is None else v
    cons = g("consistency") & 0xffff
    if cons not in CONS: cons = 1
    serial = g("serial", 8) & 0xffff
    if serial not in (8, 9): serial = 8
    ts = g("timestamp"); ts = ts - (1 << 64) if ts >= (1 << 63) else ts
    page = g("page_size") & 0xffffffff; page = page - (1 << 32) if page >= (1 << 31) else page
    skip = 1 if m.get("skip_metadata" + tag) else 0
    pbytes = [g(f"ps{i}") & 0xff for i in range(shape["paging"] or 0)]
    cells, cellbytes = [], []
    for i, kind in enumerate(shape.get("cells", [])):
        if kind == "null": cells.append("n"); cellbytes += [0xff] * 4
        elif kind == "unset": cells.append("u"); cellbytes += [0xff, 0xff, 0xff, 0xfe]
        else:
            x = g(f"val{i}") & 0xff
            cells.append(f"v{x}"); cellbytes += [0, 0, 0, 1, x]
    flags = (1 if shape["values"] else 0) | (2 if skip else 0) | (4 if shape["page"] else 0) | (8 if shape["paging"] is not None else 0) | \
            (0x10 if shape["serial"] else 0) | (0x20 if shape["ts"] else 0)
    spec = list(cons.to_bytes(2, "big")) + [flags]
    if shape["values"]: spec += list(shape["values"].to_bytes(2, "big")) + cellbytes
    if shape["page"]: spec += list((page & 0xffffffff).to_bytes(4, "big"))
    if shape["paging"] is not None: spec += list(len(pbytes).to_bytes(4, "big")) + pbytes
    if shape["serial"]: spec += list(serial.to_bytes(2, "big"))
    if shape["ts"]: spec += list((ts & ((1 << 64) - 1)).to_bytes(8, "big"))
    paging = "-" if shape["paging"] is None else ("e" if not pbytes else bytes(pbytes).hex())
    args = f"{cons} {skip} {page if shape['page'] else '-'} {paging} {serial if shape['serial'] else '-'} {ts if shape['ts'] else '-'}"
    return args, (",".join(cells) if cells else "-"), spec


def replay_params(m, tier):
    from . import native
    nat = native.Native("core")
    bad = []
    for k, shape in enumerate(shapes(tier)):
        args, cells, spec = _concrete(m, shape, f"_{k}")
        got = nat.ask(f"query params 0 0 {args} - {cells}")
        if got != bytes(spec).hex():
            bad.append({"shape": shape, "native": got, "expected": bytes(spec).hex()})
    nat.close()
    return native.record("C09", "query_parameters", {"model": {k: v for k, v in list(m.items())[:40]}, "mismatches": bad[:5]}, bool(bad))


def replay_frames(m):
    from . import native
    nat = native.Native("core")
    bad = []
    for k, (comp, shape) in enumerate(FRAME_SHAPES):
        args, cells, pspec = _concrete(m, shape, f"_f{k}")
        text = [(m.get(f"q{i}_{k}") or 0x61) & 0x7f or 0x61 for i in range(2)]     # keep the statement ASCII so it survives as a Rust String
        for tracing in (0, 1):
            got = nat.ask(f"query frame {comp} {tracing} {args} {bytes(text).hex()} {cells}")
            if got in ("ERR", "PANIC", "UNKNOWN"):
                bad.append({"shape": k, "native": got}); continue
            g = bytes.fromhex(got)
            body = list(len(text).to_bytes(4, "big")) + text + pspec
            want_hdr = [4, (2 if tracing else 0) | (1 if comp else 0), 0, 0, 7]
            ok = list(g[:5]) == want_hdr and int.from_bytes(g[5:9], "big") == len(g) - 9
            if not comp:
                ok = ok and list(g[9:]) == body
            if not ok:
                bad.append({"shape": k, "compression": comp, "tracing": tracing, "native": got, "expected_header": bytes(want_hdr).hex(),
                            "expected_body": None if comp else bytes(body).hex()})
    nat.close()
    return native.record("C09", "query_frame", {"mismatches": bad[:5]}, bool(bad))
