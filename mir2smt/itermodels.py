"""Trusted models of std iterator adaptors (engine S).

Iterators are values:  EagerIter(Seq items, pos) | Range{start,end} | LazyMap(src, closure) | Enumerate(src, n).
`map` is LAZY as in std: the closure's MIR body runs when the element is pulled (next / collect / for-loop), so closures
with side effects (reading from a buffer) are executed in the order the real code executes them.  Element counts must be
concrete on the path (symbolic contents are fine)."""
import itertools, re
import z3
from . import mir, stdmodels as sm
from .mir import Int, Bool, Tup, Enum, Ref, Cell, Seq, Opaque, Unit, Unsupported, PANIC

_TMP = itertools.count(10 ** 6)


def eager(items):
    return Tup([Seq(list(items)), Int(z3.BitVecVal(0, 64), 64, False)], "EagerIter")


def eager_rest(v):
    if not (isinstance(v, Tup) and v.name == "EagerIter"):
        raise Unsupported(f"expected a materialised iterator, got {str(v)[:120]}")
    pos = sm._cint(v.f[1])
    return v.f[0].items[pos:]


def _sub(v, path):
    for i in path:
        v = v.f[i]
    return v


def _concrete(x, what):
    t = z3.simplify(x.t)
    if not (z3.is_bv_value(t) or z3.is_int_value(t)):
        raise Unsupported(what + " is symbolic on this path")
    return t.as_long()


def stash(p, value):
    """keep a by-value iterator reachable from the path, so that it follows forks/merges done by closure calls"""
    key = next(_TMP)
    p.locals[key] = Cell(value)
    return key, Ref(p.locals[key])


def unstash(p, key):
    return p.locals.pop(key).v


def pull(it, p, root, path=()):
    """advance the iterator at _sub(deref(root), path); returns (path', root', Option)"""
    v = _sub(sm.deref(root), path)
    if not isinstance(v, Tup):
        raise Unsupported(f"not an iterator value: {str(v)[:120]}")
    if v.name == "EagerIter":
        pos = sm._cint(v.f[1])
        if pos >= len(v.f[0].items):
            return p, root, sm.none(it)
        v.f[1] = Int(z3.BitVecVal(pos + 1, 64), 64, False)
        return p, root, sm.some(it, v.f[0].items[pos])
    if "Range" in v.name and len(v.f) == 2 and isinstance(v.f[0], Int):
        lo, hi = sm._sval(v.f[0]), sm._sval(v.f[1])
        if lo < hi:
            v.f[0] = sm._mk_like(it, v.f[0], lo + 1)
            return p, root, sm.some(it, sm._mk_like(it, v.f[0], lo))
        return p, root, sm.none(it)
    if v.name.startswith("LazyMap"):
        p, root, o = pull(it, p, root, tuple(path) + (0,))
        if _concrete(o.discr, "iterator exhaustion") == 0:
            return p, root, o
        item = o.payloads[1].f[0]
        v = _sub(sm.deref(root), path)
        target = sm.find_closure(it, v.name)
        clo_ref = Ref(root.cell, tuple(root.path) + tuple(("field", i) for i in tuple(path) + (1,)))
        res = it.call_mir(target, p, [clo_ref, item])
        if len(res) != 1:
            raise Unsupported(f"closure of a mapped iterator forks into {len(res)} paths")
        q, val = res[0]
        if val is PANIC:
            raise mir.Panic("panic inside a mapped iterator's closure")
        return q, sm._reref(p, q, root), sm.some(it, val)
    if v.name == "Enumerate":
        p, root, o = pull(it, p, root, tuple(path) + (0,))
        if _concrete(o.discr, "iterator exhaustion") == 0:
            return p, root, o
        v = _sub(sm.deref(root), path)
        n = v.f[1]
        v.f[1] = Int(it.be.const(sm._cint(n) + 1, 64), 64, False)
        return p, root, sm.some(it, Tup([n, o.payloads[1].f[0]]))
    if v.name == "Chain":
        p, root, o = pull(it, p, root, tuple(path) + (0,))
        if _concrete(o.discr, "iterator exhaustion") == 1:
            return p, root, o
        return pull(it, p, root, tuple(path) + (1,))
    raise Unsupported("iterator kind " + v.name)


def drain(it, p, value, limit=64):
    """pull every element of a by-value iterator; returns (path', [items])"""
    key, root = stash(p, value)
    out = []
    for _ in range(limit + 1):
        q, root, o = pull(it, p, root)
        if q is not p:
            p = q
        if _concrete(o.discr, "iterator exhaustion") == 0:
            unstash(p, key)
            return p, out
        out.append(o.payloads[1].f[0])
    raise Unsupported("iterator longer than the model's limit")


# ------------------------------------------------------------------------------------------------ models
def m_slice_iter(it, p, callee, args):
    a = args[0]
    if isinstance(a, Tup) and a.name == "Slice":
        base, st, ln = sm.slice_parts(a)
        return eager([Ref(base.cell, tuple(base.path) + (("index_const", st + i),)) for i in range(ln)])
    n = len(sm.elems(sm.deref(a)))
    return eager([Ref(a.cell, tuple(a.path) + (("index_const", i),)) for i in range(n)])


def m_vec_into_iter(it, p, callee, args):
    a = args[0]
    if isinstance(a, Ref):
        return m_slice_iter(it, p, callee, args)
    return eager(list(sm.elems(a)))


def m_copied(it, p, callee, args):
    q, items = drain(it, p, args[0])
    return [(q, eager([mir.copy_value(sm.deref(x)) if isinstance(x, Ref) else x for x in items]))]


def m_flatten_options(it, p, callee, args):
    q, items = drain(it, p, args[0])
    out = []
    for x in items:
        o = sm.deref(x) if isinstance(x, Ref) else x
        if _concrete(o.discr, "presence of an Option inside flatten()") == 1:
            out.append(o.payloads[1].f[0])
    return [(q, eager(out))]


def m_map(it, p, callee, args):
    m = re.search(r"\{closure@([^}]*)\}", callee)
    if not m:
        raise Unsupported("map with a non-closure function: " + callee)
    return Tup([args[0], args[1]], "LazyMap{closure@" + m.group(1) + "}")


def m_enumerate(it, p, callee, args):
    return Tup([args[0], Int(z3.BitVecVal(0, 64), 64, False)], "Enumerate")


def m_once(it, p, callee, args):
    return eager([args[0]])


def m_chain(it, p, callee, args):
    return Tup([args[0], args[1]], "Chain")


def m_next(it, p, callee, args):
    q, root, o = pull(it, p, args[0])
    return [(q, o)]


def m_collect(it, p, callee, args):
    """collect::<Vec<T>>() and collect::<Result<Vec<T>, E>>() (stops at the first Err, as std's GenericShunt does)"""
    into_result = re.search(r"::collect::<(std::result::)?Result<", callee) is not None
    key, root = stash(p, args[0])
    out = []
    for _ in range(65):
        q, root, o = pull(it, p, root)
        p = q
        if _concrete(o.discr, "iterator exhaustion") == 0:
            unstash(p, key)
            seq = Seq(out)
            if into_result:
                return [(p, Enum(it.const_int(0, "isize"), {0: Tup([seq])}, sm.RESULT, "Result"))]
            return [(p, seq)]
        item = o.payloads[1].f[0]
        if into_result:
            if _concrete(item.discr, "Ok/Err of a collected element") == 1:
                unstash(p, key)
                return [(p, Enum(it.const_int(1, "isize"), {1: item.payloads.get(1, Tup([Opaque("err")]))}, sm.RESULT, "Result"))]
            item = item.payloads[0].f[0]
        out.append(item)
    raise Unsupported("collect over more than 64 elements")


def sort_perms(it, p, ref, keys):
    """fork over every permutation of the sequence behind `ref` whose keys are non-decreasing (unstable sort: ties in any order)"""
    n = len(keys)
    out = []
    for perm in itertools.permutations(range(n)):
        q = mir.fork(p)
        for a, b in zip(perm, perm[1:]):
            ka, kb = keys[a], keys[b]
            q.pc.append(it.be.sle(ka.t, kb.t, ka.w) if ka.signed else it.be.ule(ka.t, kb.t, ka.w))
        if not it.feasible(q.pc):
            continue
        qs = sm.deref(sm._reref(p, q, ref))
        old = list(qs.items)
        qs.items[:] = [old[i] for i in perm]
        out.append((q, Unit()))
    return out


def m_sort_unstable_by_key(it, p, callee, args):
    target = sm.find_closure(it, callee)
    ref = args[0]
    n = len(sm.deref(ref).items)
    if n > 5:
        raise Unsupported("sort of more than 5 elements (permutation model)")
    keys = []
    for i in range(n):
        res = it.call_mir(target, p, [Ref(Cell(Tup([], "closure"))), Ref(ref.cell, tuple(ref.path) + (("index_const", i),))])
        if len(res) != 1 or res[0][1] is PANIC:
            raise Unsupported("sort key closure does not run on a single returning path")
        q, kv = res[0]
        ref = sm._reref(p, q, ref)
        p = q
        keys.append(kv)
    return sort_perms(it, p, ref, keys)


def m_sort_unstable(it, p, callee, args):
    ref = args[0]
    items = sm.deref(ref).items
    if len(items) > 5:
        raise Unsupported("sort of more than 5 elements (permutation model)")
    if not all(isinstance(x, Int) for x in items):
        raise Unsupported("sort_unstable over non-integers")
    return sort_perms(it, p, ref, list(items))


ITER_MODELS = {
    r"core::slice::<impl \[.*\]>::iter$": m_slice_iter,
    r"^<&?Vec<.*> as IntoIterator>::into_iter$": m_vec_into_iter,
    r" as Iterator>::copied::<": m_copied,
    r"^<std::slice::Iter<'_, Option<.*>> as Iterator>::flatten$": m_flatten_options,
    r" as Iterator>::map::<.*\{closure@": m_map,
    r" as Iterator>::enumerate$": m_enumerate,
    r"^std::iter::once::<": m_once,
    r" as Iterator>::chain::<": m_chain,
    r"^<(Copied|std::iter::Map|std::iter::Chain|Enumerate|std::iter::Enumerate|std::vec::IntoIter|std::slice::Iter)<.*> as Iterator>::next$": m_next,
    r"^<(Copied|std::iter::Map|std::iter::Chain|Enumerate|std::iter::Enumerate|std::vec::IntoIter|std::slice::Iter)<.*> as IntoIterator>::into_iter$": sm.m_identity,
    r" as Iterator>::collect::<": m_collect,
    r"sort_unstable_by_key::<\w+, \{closure@": m_sort_unstable_by_key,
    r"core::slice::<impl \[[iu]\d+\]>::sort_unstable$": m_sort_unstable,
}
