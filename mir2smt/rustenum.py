"""Enum registry built from the Rust *source* of /repo (variant order = variant index; explicit
`= value` discriminants honoured for field-less enums)."""
import re, os, glob


class EnumDef:
    def __init__(self, name, variants):
        self.name = name
        self.variants = variants          # list of (vname, discr_value, fields) fields: list of names ('0','1',.. for tuple)
        self.by_name = {v[0]: i for i, v in enumerate(variants)}

    def discr(self, vname):
        return self.variants[self.by_name[vname]][1]

    def index(self, vname):
        return self.by_name[vname]

    def fields(self, vname):
        return self.variants[self.by_name[vname]][2]

    def variant_map(self):
        """name -> discriminant value (what MIR `discriminant()` yields)"""
        return {v[0]: v[1] for v in self.variants}


def _strip_comments(src):
    """single pass: drop // and /* */ comments, replace string literals by "" (they may contain brackets, commas, //)"""
    out, i, n = [], 0, len(src)
    while i < n:
        c = src[i]
        if src.startswith("//", i):
            j = src.find("\n", i)
            i = n if j < 0 else j
        elif src.startswith("/*", i):
            j = src.find("*/", i + 2)
            i = n if j < 0 else j + 2
        elif c == '"':
            j = i + 1
            while j < n and src[j] != '"':
                j += 2 if src[j] == "\\" else 1
            out.append('""')
            i = j + 1
        else:
            out.append(c)
            i += 1
    return "".join(out)


def _split_top(s, sep=","):
    out, depth, cur = [], 0, []
    for i, c in enumerate(s):
        if c in "([{<":
            depth += 1
        elif c in ")]}":
            depth -= 1
        elif c == ">" and not (i > 0 and s[i - 1] in "-="):
            depth -= 1
        if c == sep and depth == 0:
            out.append("".join(cur)); cur = []
        else:
            cur.append(c)
    if "".join(cur).strip():
        out.append("".join(cur))
    return out


def _strip_attrs(v):
    v = v.strip()
    while v.startswith("#["):
        d = 0
        for i, c in enumerate(v):
            if c == "[":
                d += 1
            elif c == "]":
                d -= 1
                if d == 0:
                    v = v[i + 1:].strip()
                    break
        else:
            break
    return v


def parse_enums(path):
    src = _strip_comments(open(path).read())
    out = {}
    for m in re.finditer(r"\benum\s+(\w+)\s*(?:<[^>{]*>)?\s*\{", src):
        name = m.group(1)
        i = m.end()
        d = 1
        j = i
        while d and j < len(src):
            if src[j] == "{":
                d += 1
            elif src[j] == "}":
                d -= 1
            j += 1
        body = src[i:j - 1]
        variants = []
        nextd = 0
        for v in _split_top(body):
            v = _strip_attrs(v)
            if not v:
                continue
            vm = re.match(r"(\w+)\s*(.*)$", v, re.S)
            vname, rest = vm.group(1), vm.group(2).strip()
            fields = []
            dv = nextd
            if rest.startswith("("):
                inner = rest[1:rest.rindex(")")]
                fields = [str(k) for k, _ in enumerate([x for x in _split_top(inner) if x.strip()])]
            elif rest.startswith("{"):
                inner = rest[1:rest.rindex("}")]
                for f in _split_top(inner):
                    f = _strip_attrs(f)
                    fm = re.match(r"(?:pub(?:\([^)]*\))?\s+)?(\w+)\s*:", f)
                    if fm:
                        fields.append(fm.group(1))
            elif rest.startswith("="):
                val = rest[1:].strip()
                dv = int(val.replace("_", ""), 0)
            variants.append((vname, dv, fields))
            nextd = dv + 1
        out[name] = EnumDef(name, variants)
    return out


class Registry:
    def __init__(self, files):
        self.enums = {}
        for f in files:
            for k, v in parse_enums(f).items():
                self.enums.setdefault(k, v)

    def get(self, name):
        return self.enums.get(name)
