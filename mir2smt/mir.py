"""mir2smt — symbolic execution of rustc MIR (textual -Zunpretty=mir dump) into SMT terms.

Scope: loop-free (or boundedly unrolled) functions over integers, bools, tuples/structs of those,
Option/Result/ControlFlow-like enums, shared references and a small set of modelled library calls.
Anything else raises `Unsupported` — the caller reports the obligation as *inconclusive*; nothing
is ever skipped silently.

Two arithmetic backends produce the terms:
  BV  — exact machine semantics on (_ BitVec w)
  INT — mathematical integers, every operation reduced mod 2^w explicitly (keeps wrap-around
        semantics; used where bit-blasting wide multiplication / symbolic remainder times out)
"""
import re, copy, itertools, os
import z3


class Unsupported(Exception):
    pass


# ----------------------------------------------------------------------------- types
INT_TYPES = {"i8": (8, True), "i16": (16, True), "i32": (32, True), "i64": (64, True), "i128": (128, True),
             "isize": (64, True), "u8": (8, False), "u16": (16, False), "u32": (32, False), "u64": (64, False),
             "u128": (128, False), "usize": (64, False), "char": (32, False)}


def int_type(ty):
    ty = ty.strip()
    if ty in INT_TYPES:
        return INT_TYPES[ty]
    m = re.match(r"(?:std::num::|core::num::)?NonZero<(\w+)>$", ty)
    if m and m.group(1) in INT_TYPES:
        return INT_TYPES[m.group(1)]
    return None


# ----------------------------------------------------------------------------- values
class V:
    pass


class Int(V):
    """integer value: term is a z3 BitVec (BV backend) or z3 Int in [0,2^w) (INT backend); unsigned representation"""
    __slots__ = ("t", "w", "signed")

    def __init__(self, t, w, signed):
        self.t, self.w, self.signed = t, w, signed

    def __repr__(self):
        return f"Int({self.t},{'i' if self.signed else 'u'}{self.w})"


class Bool(V):
    __slots__ = ("t",)

    def __init__(self, t):
        self.t = t

    def __repr__(self):
        return f"Bool({self.t})"


class Tup(V):
    """tuple / struct (fields by index)"""
    __slots__ = ("f", "name")

    def __init__(self, f, name=None):
        self.f, self.name = list(f), name

    def __repr__(self):
        return f"Tup{self.name or ''}({self.f})"


class Enum(V):
    """enum value: discr is an Int (isize), payloads: variant index -> Tup; variants: name->index"""
    __slots__ = ("discr", "payloads", "variants", "name")

    def __init__(self, discr, payloads, variants, name=None):
        self.discr, self.payloads, self.variants, self.name = discr, payloads, variants, name

    def __repr__(self):
        return f"Enum{self.name or ''}(d={self.discr},{self.payloads})"


class Cell:
    """a memory location (target of a reference)"""
    __slots__ = ("v",)

    def __init__(self, v):
        self.v = v


class Ref(V):
    __slots__ = ("cell", "path")

    def __init__(self, cell, path=()):
        self.cell, self.path = cell, tuple(path)

    def __repr__(self):
        return f"Ref({self.cell.v},{self.path})"


class Opaque(V):
    def __init__(self, name):
        self.name = name

    def __repr__(self):
        return f"Opaque({self.name})"


class Seq(V):
    """growable sequence (Vec<T> / slice) with a concrete number of symbolic elements on each path"""
    __slots__ = ("items",)

    def __init__(self, items):
        self.items = list(items)

    def __repr__(self):
        return f"Seq({self.items})"


class Unit(V):
    def __repr__(self):
        return "()"


ENUM_VARIANTS = {
    "Either": {"Left": 0, "Right": 1},
    "Option": {"None": 0, "Some": 1},
    "Result": {"Ok": 0, "Err": 1},
    "ControlFlow": {"Continue": 0, "Break": 1},
}


# ----------------------------------------------------------------------------- backends
class BVBackend:
    name = "BV"

    def const(self, v, w):
        return z3.BitVecVal(v % (1 << w), w)

    def var(self, name, w):
        return z3.BitVec(name, w)

    def add(self, a, b, w): return a + b
    def sub(self, a, b, w): return a - b
    def mul(self, a, b, w): return a * b
    def udiv(self, a, b, w): return z3.UDiv(a, b)
    def urem(self, a, b, w): return z3.URem(a, b)
    def sdiv(self, a, b, w): return a / b
    def srem(self, a, b, w): return z3.SRem(a, b)
    def and_(self, a, b, w): return a & b
    def or_(self, a, b, w): return a | b
    def xor(self, a, b, w): return a ^ b
    def not_(self, a, w): return ~a
    def neg(self, a, w): return -a
    def shl(self, a, s, w): return a << s          # s already width w
    def lshr(self, a, s, w): return z3.LShR(a, s)
    def ashr(self, a, s, w): return a >> s
    def ult(self, a, b, w): return z3.ULT(a, b)
    def ule(self, a, b, w): return z3.ULE(a, b)
    def slt(self, a, b, w): return a < b
    def sle(self, a, b, w): return a <= b
    def eq(self, a, b, w): return a == b

    def resize(self, a, w_from, w_to, signed_from):
        if w_to == w_from:
            return a
        if w_to < w_from:
            return z3.Extract(w_to - 1, 0, a)
        return z3.SignExt(w_to - w_from, a) if signed_from else z3.ZeroExt(w_to - w_from, a)

    def add_overflow(self, a, b, w, signed):
        if signed:
            r = a + b
            return z3.Or(z3.And(a >= 0, b >= 0, r < 0), z3.And(a < 0, b < 0, r >= 0))
        return z3.ULT(a + b, a)

    def sub_overflow(self, a, b, w, signed):
        if signed:
            r = a - b
            return z3.Or(z3.And(a >= 0, b < 0, r < 0), z3.And(a < 0, b >= 0, r >= 0))
        return z3.ULT(a, b)

    def mul_overflow(self, a, b, w, signed):
        if signed:
            wide = z3.SignExt(w, a) * z3.SignExt(w, b)
            return wide != z3.SignExt(w, z3.Extract(w - 1, 0, wide))
        wide = z3.ZeroExt(w, a) * z3.ZeroExt(w, b)
        return z3.Extract(2 * w - 1, w, wide) != 0

    def leading_zeros(self, a, w):
        r = z3.BitVecVal(w, 32)
        for i in range(w):  # lowest set bit first; highest overrides
            r = z3.If(z3.Extract(i, i, a) == 1, z3.BitVecVal(w - 1 - i, 32), r)
        return r

    def trailing_zeros(self, a, w):
        r = z3.BitVecVal(w, 32)
        for i in reversed(range(w)):
            r = z3.If(z3.Extract(i, i, a) == 1, z3.BitVecVal(i, 32), r)
        return r

    def ite(self, c, a, b): return z3.If(c, a, b)


class IntBackend:
    """mathematical integers with explicit mod 2^w; values kept in unsigned range [0, 2^w)"""
    name = "INT"

    def const(self, v, w):
        return z3.IntVal(v % (1 << w))

    def var(self, name, w):
        return z3.Int(name)

    def range_constraint(self, t, w):
        return z3.And(t >= 0, t < (1 << w))

    def _m(self, t, w): return t % (1 << w)
    def add(self, a, b, w): return self._m(a + b, w)
    def sub(self, a, b, w): return self._m(a - b, w)
    def mul(self, a, b, w): return self._m(a * b, w)
    def udiv(self, a, b, w): return a / b
    def urem(self, a, b, w): return a % b

    def _s(self, a, w):  # signed interpretation
        return z3.If(a >= (1 << (w - 1)), a - (1 << w), a)

    def sdiv(self, a, b, w): raise Unsupported("signed division in INT backend")
    def srem(self, a, b, w): raise Unsupported("signed remainder in INT backend")

    def _mask_k(self, t):
        """if t is the constant 2^k-1 return k"""
        t = z3.simplify(t)
        if z3.is_int_value(t):
            v = t.as_long() + 1
            if v > 0 and v & (v - 1) == 0:
                return v.bit_length() - 1
        return None

    def and_(self, a, b, w):
        for x, y in ((a, b), (b, a)):
            k = self._mask_k(y)
            if k is not None:
                return x % (1 << k)
        raise Unsupported("bitwise and with non-mask operand in INT backend")

    def or_(self, a, b, w): raise Unsupported("bitwise or in INT backend")
    def xor(self, a, b, w): raise Unsupported("bitwise xor in INT backend")
    def not_(self, a, w): return (1 << w) - 1 - a
    def neg(self, a, w): return self._m(-a, w)

    def _pow2(self, s, w):
        r = z3.IntVal(0)
        for i in reversed(range(w)):
            r = z3.If(s == i, z3.IntVal(1 << i), r)
        return r

    def shl(self, a, s, w):
        s = z3.simplify(s)
        if z3.is_int_value(s):
            return self._m(a * (1 << s.as_long()), w)
        return self._m(a * self._pow2(s, w), w)

    def lshr(self, a, s, w):
        s = z3.simplify(s)
        if z3.is_int_value(s):
            return a / (1 << s.as_long())
        return a / self._pow2(s, w)

    def ashr(self, a, s, w): raise Unsupported("arithmetic shift right in INT backend")
    def ult(self, a, b, w): return a < b
    def ule(self, a, b, w): return a <= b
    def slt(self, a, b, w): return self._s(a, w) < self._s(b, w)
    def sle(self, a, b, w): return self._s(a, w) <= self._s(b, w)
    def eq(self, a, b, w): return a == b

    def resize(self, a, w_from, w_to, signed_from):
        if w_to == w_from:
            return a
        if w_to < w_from:
            return a % (1 << w_to)
        if signed_from:
            return self._m(self._s(a, w_from), w_to)
        return a

    def add_overflow(self, a, b, w, signed):
        if signed:
            r = self._s(a, w) + self._s(b, w)
            return z3.Or(r >= (1 << (w - 1)), r < -(1 << (w - 1)))
        return a + b >= (1 << w)

    def sub_overflow(self, a, b, w, signed):
        if signed:
            r = self._s(a, w) - self._s(b, w)
            return z3.Or(r >= (1 << (w - 1)), r < -(1 << (w - 1)))
        return a < b

    def mul_overflow(self, a, b, w, signed):
        if signed:
            r = self._s(a, w) * self._s(b, w)
            return z3.Or(r >= (1 << (w - 1)), r < -(1 << (w - 1)))
        return a * b >= (1 << w)

    def leading_zeros(self, a, w): raise Unsupported("leading_zeros in INT backend")
    def trailing_zeros(self, a, w): raise Unsupported("trailing_zeros in INT backend")
    def ite(self, c, a, b): return z3.If(c, a, b)


# ----------------------------------------------------------------------------- MIR parsing
class Fn:
    def __init__(self, header, name, params, ret, locals_, blocks, text):
        self.header, self.name, self.params, self.ret = header, name, params, ret
        self.locals, self.blocks, self.text = locals_, blocks, text


def split_top(s, sep=","):
    """split on sep at nesting depth 0 (parens, brackets, angles, braces, string literals)"""
    out, depth, cur, i, instr = [], 0, [], 0, False
    while i < len(s):
        c = s[i]
        if instr:
            cur.append(c)
            if c == "\\":
                cur.append(s[i + 1]); i += 1
            elif c == '"':
                instr = False
        elif c == '"':
            instr = True; cur.append(c)
        elif c in "([{<":
            depth += 1; cur.append(c)
        elif c in ")]}":
            depth -= 1; cur.append(c)
        elif c == ">" and not (i > 0 and s[i - 1] in "-="):
            depth -= 1; cur.append(c)
        elif c == sep and depth == 0:
            out.append("".join(cur).strip()); cur = []
        else:
            cur.append(c)
        i += 1
    if "".join(cur).strip():
        out.append("".join(cur).strip())
    return out


class MirFile:
    def __init__(self, path, others=()):
        self.text = open(path).read()
        self.fns = {}
        self.others = list(others)   # further MirFiles (dependency crates) consulted for inlined callees
        self._index()

    def _index(self):
        # functions start at column 0 with "fn " and end at the next line that is exactly "}"
        self.headers = []
        for m in re.finditer(r"^fn (.+?) \{$", self.text, re.M):
            self.headers.append((m.start(), m.group(1)))
        self.promoted = {}
        self.consts = []
        for m in re.finditer(r"^const (.+?::promoted\[\d+\]): (.+?) = \{$", self.text, re.M):
            self.promoted[m.group(1)] = (m.start(), m.group(2))
        for m in re.finditer(r"^const (.+): (.+?) = \{$", self.text, re.M):
            if "::promoted[" not in m.group(1):
                self.consts.append((m.start(), m.group(1), m.group(2)))
        self.simple_consts = []
        for m in re.finditer(r"^const (.+): (.+?) = const (.+);$", self.text, re.M):
            self.simple_consts.append((m.group(1), m.group(2), m.group(3), m.start()))

    def find_promoted(self, fn_name, idx):
        key = f"{fn_name}::promoted[{idx}]"
        if key not in self.promoted:
            raise Unsupported("promoted constant " + key)
        pos, ty = self.promoted[key]
        end = self.text.index("\n}\n", pos) + 3
        body = self.text[pos:end]
        # reuse the function parser: rewrite the header
        hdr = body.split("\n", 1)
        fake = f"fn {key}() -> {ty} {{\n" + hdr[1]
        return parse_fn(fake)

    def find(self, pattern):
        """unique function whose header matches regex `pattern`"""
        hits = [(pos, h) for pos, h in self.headers if re.search(pattern, h)]
        if len(hits) != 1:
            raise Unsupported(f"function pattern {pattern!r} matches {len(hits)} functions: {[h for _, h in hits][:5]}")
        pos, h = hits[0]
        if pos in self.fns:
            return self.fns[pos]
        end = self.text.index("\n}\n", pos) + 3
        f = parse_fn(self.text[pos:end])
        self.fns[pos] = f
        return f

    def find_by_body(self, pattern, body_pattern):
        """unique function whose header matches `pattern` and whose body matches `body_pattern` (macro-generated impls share one header)"""
        hits = []
        for pos, h in self.headers:
            if re.search(pattern, h):
                end = self.text.index("\n}\n", pos) + 3
                if re.search(body_pattern, self.text[pos:end]):
                    hits.append((pos, end))
        if len(hits) != 1:
            raise Unsupported(f"function pattern {pattern!r} with body {body_pattern!r} matches {len(hits)} functions")
        pos, end = hits[0]
        if pos not in self.fns:
            self.fns[pos] = parse_fn(self.text[pos:end])
        return self.fns[pos]

    def find_by_callee(self, callee):
        """resolve a call target written as in MIR (e.g. `zig_zag_encode`, `Murmur3PartitionerHasher::rotl64`)"""
        mt = re.match(r"<(.+) as ([\w:]+)(?:<.*>)?>::(\w+)$", strip_generics(callee))
        if mt:
            # `<T as Trait>::method`: the impl block whose source line reads `impl ... Trait for T`
            ty, tr, meth = mt.group(1).strip(), mt.group(2).split("::")[-1], mt.group(3)
            for mf in [self] + self.others:
                hits = [(pos, h) for pos, h in mf.headers if h.split("(")[0].endswith("::" + meth) and impl_line_is(h, tr, ty)]
                if len(hits) == 1:
                    return mf.find("^" + re.escape(hits[0][1]) + "$")
            raise Unsupported(f"trait method {callee!r}: no unique impl found")
        callee = strip_generics(callee)
        last2 = callee.split("::")[-2:]
        name = last2[-1]
        hits = []
        for pos, h in self.headers:
            hn = h.split("(")[0]
            if hn == callee or hn.endswith("::" + name) or hn == name:
                hits.append((pos, h))
        if len(hits) > 1 and len(last2) == 2:
            # disambiguate by the impl block's source line (`<impl at FILE:LINE:..>` must be an impl for that type)
            tyname = last2[0].split("<")[0]
            hits2 = [(p, h) for p, h in hits if impl_line_mentions(h, tyname)]
            if not hits2:
                hits2 = [(p, h) for p, h in hits if tyname in h.split("(")[0]]
            if hits2:
                hits = hits2
            elif self.others:
                hits = []               # none of the same-named functions here belongs to that type: look in the dependency crates
        if len(hits) == 0:
            for o in self.others:
                try:
                    return o.find_by_callee(callee)
                except Unsupported:
                    pass
        if len(hits) != 1:
            raise Unsupported(f"call target {callee!r} resolves to {len(hits)} MIR functions")
        return self.find("^" + re.escape(hits[0][1]) + "$")


def impl_line_is(header, trait, ty):
    mm = re.search(r"<impl at ([^:>]+):(\d+):", header)
    if not mm:
        return False
    for root in ("/repo", "/verif/kani/core", "/verif/kani/drv"):
        try:
            line = open(os.path.join(root, mm.group(1))).read().split("\n")[int(mm.group(2)) - 1]
        except Exception:
            continue
        if re.search(r"\bimpl\b.*\b" + re.escape(trait) + r"\b.*\bfor\s+" + re.escape(ty) + r"\b", line):
            return True
        base = ty.split("<")[0]
        if base != ty and re.fullmatch(r"[\w:]+", base) and re.search(r"\bimpl\b.*\b" + re.escape(trait) + r"\b.*\bfor\s+" + re.escape(base) + r"\s*<", line):
            return True
    return False


def strip_generics(s):
    """remove `::<...>` turbofish arguments (balanced)"""
    out, i = [], 0
    while i < len(s):
        if s.startswith("::<", i):
            d, j = 0, i + 2
            while j < len(s):
                if s[j] == "<":
                    d += 1
                elif s[j] == ">" and s[j - 1] not in "-=":
                    d -= 1
                    if d == 0:
                        break
                j += 1
            i = j + 1
        else:
            out.append(s[i]); i += 1
    return "".join(out)


def impl_line_mentions(header, tyname):
    mm = re.search(r"<impl at ([^:>]+):(\d+):", header)
    if not mm:
        return False
    try:
        line = open(os.path.join("/repo", mm.group(1))).read().split("\n")[int(mm.group(2)) - 1]
    except Exception:
        return False
    return re.search(r"\bimpl\b.*\b" + re.escape(tyname) + r"\b", line) is not None


def parse_fn(text):
    lines = text.split("\n")
    header = lines[0]
    m = re.match(r"fn (.+?)\((.*)\) -> (.+?) \{$", header)
    if not m:
        raise Unsupported("cannot parse header: " + header)
    name, params_s, ret = m.group(1), m.group(2), m.group(3)
    params = []
    for p in split_top(params_s):
        pm = re.match(r"_(\d+): (.+)$", p)
        params.append((int(pm.group(1)), pm.group(2)))
    locals_ = {0: ret}
    for n, t in params:
        locals_[n] = t
    blocks = {}
    cur = None
    for ln in lines[1:]:
        s = ln.strip()
        m = re.match(r"let (?:mut )?_(\d+): (.+);$", s)
        if m and cur is None:
            locals_[int(m.group(1))] = m.group(2)
            continue
        m = re.match(r"bb(\d+)(?: \(cleanup\))?: \{$", s)
        if m:
            cur = int(m.group(1)); blocks[cur] = []
            continue
        if s == "}" and cur is not None:
            cur = None
            continue
        if cur is not None and s:
            blocks[cur].append(s)
    return Fn(header, name, params, ret, locals_, blocks, text)


# ----------------------------------------------------------------------------- interpreter
class Path:
    def __init__(self):
        self.pc = []          # list of z3 Bool
        self.locals = {}      # local index -> Cell   (current frame)
        self.stack = []       # caller frames (list of locals dicts)
        self.outcome = None   # ("return", V) | ("panic", msg) | ("unreachable",)
        self.trace = []


class Panic(Exception):
    pass


class Interp:
    def __init__(self, mir, backend, models=None, inline=(), max_block_visits=4, prune=True, registry=None,
                 max_steps=4000, merge=True):
        self.mir, self.be, self.models = mir, backend, dict(models or {})
        self.inline = list(inline)      # regexes of callee names to execute from MIR
        self.max_block_visits = max_block_visits
        self.registry = registry
        self.max_steps = max_steps
        self.merge = merge
        self._live = {}
        self.prune = prune
        self.functions_encoded = []
        self.stats = {"paths": 0, "pruned": 0, "blocks": 0, "merged": 0}
        self._fresh = itertools.count()

    # ---- helpers
    def fresh(self, prefix, w):
        return self.be.var(f"{prefix}!{next(self._fresh)}", w)

    def mk_int(self, ty, term):
        w, s = int_type(ty)
        return Int(term, w, s)

    def const_int(self, v, ty):
        w, s = int_type(ty)
        return Int(self.be.const(v, w), w, s)

    def feasible(self, pc):
        if not self.prune:
            return True
        s = z3.Solver()
        s.set("timeout", 3000)
        s.add(*pc)
        r = s.check()
        return r != z3.unsat

    # ---- entry
    def run(self, fn, args, pre=()):
        """args: list of V for _1.._n. Returns list of finished Paths."""
        if fn.header not in self.functions_encoded:
            self.functions_encoded.append(fn.header)
        p = Path()
        p.pc = list(pre)
        p.fn_stack = [fn]
        for (idx, ty), a in zip(fn.params, args):
            p.locals[idx] = Cell(a)
        done = []
        self._exec(fn, p, 0, {}, done)
        self.stats["paths"] += len(done)
        return done

    def _exec(self, fn, p, bb, visits, done):
        """run `fn` from block bb on path p (and its forks) to completion; finished paths go to `done`.
        Paths waiting at a CFG join are merged when their live state is structurally compatible
        (Int/Bool leaves are merged with ite over the diverging path-condition suffixes)."""
        joins, live, rpo = self._analysis(fn)
        self._cur_fn_header = "fn " + fn.header.split("fn ", 1)[-1] if fn.header.startswith("fn ") else fn.header
        p.steps = getattr(p, "steps", 0)
        p.epoch = 0
        queue = [(p, bb)]
        while queue:
            # topological order inside one loop iteration (epoch = back edges taken), so that sibling paths
            # reach a join before any of them leaves it
            k = min(range(len(queue)), key=lambda i: (queue[i][0].epoch, rpo.get(queue[i][1], 1 << 30), queue[i][0].steps))
            p, bb = queue.pop(k)
            if self.merge and bb in joins:
                same = [i for i, (q, b2) in enumerate(queue) if b2 == bb and q.epoch == p.epoch]
                for i in sorted(same, reverse=True):
                    q = queue[i][0]
                    m = merge_paths(self, p, q, live.get(bb))
                    if m is not None:
                        m.epoch = p.epoch
                        p = m
                        queue.pop(i)
                        self.stats["merged"] += 1
            p.steps += 1
            if p.steps > self.max_steps:
                raise Unsupported(f"step bound {self.max_steps} exceeded in {fn.name} (unbounded loop?)")
            self.stats["blocks"] += 1
            stmts = fn.blocks[bb]
            try:
                for si, s in enumerate(stmts[:-1]):
                    self._cur_loc = (fn, bb, si, 0)
                    self.stmt(fn, p, s)
                self._cur_loc = (fn, bb, len(stmts) - 1, 0)
                succs = self.term(fn, p, stmts[-1])
            except Panic as e:
                p.outcome = ("panic", str(e))
                done.append(p)
                continue
            for (q, nb) in succs:
                if nb is None:
                    done.append(q)
                else:
                    q.steps = max(getattr(q, "steps", 0), p.steps)
                    q.epoch = p.epoch + (1 if rpo.get(nb, 0) <= rpo.get(bb, 0) else 0)
                    queue.append((q, nb))

    def _analysis(self, fn):
        """join blocks (>= 2 predecessors) and live-in locals per block (backward dataflow on the MIR text)"""
        if fn.header in self._live:
            return self._live[fn.header]
        succ, use, defs = {}, {}, {}
        for bb, stmts in fn.blocks.items():
            t = stmts[-1]
            succ[bb] = [int(x) for x in re.findall(r"bb(\d+)", t.split("->", 1)[1])] if "->" in t else []
            u, d = set(), set()
            for st in stmts:
                body = st
                m = re.match(r"_(\d+) = (.*)$", st)
                if m:
                    rhs_locals = set(int(x) for x in re.findall(r"_(\d+)\b", m.group(2)))
                    u |= (rhs_locals - d)
                    d.add(int(m.group(1)))
                else:
                    u |= (set(int(x) for x in re.findall(r"_(\d+)\b", body)) - d)
            use[bb], defs[bb] = u, d
        preds = {bb: 0 for bb in fn.blocks}
        for bb, ss in succ.items():
            for x in ss:
                if x in preds:
                    preds[x] += 1
        joins = {bb for bb, n in preds.items() if n >= 2}
        live = {bb: set() for bb in fn.blocks}
        changed = True
        while changed:
            changed = False
            for bb in fn.blocks:
                out = set()
                for x in succ[bb]:
                    out |= live.get(x, set())
                new = use[bb] | (out - defs[bb])
                if bb == max(fn.blocks):
                    pass
                if new != live[bb]:
                    live[bb] = new; changed = True
        # _0 and reference-typed params stay live (return value / out-parameters)
        for bb in live:
            live[bb] |= {0} | {i for i, _ in fn.params}
        # reverse post-order from bb0 (back edges = edges to a block with smaller-or-equal index)
        order, seen = [], set()
        stack = [(0, iter(succ.get(0, [])))]
        seen.add(0)
        while stack:
            node, itr = stack[-1]
            adv = False
            for x in itr:
                if x in fn.blocks and x not in seen:
                    seen.add(x); stack.append((x, iter(succ.get(x, [])))); adv = True
                    break
            if not adv:
                order.append(node); stack.pop()
        rpo = {b: i for i, b in enumerate(reversed(order))}
        self._live[fn.header] = (joins, live, rpo)
        return joins, live, rpo

    # ---- places
    def parse_place(self, s):
        """returns (local, [proj...]) with proj in ('deref',), ('field',k), ('downcast',name), ('index',local)"""
        s = s.strip()
        m = re.match(r"_(\d+)$", s)
        if m:
            return int(m.group(1)), []
        if s.startswith("(*") and s.endswith(")"):
            l, pr = self.parse_place(s[2:-1])
            return l, pr + [("deref",)]
        if s.endswith("]"):
            i = s.rindex("[")
            l, pr = self.parse_place(s[:i])
            idx = s[i + 1:-1]
            m = re.match(r"_(\d+)$", idx)
            if m:
                return l, pr + [("index_local", int(m.group(1)))]
            m = re.match(r"(\d+) of (\d+)$", idx)
            if m:
                return l, pr + [("index_const", int(m.group(1)))]
            raise Unsupported("index projection " + s)
        if s.startswith("(") and s.endswith(")"):
            inner = s[1:-1]
            # (P as Variant)
            m = re.match(r"(.+) as (\w+)$", inner)
            if m and self._balanced(m.group(1)):
                l, pr = self.parse_place(m.group(1))
                return l, pr + [("downcast", m.group(2))]
            # (P.k: T)
            depth = 0
            for i, c in enumerate(inner):
                if c in "([":
                    depth += 1
                elif c in ")]":
                    depth -= 1
                elif c == "." and depth == 0:
                    m = re.match(r"\.(\d+): ", inner[i:])
                    if m and self._balanced(inner[:i]):
                        l, pr = self.parse_place(inner[:i])
                        return l, pr + [("field", int(m.group(1)))]
        raise Unsupported("place " + s)

    @staticmethod
    def _balanced(s):
        d = 0
        for c in s:
            if c in "([":
                d += 1
            elif c in ")]":
                d -= 1
                if d < 0:
                    return False
        return d == 0

    def _walk(self, v, proj):
        """follow one projection on a value; returns the sub-value (no copy)"""
        k = proj[0]
        if k == "deref":
            if isinstance(v, Tup) and v.name == "Slice" and isinstance(v.f[0], Ref):
                # `*slice` (slice patterns index it): a view of the backing sequence
                base = v.f[0].cell.v
                for pr in v.f[0].path:
                    base = self._walk(base, pr)
                st, ln = z3.simplify(v.f[1].t), z3.simplify(v.f[2].t)
                if not (z3.is_bv_value(st) and z3.is_bv_value(ln)):
                    raise Unsupported("deref of a slice with symbolic bounds")
                items = base.f if isinstance(base, Tup) else base.items
                return Seq(items[st.as_long():st.as_long() + ln.as_long()])
            if not isinstance(v, Ref):
                raise Unsupported(f"deref of non-reference {v}")
            t = v.cell.v
            for pr in v.path:
                t = self._walk(t, pr)
            return t
        if k == "field":
            if isinstance(v, Tup):
                return v.f[proj[1]]
            if isinstance(v, VariantView):
                return v.tup.f[proj[1]]
            raise Unsupported(f"field {proj[1]} of {v}")
        if k == "downcast":
            if not isinstance(v, Enum):
                raise Unsupported(f"downcast of {v}")
            if proj[1] not in v.variants:
                raise Unsupported(f"unknown variant {proj[1]} of {v}")
            idx = v.variants[proj[1]]
            if idx not in v.payloads:
                raise Unsupported(f"variant {proj[1]} has no payload in {v}")
            return VariantView(v.payloads[idx])
        if k == "index_const":
            if isinstance(v, Tup):
                if proj[1] >= len(v.f):
                    raise Panic(f"index out of bounds: {proj[1]} >= {len(v.f)}")
                return v.f[proj[1]]
            if isinstance(v, Seq):
                if proj[1] >= len(v.items):
                    raise Panic(f"index out of bounds: {proj[1]} >= {len(v.items)}")
                return v.items[proj[1]]
        raise Unsupported(f"projection {proj} on {v}")

    def _resolve_indices(self, p, pr):
        out = []
        for x in pr:
            if x[0] == "index_local":
                iv = p.locals[x[1]].v
                t = z3.simplify(iv.t)
                if not (z3.is_bv_value(t) or z3.is_int_value(t)):
                    raise Unsupported("array index is not concrete on this path")
                out.append(("index_const", t.as_long()))
            else:
                out.append(x)
        return out

    def read_place(self, p, s):
        l, pr = self.parse_place(s)
        if l not in p.locals:
            raise Unsupported(f"read of uninitialised local _{l}")
        pr = self._resolve_indices(p, pr)
        v = p.locals[l].v
        for x in pr:
            v = self._walk(v, x)
        if isinstance(v, VariantView):
            v = v.tup
        return v

    def write_place(self, p, s, val):
        l, pr = self.parse_place(s)
        pr = self._resolve_indices(p, pr)
        if not pr:
            if l in p.locals:
                p.locals[l].v = val
            else:
                p.locals[l] = Cell(val)
            return
        if l not in p.locals:
            # partially initialised aggregate, e.g. (_6.0: T) = ..
            p.locals[l] = Cell(Tup([None] * 8))
        v = p.locals[l].v
        for x in pr[:-1]:
            v = self._walk(v, x)
        last = pr[-1]
        if last[0] == "deref":
            if not isinstance(v, Ref):
                raise Unsupported("store through non-ref")
            if v.path:
                tgt = v.cell.v
                for x in v.path[:-1]:
                    tgt = self._walk(tgt, x)
                self._store(tgt, v.path[-1], val)
            else:
                v.cell.v = val
            return
        self._store(v, last, val)

    def _store(self, container, proj, val):
        if isinstance(container, VariantView):
            container = container.tup
        if proj[0] in ("field", "index_const") and isinstance(container, Tup):
            while len(container.f) <= proj[1]:
                container.f.append(None)
            container.f[proj[1]] = val
            return
        if proj[0] == "index_const" and isinstance(container, Seq):
            if proj[1] >= len(container.items):
                raise Panic(f"index out of bounds: {proj[1]} >= {len(container.items)}")
            container.items[proj[1]] = val
            return
        raise Unsupported(f"store {proj} into {str(container)[:200]}")

    # ---- operands
    def operand(self, p, s):
        s = s.strip()
        if s.startswith("no_retag "):
            s = s[9:]
        if s.startswith("copy ") or s.startswith("move "):
            return copy_value(self.read_place(p, s[5:]))
        if s.startswith("const "):
            m = re.search(r"::promoted\[(\d+)\]$", s)
            if m:
                return self.promoted_const(p, int(m.group(1)))
            m = re.match(r"const ZeroSized: (\{closure@[^}]*\})$", s)
            if m:
                return Tup([], self.closure_name(p, m.group(1)))
            return self.constant(s[6:])
        if re.match(r"^[\w:<>', ]+$", s) and ("::" in s or re.match(r"^[A-Za-z]\w*$", s)):
            return Opaque("fn-item:" + s)
        sg = strip_generics(s)
        if re.match(r"^[\w:]+$", sg) and "::" in sg and not sg.startswith("_"):
            return Opaque("fn-item:" + sg)
        if re.match(r"^<.+ as [\w:<>', ]+>::\w+$", s):
            return Opaque("fn-item:" + s)           # trait method item, e.g. `<[u8] as ToOwned>::to_owned` handed to Option::map          # function / constructor item passed as a value (e.g. to map_err)
        raise Unsupported("operand " + s)

    CLOSURE_SITE = re.compile(r"(?:= |const ZeroSized: )(\{closure@[^}]*\})")

    def closure_name(self, p, tag):
        """closure values carry the MIR body they denote: `{closure@SPAN}=>HEADER`.  rustc prints closure types by span only, and all
        closures of one derive expansion share a span; the body is identified as the k-th `{closure#k}` of the enclosing function,
        k = the ordinal of this creation site among the function's creation sites in textual order (= source order)."""
        loc = getattr(self, "_cur_loc", None)
        cands = []
        for mf in [self.mir] + self.mir.others:
            cands += [(mf, h) for _, h in mf.headers if tag in h and re.search(r"\{closure#\d+\}\(", h)]
        if len(cands) <= 1 or loc is None:
            return tag
        fn, bb, si, _ = loc
        # the frame being executed may be a callee of the function recorded in _cur_loc's fn only if they coincide
        parent = p.fn_stack[-1] if getattr(p, "fn_stack", None) else fn
        if parent is not fn:
            return tag
        prefix = parent.name + "::{closure#"
        mine = [(mf, h) for mf, h in cands if h.startswith(prefix) and re.match(r"\d+\}\(", h[len(prefix):])]
        sites = []
        for b in sorted(parent.blocks):
            for i, st in enumerate(parent.blocks[b]):
                for mm in self.CLOSURE_SITE.finditer(st):
                    sites.append((b, i, mm.group(1)))
        if len(mine) != len(sites):
            return tag
        here = [k for k, (b, i, t) in enumerate(sites) if b == bb and i == si and t == tag]
        if len(here) != 1:
            return tag
        k = here[0]
        hit = [(mf, h) for mf, h in mine if h[len(prefix):].startswith(f"{k}}}(")]
        if len(hit) != 1:
            return tag
        return tag + "=>" + hit[0][1]

    def promoted_const(self, p, idx):
        fn = p.fn_stack[-1]
        target = self.mir.find_promoted(fn.name, idx)
        res = self.call_mir(target, p, [])
        if len(res) != 1 or res[0][1] is PANIC:
            raise Unsupported("promoted constant does not evaluate to a single value")
        return res[0][1]

    def constant(self, c):
        c = c.strip()
        m = re.match(r"(-?\d+)_(\w+)$", c)
        if m and m.group(2) in INT_TYPES:
            return self.const_int(int(m.group(1)), m.group(2))
        if c in ("true", "false"):
            return Bool(z3.BoolVal(c == "true"))
        m = re.match(r"(\w+)::(MAX|MIN)$", c)
        if m and m.group(1) in INT_TYPES:
            w, s = INT_TYPES[m.group(1)]
            if m.group(2) == "MAX":
                v = (1 << (w - 1)) - 1 if s else (1 << w) - 1
            else:
                v = -(1 << (w - 1)) if s else 0
            return self.const_int(v, m.group(1))
        m = re.match(r"core::num::<impl (\w+)>::(MAX|MIN)$", c)
        if m and m.group(1) in INT_TYPES:
            return self.constant(f"{m.group(1)}::{m.group(2)}")
        m = re.match(r"(?:core::num::<impl (\w+)>|(\w+))::BITS$", c)
        if m and (m.group(1) or m.group(2)) in INT_TYPES:
            return self.const_int(INT_TYPES[m.group(1) or m.group(2)][0], "u32")
        if c == "()":
            return Unit()
        m = re.match(r"(?:std::num::|core::num::)?Wrapping::<(\w+)>\((.+)\)$", c)
        if m:
            return Tup([self.constant(m.group(2))], "Wrapping")
        m = re.match(r"Option::<.*>::None$", c)
        if m:
            return Enum(self.const_int(0, "isize"), {}, ENUM_VARIANTS["Option"], "Option")
        if c.startswith('"'):
            return Opaque("str:" + c)
        if c.startswith('b"'):
            return Opaque("bytes:" + c)
        m = re.match(r"'(.)'$", c)
        if m:
            return self.const_int(ord(m.group(1)), "char")
        if c in self.models.get("__consts__", {}):
            return copy_value(self.models["__consts__"][c])
        if c.startswith("ZeroSized:") or re.match(r"[\w:<>', ]+ \{\{ .* \}\}$", c) or "PhantomData" in c:
            return Opaque("zst:" + c[:60])
        m = re.match(r"(?:std::result::)?Result::<.*>::Err\((\w+)\)$", c)
        if m:
            return Enum(self.const_int(1, "isize"), {1: Tup([Opaque(m.group(1))])}, ENUM_VARIANTS["Result"], "Result")
        ac = self.assoc_const(c)
        if ac is not None:
            return ac
        if re.match(r"^(?:\w+::)*[A-Z][A-Z0-9_]*$", c):
            # a named constant of a non-integer type (Duration, &str tables, ...): opaque; arithmetic on it is rejected where it is used
            return Opaque("const:" + c)
        raise Unsupported("constant " + c)

    def assoc_const(self, c):
        """associated / free constants of the crate: `path::Type::NAME` -> the MIR const body `const <...>::NAME: T = {`"""
        m = re.match(r"(?:[\w]+::)*(\w+)::([A-Z_][A-Z0-9_]*)$", c)
        if not m:
            return None
        name, tyname = m.group(2), m.group(1)
        for mf in [self.mir] + self.mir.others:
            hits = [(pos, h, ty) for pos, h, ty in getattr(mf, "consts", []) if h.endswith("::" + name) or h == name]
            simple = [(h, ty, val, pos) for h, ty, val, pos in getattr(mf, "simple_consts", []) if h.endswith("::" + name) or h == name]
            if len(simple) > 1 and all("<impl at" in h for h, _, _, _ in simple):
                keep = [x for x in simple if impl_line_mentions(x[0], tyname)]
                if keep:
                    simple = keep
            if len(simple) > 1 and len({(ty, val) for _, ty, val, _ in simple}) > 1:
                # module-level constants are printed without their path: take the definition nearest to the function being executed
                here = mf.text.find(self._cur_fn_header) if getattr(self, "_cur_fn_header", None) else -1
                if here >= 0:
                    simple = [min(simple, key=lambda x: abs(x[3] - here))]
            elif len(simple) > 1:
                simple = simple[:1]
            hits += [(None, h, (ty, val)) for h, ty, val, _ in simple]
            if len(hits) > 1:
                # disambiguate by the impl block's source line: `<impl at FILE:LINE:..>` must be an impl of `tyname`
                keep = []
                for pos, h, ty in hits:
                    mm = re.search(r"<impl at ([^:>]+):(\d+):", h)
                    if mm:
                        try:
                            line = open(os.path.join("/repo", mm.group(1))).read().split("\n")[int(mm.group(2)) - 1]
                        except Exception:
                            line = ""
                        if re.search(r"\b" + re.escape(tyname) + r"\b", line):
                            keep.append((pos, h, ty))
                    elif tyname in h:
                        keep.append((pos, h, ty))
                hits = keep
            if len(hits) == 1 and hits[0][0] is None:
                return self.constant(hits[0][2][1])
            if len(hits) == 1:
                pos, h, ty = hits[0]
                end = mf.text.index("\n}\n", pos) + 3
                body = mf.text[pos:end].split("\n", 1)[1]
                body = re.sub(r"^\s*Storage(Live|Dead)\(_\d+\);\n", "", body, flags=re.M)
                fn = parse_fn(f"fn {h}() -> {ty} {{\n" + body)
                sub = Interp(mf, self.be, self.models, self.inline, registry=self.registry)
                paths = sub.run(fn, [])
                if len(paths) == 1 and paths[0].outcome[0] == "return":
                    return paths[0].outcome[1]
        return None

    # ---- rvalues
    def rvalue(self, fn, p, s, dest_ty):
        be = self.be
        s = s.strip()
        if s.startswith("no_retag "):
            s = s[9:]
        if s.startswith("const ") and re.search(r"::promoted\[\d+\]$", s):
            return self.operand(p, s)
        if s.startswith("const ") and s[6:].strip() in self.models.get("__consts__", {}):
            return self.operand(p, s)
        if s.startswith(("copy ", "move ", "const ")) and " as " not in self._strip_parens(s):
            return self.operand(p, s)
        # cast
        m = re.match(r"(.+?) as (.+) \((PointerCoercion\(ReifyFnPointer\(\w+\), \w+\))\)$", s)
        if m and not s.startswith(("copy ", "move ", "const ")):
            return self.operand(p, m.group(1))          # fn item reified to a function pointer
        m = re.match(r"(.+) as (.+?) \((\w+(?:\(.*\))?)\)$", s)
        if m and s.startswith(("copy ", "move ", "const ")):
            v = self.operand(p, m.group(1))
            kind = m.group(3)
            ty = m.group(2)
            if kind == "IntToInt":
                it = int_type(ty)
                if isinstance(v, Bool):
                    v = Int(be.ite(v.t, be.const(1, 8), be.const(0, 8)), 8, False)
                if it is None or not isinstance(v, Int):
                    raise Unsupported("cast " + s)
                return Int(be.resize(v.t, v.w, it[0], v.signed), it[0], it[1])
            if kind in ("Transmute",) and isinstance(v, Int) and int_type(ty) and int_type(ty)[0] == v.w:
                return Int(v.t, v.w, int_type(ty)[1])
            if kind == "Subtype":
                return v                        # same value at a subtype (opaque types revealed, lifetimes)
            if kind == "Transmute" and isinstance(v, Ref) and re.match(r"\*(const|mut) ", ty.strip()):
                return v                        # NonNull<T> -> *const T (how rustc lowers `*boxed`): the same pointer
            if kind.startswith("PointerCoercion") or kind in ("PtrToPtr",):
                if "Unsize" in kind and re.match(r"&(mut )?\[", ty.strip()) and isinstance(v, Ref):
                    tgt = v.cell.v
                    for pr in v.path:
                        tgt = self._walk(tgt, pr)
                    if isinstance(tgt, Tup) and tgt.name == "array":
                        return Tup([v, self.const_int(0, "usize"), self.const_int(len(tgt.f), "usize")], "Slice")
                return v
            raise Unsupported("cast kind " + s)
        # references
        m = re.match(r"&(?:mut |raw const |raw mut )?(.+)$", s)
        if m and not s.startswith("&&"):
            l, pr = self.parse_place(m.group(1))
            if l not in p.locals:
                # never-assigned locals that are borrowed are zero-sized values (e.g. a capture-less closure)
                p.locals[l] = Cell(Opaque("zst:unassigned-local"))
            # &(*_x) re-borrow
            if pr and pr[-1] == ("deref",) and len(pr) == 1:
                return p.locals[l].v
            if pr and pr[0] == ("deref",):
                base = p.locals[l].v
                if isinstance(base, Ref):
                    return Ref(base.cell, base.path + tuple(pr[1:]))
            return Ref(p.locals[l], pr)
        m = re.match(r"discriminant\((.+)\)$", s)
        if m:
            v = self.read_place(p, m.group(1))
            if isinstance(v, Enum):
                return v.discr
            raise Unsupported("discriminant of " + repr(v))
        m = re.match(r"PtrMetadata\((.+)\)$", s)
        if m:
            v = self.operand(p, m.group(1))
            if isinstance(v, Tup) and v.name == "Slice":
                return v.f[2]
            if isinstance(v, Ref):
                tgt = v.cell.v
                for pr in v.path:
                    tgt = self._walk(tgt, pr)
                if isinstance(tgt, Seq):
                    return self.const_int(len(tgt.items), "usize")
            raise Unsupported("PtrMetadata of " + repr(v))
        # unary
        m = re.match(r"(Not|Neg)\((.+)\)$", s)
        if m:
            v = self.operand(p, m.group(2))
            if m.group(1) == "Not":
                if isinstance(v, Bool):
                    return Bool(z3.Not(v.t))
                return Int(be.not_(v.t, v.w), v.w, v.signed)
            return Int(be.neg(v.t, v.w), v.w, v.signed)
        # binary
        m = re.match(r"(\w+)\((.+)\)$", s)
        if m and m.group(1) in BINOPS:
            a_s, b_s = split_top(m.group(2))
            a, b = self.operand(p, a_s), self.operand(p, b_s)
            return self.binop(m.group(1), a, b)
        # aggregates
        if s.startswith("(") and s.endswith(")"):
            return Tup([self.operand(p, x) for x in split_top(s[1:-1])])
        if s.startswith("[") and s.endswith("]"):
            inner = s[1:-1]
            m2 = re.match(r"(.+); (\d+)$", inner)
            if m2:
                v = self.operand(p, m2.group(1))
                return Tup([copy_value(v) for _ in range(int(m2.group(2)))], "array")
            return Tup([self.operand(p, x) for x in split_top(inner)], "array")
        m = re.match(r"(?:std::\w+::|core::\w+::|itertools::)*(Option|Result|ControlFlow|Either)::<.*>::(Some|None|Ok|Err|Continue|Break|Left|Right)(?:\((.*)\))?$", s)
        if m:
            variants = ENUM_VARIANTS[m.group(1)]
            idx = variants[m.group(2)]
            payload = {}
            if m.group(3) is not None:
                payload[idx] = Tup([self.operand(p, x) for x in split_top(m.group(3))])
            return Enum(self.const_int(idx, "isize"), payload, variants, m.group(1))
        m = re.match(r"(?:[\w:]+::)?Wrapping::<\w+>\((.+)\)$", s)
        if m:
            return Tup([self.operand(p, m.group(1))], "Wrapping")
        m = re.match(r"(\{closure@[^}]*\}) \{ (.*) \}$", s)
        if m:
            fields = split_top(m.group(2))
            nm = self.closure_name(p, m.group(1))
            return Tup([self.operand(p, f.split(": ", 1)[1]) for f in fields], nm)
        m = re.match(r"(\{closure@[^}]*\})$", s)
        if m:
            return Tup([], self.closure_name(p, m.group(1)))
        ev = self.enum_aggregate(p, s, dest_ty)
        if ev is not None:
            return ev
        m = re.match(r"([\w:<>', ]+?) \{ (.*) \}$", s)
        if m:
            fields = split_top(m.group(2))
            return Tup([self.operand(p, f.split(": ", 1)[1]) for f in fields], m.group(1))
        mts = re.match(r"^((?:\w+::)*[A-Z]\w*)(?:::<.*>)?\((.*)\)$", s)
        if mts and not s.startswith(("copy ", "move ", "const ")):
            return Tup([self.operand(p, x) for x in split_top(mts.group(2))], mts.group(1))      # tuple struct constructor
        if s.endswith(" }"):
            # struct aggregate whose type arguments contain characters the simple pattern above does not allow (`impl Trait<Item = &T>` ...)
            depth = 0
            for i, ch in enumerate(s):
                if ch == "<":
                    depth += 1
                elif ch == ">" and s[i - 1] not in "-=":
                    depth -= 1
                elif depth == 0 and s.startswith(" { ", i):
                    name = strip_generics(s[:i])
                    if re.match(r"^[\w:]+$", name):
                        fields = split_top(s[i + 3:-2])
                        return Tup([self.operand(p, f.split(": ", 1)[1]) for f in fields], name)
                    break
        if re.match(r"^(?:\w+::)*[A-Z]\w*$", s):
            return Tup([], s)                       # unit struct
        hook = self.models.get("__rvalue__")
        if hook:
            r = hook(self, p, s)
            if r is not None:
                return r
        raise Unsupported("rvalue " + s)

    def enum_aggregate(self, p, s, dest_ty):
        """`Path::Variant`, `Path::Variant(ops)`, `Path::Variant { f: op, .. }`, or a bare `Variant` typed by the destination"""
        if self.registry is None:
            return None
        m = re.match(r"((?:[\w]+(?:::<[^()]*?>)?::)*)(\w+)\s*(?:\((.*)\)|\{ (.*) \})?$", s)
        if not m:
            return None
        path, vname, targs, fargs = m.group(1), m.group(2), m.group(3), m.group(4)
        ename = None
        if path:
            segs = [y for y in (re.sub(r"<.*", "", x) for x in path.rstrip(":").split("::") if x) if y]
            ename = segs[-1] if segs else None
        elif dest_ty:
            ename = re.sub(r"<.*", "", dest_ty.split("::")[-1]).strip()
        ed = self.registry.get(ename) if ename else None
        if ed is None or vname not in ed.by_name:
            return None
        fields = ed.fields(vname)
        vals = []
        if targs is not None:
            vals = [self.operand(p, x) for x in split_top(targs)]
        elif fargs is not None:
            byname = {}
            for f in split_top(fargs):
                k, v = f.split(": ", 1)
                byname[k.strip()] = self.operand(p, v)
            vals = [byname[f] for f in fields]
        d = ed.discr(vname)
        payloads = {d: Tup(vals)} if (vals or fields) else {}
        return Enum(self.const_int(d, "isize"), payloads, ed.variant_map(), ed.name)

    @staticmethod
    def _strip_parens(s):
        out, d = [], 0
        for c in s:
            if c in "([":
                d += 1
            elif c in ")]":
                d -= 1
            elif d == 0:
                out.append(c)
        return "".join(out)

    def binop(self, op, a, b):
        be = self.be
        if isinstance(a, Bool) and isinstance(b, Bool):
            f = {"Eq": lambda x, y: x == y, "Ne": lambda x, y: x != y, "BitAnd": z3.And, "BitOr": z3.Or,
                 "BitXor": z3.Xor}.get(op)
            if not f:
                raise Unsupported(f"bool binop {op}")
            return Bool(f(a.t, b.t))
        if not (isinstance(a, Int) and isinstance(b, Int)):
            raise Unsupported(f"binop {op} on {a}, {b}")
        w, sg = a.w, a.signed
        if op in ("Shl", "Shr", "ShlUnchecked", "ShrUnchecked"):
            # shift amount may have another width: reduce to w (MIR masks/asserts range separately)
            sh = be.resize(b.t, b.w, w, False) if b.w != w else b.t
            if op.startswith("Shl"):
                return Int(be.shl(a.t, sh, w), w, sg)
            return Int(be.ashr(a.t, sh, w) if sg else be.lshr(a.t, sh, w), w, sg)
        if b.w != w:
            raise Unsupported(f"width mismatch in {op}")
        if op in ("Add", "AddUnchecked"): return Int(be.add(a.t, b.t, w), w, sg)
        if op in ("Sub", "SubUnchecked"): return Int(be.sub(a.t, b.t, w), w, sg)
        if op in ("Mul", "MulUnchecked"): return Int(be.mul(a.t, b.t, w), w, sg)
        if op == "Div": return Int(be.sdiv(a.t, b.t, w) if sg else be.udiv(a.t, b.t, w), w, sg)
        if op == "Rem": return Int(be.srem(a.t, b.t, w) if sg else be.urem(a.t, b.t, w), w, sg)
        if op == "BitAnd": return Int(be.and_(a.t, b.t, w), w, sg)
        if op == "BitOr": return Int(be.or_(a.t, b.t, w), w, sg)
        if op == "BitXor": return Int(be.xor(a.t, b.t, w), w, sg)
        if op == "Eq": return Bool(be.eq(a.t, b.t, w))
        if op == "Ne": return Bool(z3.Not(be.eq(a.t, b.t, w)))
        if op == "Lt": return Bool(be.slt(a.t, b.t, w) if sg else be.ult(a.t, b.t, w))
        if op == "Le": return Bool(be.sle(a.t, b.t, w) if sg else be.ule(a.t, b.t, w))
        if op == "Gt": return Bool(be.slt(b.t, a.t, w) if sg else be.ult(b.t, a.t, w))
        if op == "Ge": return Bool(be.sle(b.t, a.t, w) if sg else be.ule(b.t, a.t, w))
        if op == "AddWithOverflow":
            return Tup([Int(be.add(a.t, b.t, w), w, sg), Bool(be.add_overflow(a.t, b.t, w, sg))])
        if op == "SubWithOverflow":
            return Tup([Int(be.sub(a.t, b.t, w), w, sg), Bool(be.sub_overflow(a.t, b.t, w, sg))])
        if op == "MulWithOverflow":
            return Tup([Int(be.mul(a.t, b.t, w), w, sg), Bool(be.mul_overflow(a.t, b.t, w, sg))])
        raise Unsupported("binop " + op)

    # ---- statements
    def stmt(self, fn, p, s):
        if not s.endswith(";"):
            raise Unsupported("statement " + s)
        s = s[:-1]
        if re.match(r"(StorageLive|StorageDead|nop|FakeRead|PlaceMention|AscribeUserType|Retag|ConstEvalCounter|Coverage|Deinit)\b", s):
            return
        m = re.match(r"discriminant\((.+)\) = (\d+)$", s)
        if m:
            v = self.read_place(p, m.group(1))
            if isinstance(v, Enum):
                v.discr = self.const_int(int(m.group(2)), "isize")
                return
            raise Unsupported("set discriminant " + s)
        i = self._assign_pos(s)
        if i < 0:
            raise Unsupported("statement " + s)
        lhs, rhs = s[:i].strip(), s[i + 3:].strip()
        mloc = re.match(r"_(\d+)$", lhs)
        dest_ty = fn.locals.get(int(mloc.group(1))) if mloc else None
        val = self.rvalue(fn, p, rhs, dest_ty)
        if dest_ty and isinstance(val, Int):
            it_ = int_type(dest_ty)
            if it_ is not None and it_[0] != val.w:
                val = Int(self.be.resize(val.t, val.w, it_[0], val.signed), it_[0], it_[1])
        self.write_place(p, lhs, val)

    @staticmethod
    def _assign_pos(s):
        d = 0
        for i, c in enumerate(s):
            if c in "([":
                d += 1
            elif c in ")]":
                d -= 1
            elif d == 0 and s[i:i + 3] == " = ":
                return i
        return -1

    # ---- terminators
    def term(self, fn, p, s):
        s = s.rstrip(";")
        if s == "return":
            v = p.locals[0].v if 0 in p.locals else Unit()
            p.outcome = ("return", v)
            return [(p, None)]
        if s == "unreachable":
            p.outcome = ("unreachable",)
            return [(p, None)]
        m = re.match(r"goto -> bb(\d+)$", s)
        if m:
            return [(p, int(m.group(1)))]
        m = re.match(r"drop\((.+)\) -> \[return: bb(\d+), unwind.*\]$", s)
        if m:
            return [(p, int(m.group(2)))]
        m = re.match(r"switchInt\((.+)\) -> \[(.+)\]$", s)
        if m:
            v = self.operand(p, m.group(1))
            arms = []
            other = None
            for a in split_top(m.group(2)):
                k, bbs = a.split(": bb")
                if k == "otherwise":
                    other = int(bbs)
                else:
                    arms.append((int(k), int(bbs)))
            return self.switch(p, v, arms, other)
        m = re.match(r"assert\((!?)(.+?), \"(.*?)\"(?:, .*)?\) -> \[success: bb(\d+), unwind.*\]$", s)
        if m:
            c = self.operand(p, m.group(2))
            cond = z3.Not(c.t) if m.group(1) else c.t
            out = []
            bad = fork(p)
            bad.pc.append(z3.Not(cond))
            if self.feasible(bad.pc):
                bad.outcome = ("panic", "MIR assert: " + m.group(3))
                out.append((bad, None))
            else:
                self.stats["pruned"] += 1
            p.pc.append(cond)
            out.append((p, int(m.group(4))))
            return out
        m = self._split_call(s)
        if m:
            dest, callee, args_s, nb = m
            args = [self.operand(p, a) for a in split_top(args_s)]
            if re.match(r"^(copy|move) _\d+$", callee.strip()):
                # call through a function pointer held in a local: a reified fn item or a capture-less closure
                fv = self.operand(p, callee.strip())
                if isinstance(fv, Tup) and (fv.name or "").startswith("{closure@"):
                    from . import stdmodels as _sm
                    results = self.call_mir(_sm.find_closure_by_value(self, fv, fv.name), p, [Ref(Cell(fv))] + args)
                elif isinstance(fv, Opaque) and fv.name.startswith("fn-item:"):
                    results = self.call(fn, p, fv.name[len("fn-item:"):], args)
                else:
                    raise Unsupported("call through a function pointer that is not a known fn item / closure: " + repr(fv)[:80])
            else:
                results = self.call(fn, p, callee, args)
            out = []
            for (q, rv) in results:
                if rv is PANIC:
                    out.append((q, None))
                else:
                    self.write_place(q, dest, rv)
                    out.append((q, nb))
            return out
        m = re.match(r"(.+?) = (.+)\((.*)\) -> (?:unwind.*|bb\d+)$", s)
        if m:
            # diverging call (panic helpers)
            p.outcome = ("panic", "diverging call " + m.group(2))
            return [(p, None)]
        raise Unsupported("terminator " + s)

    @staticmethod
    def _split_call(s):
        """`dest = callee(args) -> [return: bbN, unwind ...]` with callee possibly containing parentheses (e.g. `Fn<()>`)"""
        mm = re.match(r"(.+) -> \[return: bb(\d+), unwind.*\]$", s)
        if not mm:
            return None
        head, nb = mm.group(1), int(mm.group(2))
        i = head.find(" = ")
        # the first top-level " = "
        d = 0
        for k, ch in enumerate(head):
            if ch in "([":
                d += 1
            elif ch in ")]":
                d -= 1
            elif d == 0 and head[k:k + 3] == " = ":
                i = k; break
        if i < 0 or not head.endswith(")"):
            return None
        dest, call = head[:i], head[i + 3:]
        d = 0
        for k in range(len(call) - 1, -1, -1):
            if call[k] == ")":
                d += 1
            elif call[k] == "(":
                d -= 1
                if d == 0:
                    return dest, call[:k], call[k + 1:-1], nb
        return None

    def switch(self, p, v, arms, other):
        be = self.be
        if isinstance(v, Bool):
            t = v.t
            conds = []
            for k, bb in arms:
                conds.append((t if k != 0 else z3.Not(t), bb))
            rest = z3.And([z3.Not(c) for c, _ in conds]) if conds else z3.BoolVal(True)
        else:
            conds = [(be.eq(v.t, be.const(k, v.w), v.w), bb) for k, bb in arms]
            rest = z3.And([z3.Not(c) for c, _ in conds]) if conds else z3.BoolVal(True)
        if other is not None:
            conds.append((rest, other))
        out = []
        for c, bb in conds:
            c = z3.simplify(c)
            if z3.is_false(c):
                continue
            q = fork(p)
            q.pc.append(c)
            if z3.is_true(c) or self.feasible(q.pc):
                out.append((q, bb))
            else:
                self.stats["pruned"] += 1
        return out

    # ---- calls
    def call(self, fn, p, callee, args):
        """returns list of (path, return value | PANIC)"""
        for pat, model in self.models.items():
            if pat.startswith("__"):
                continue
            if re.search(pat, callee):
                r = model(self, p, callee, args)
                if isinstance(r, list):
                    return r
                return [(p, r)]
        for pat in self.inline:
            if re.search(pat, callee):
                target = self.mir.find_by_callee(callee)
                return self.call_mir(target, p, args)
        raise Unsupported("call to unmodelled function " + callee)

    def call_mir(self, target, p, args):
        if target.header not in self.functions_encoded:
            self.functions_encoded.append(target.header)
        # push a frame on the same path object: forks inside the callee copy caller frames too,
        # so mutations through &mut references stay consistent per path
        p.stack.append(p.locals)
        p.fn_stack = list(p.fn_stack) + [target]
        p.locals = {}
        for (idx, ty), a in zip(target.params, args):
            p.locals[idx] = Cell(a)
        done = []
        saved_steps = getattr(p, "steps", 0)
        saved_epoch = getattr(p, "epoch", 0)
        self._exec(target, p, 0, {}, done)
        out = []
        for d in done:
            d.locals = d.stack.pop()
            d.fn_stack = d.fn_stack[:-1]
            d.steps = saved_steps
            d.epoch = saved_epoch
            if d.outcome[0] == "return":
                rv = d.outcome[1]
                d.outcome = None
                out.append((d, rv))
            else:
                out.append((d, PANIC))
        return out


PANIC = object()
BINOPS = {"Add", "Sub", "Mul", "Div", "Rem", "BitXor", "BitAnd", "BitOr", "Shl", "Shr", "Eq", "Lt", "Le", "Ne", "Ge",
          "Gt", "AddWithOverflow", "SubWithOverflow", "MulWithOverflow", "AddUnchecked", "SubUnchecked",
          "MulUnchecked", "ShlUnchecked", "ShrUnchecked"}


class VariantView:
    def __init__(self, tup):
        self.tup = tup


def copy_value(v):
    """values are immutable trees except Cells behind Refs (shared on purpose)"""
    if isinstance(v, Tup):
        return Tup([copy_value(x) for x in v.f], v.name)
    if isinstance(v, Enum):
        return Enum(v.discr, {k: copy_value(t) for k, t in v.payloads.items()}, v.variants, v.name)
    if isinstance(v, Seq):
        return Seq([copy_value(x) for x in v.items])
    return v


def fork(p):
    """copy a path: locals are deep-copied (cells included, sharing structure between refs preserved)"""
    q = Path()
    q.pc = list(p.pc)
    memo = {}
    q.locals = {k: _copy_cell(c, memo) for k, c in p.locals.items()}
    q.stack = [{k: _copy_cell(c, memo) for k, c in fr.items()} for fr in p.stack]
    q.trace = list(p.trace)
    q.fn_stack = list(getattr(p, "fn_stack", []))
    q.steps = getattr(p, "steps", 0)
    q.epoch = getattr(p, "epoch", 0)
    return q


def fork_with(p, pc):
    q = fork(p)
    q.pc = list(pc)
    return q


def _copy_cell(c, memo):
    if id(c) in memo:
        return memo[id(c)]
    n = Cell(None)
    memo[id(c)] = n
    n.v = _copy_val(c.v, memo)
    return n


def _copy_val(v, memo):
    if isinstance(v, Tup):
        return Tup([_copy_val(x, memo) for x in v.f], v.name)
    if isinstance(v, Enum):
        return Enum(v.discr, {k: _copy_val(t, memo) for k, t in v.payloads.items()}, v.variants, v.name)
    if isinstance(v, Ref):
        return Ref(_copy_cell(v.cell, memo), v.path)
    if isinstance(v, Seq):
        return Seq([_copy_val(x, memo) for x in v.items])
    if hasattr(v, "clone_obj"):
        return v.clone_obj(memo)
    return v


# ----------------------------------------------------------------------------- state merging
def _common_prefix(a, b):
    n = 0
    while n < len(a) and n < len(b) and a[n].eq(b[n]):
        n += 1
    return n


def merge_paths(it, p, q, live):
    """merge q into p if their (live) states are structurally compatible; returns merged path or None"""
    if len(p.stack) != len(q.stack) or [f.header for f in p.fn_stack] != [f.header for f in q.fn_stack]:
        return None
    n = _common_prefix(p.pc, q.pc)
    cp = z3.And(p.pc[n:]) if len(p.pc) > n else z3.BoolVal(True)
    cq = z3.And(q.pc[n:]) if len(q.pc) > n else z3.BoolVal(True)
    memo = {}
    try:
        keys = set(p.locals) | set(q.locals)
        if live is not None:
            keys &= live
        new_locals = {}
        for k in keys:
            if k not in p.locals or k not in q.locals:
                return None
            new_locals[k] = _merge_cell(it, p.locals[k], q.locals[k], cp, memo)
        new_stack = []
        for fp, fq in zip(p.stack, q.stack):
            if set(fp) != set(fq):
                return None
            new_stack.append({k: _merge_cell(it, fp[k], fq[k], cp, memo) for k in fp})
    except _NoMerge:
        return None
    r = Path()
    r.pc = p.pc[:n] + [z3.simplify(z3.Or(cp, cq))]
    r.locals, r.stack = new_locals, new_stack
    r.fn_stack = list(p.fn_stack)
    r.steps = max(p.steps, q.steps)
    return r


class _NoMerge(Exception):
    pass


def _merge_cell(it, a, b, cp, memo):
    key = (id(a), id(b))
    if key in memo:
        return memo[key]
    c = Cell(None)
    memo[key] = c
    c.v = _merge_val(it, a.v, b.v, cp, memo)
    return c


def _merge_val(it, a, b, cp, memo):
    if a is None and b is None:
        return None
    if type(a) is not type(b):
        raise _NoMerge()
    if isinstance(a, Int):
        if a.w != b.w:
            raise _NoMerge()
        if a.t.eq(b.t):
            return a
        if (z3.is_bv_value(a.t) or z3.is_int_value(a.t)) and (z3.is_bv_value(b.t) or z3.is_int_value(b.t)):
            raise _NoMerge()      # keep concrete counters / indices concrete: different loop iterations are not merged
        return Int(z3.If(cp, a.t, b.t), a.w, a.signed)
    if isinstance(a, Bool):
        return a if a.t.eq(b.t) else Bool(z3.If(cp, a.t, b.t))
    if isinstance(a, Tup):
        if len(a.f) != len(b.f):
            raise _NoMerge()
        return Tup([_merge_val(it, x, y, cp, memo) for x, y in zip(a.f, b.f)], a.name)
    if isinstance(a, Enum):
        keys = set(a.payloads) | set(b.payloads)
        pl = {}
        for k in keys:
            if k in a.payloads and k in b.payloads:
                pl[k] = _merge_val(it, a.payloads[k], b.payloads[k], cp, memo)
            else:
                pl[k] = a.payloads.get(k) or b.payloads.get(k)   # only one side can be in this variant
        return Enum(_merge_val(it, a.discr, b.discr, cp, memo), pl, a.variants, a.name)
    if isinstance(a, Ref):
        if a.path != b.path:
            raise _NoMerge()
        return Ref(_merge_cell(it, a.cell, b.cell, cp, memo), a.path)
    if isinstance(a, Seq):
        if len(a.items) != len(b.items):
            raise _NoMerge()
        return Seq([_merge_val(it, x, y, cp, memo) for x, y in zip(a.items, b.items)])
    if isinstance(a, (Unit,)):
        return a
    if isinstance(a, Opaque):
        if a.name == b.name:
            return a
        raise _NoMerge()
    if hasattr(a, "merge_obj"):
        return a.merge_obj(it, b, cp, memo)
    raise _NoMerge()
