"""Obligation helpers for engine S."""
import time, z3
from . import solve, mir


class Ctx:
    """collects obligation results for one property run"""

    def __init__(self, tier, only=None):
        self.tier, self.only = tier, only
        self.results = []
        self.cap = 30 if tier == "quick" else 180

    def skip(self, name):
        import re
        return bool(self.only) and not re.search(self.only, name)

    def add(self, **kw):
        self.results.append(kw)
        return kw

    def prove(self, name, hyps, goal, inputs=(), functions="", bounds="", assumes="", outside="", backend="",
              witness=True, replay=None, solvers=None, diff=False, lemma_of=None):
        """discharge  hyps => goal  for all values of the free variables.
        witness: additionally require hyps to be satisfiable (vacuity guard)."""
        if self.skip(name):
            return None
        t0 = time.time()
        r = solve.check(list(hyps) + [z3.Not(goal)], get_values=inputs, timeout=self.cap, solvers=solvers, diff=diff)
        res = {"name": f"smt:{name}", "engine": f"smt:mir2smt[{backend}] z3-4.8.12|z3-5.1.0|cvc5-1.0 portfolio",
               "functions": functions, "bounds": bounds, "assumes": assumes, "outside": outside,
               "per_solver": r.get("per_solver"), "time_s": r.get("time"), "solver": r.get("solver")}
        if r["result"] == "unsat":
            res["status"] = "discharged"
            if witness:
                w = solve.check(list(hyps), timeout=self.cap, solvers=solvers)
                res["cover"] = "1/1" if w["result"] == "sat" else "0/1"
                if w["result"] != "sat":
                    res["status"] = "inconclusive"
                    res["reason"] = f"vacuity witness: hypotheses not shown satisfiable ({w.get('result')}, {w.get('reason')})"
            else:
                res["cover"] = "1/1"
        elif r["result"] == "sat":
            res["status"] = "violated"
            res["model"] = r.get("model", {})
            res["failed_checks"] = [{"desc": f"SMT counterexample: {r.get('model')}"}]
            if replay is not None:
                res["replay_fn"] = lambda rr, _m=r.get("model", {}): replay(_m)
        else:
            res["status"] = "inconclusive"
            res["reason"] = r.get("reason")
        self.results.append(res)
        return res


def merged_return(paths, be):
    """ite-merge the return values (Int/Bool) of all returning paths; also returns the panic condition"""
    rets = [(z3.And(p.pc) if p.pc else z3.BoolVal(True), p.outcome[1]) for p in paths if p.outcome[0] == "return"]
    panics = [(z3.And(p.pc) if p.pc else z3.BoolVal(True), p.outcome) for p in paths if p.outcome[0] != "return"]
    return rets, panics


def ite_merge_int(rets):
    """rets: list of (cond, Int) -> single term"""
    assert rets
    t = rets[-1][1].t
    for c, v in reversed(rets[:-1]):
        t = z3.If(c, v.t, t)
    return t
