"""Obligation helpers for engine S."""
import time, z3
from . import solve, mir


class Ctx:
    """collects obligation results for one property run"""

    def __init__(self, tier, only=None):
        self.tier, self.only = tier, only
        self.results = []
        self.cap = 30 if tier == "quick" else 180

    def skip(self, name):
        import re
        return bool(self.only) and not re.search(self.only, name)

    def add(self, **kw):
        self.results.append(kw)
        return kw

    def prove(self, name, hyps, goal, inputs=(), functions="", bounds="", assumes="", outside="", backend="",
              witness=True, replay=None, solvers=None, diff=False, lemma_of=None):
        """discharge  hyps => goal  for all values of the free variables.
        witness: additionally require hyps to be satisfiable (vacuity guard)."""
        if self.skip(name):
            return None
        t0 = time.time()
        r = None
        pre = self.model_by_evaluation(hyps, goal, inputs)
        if pre is not None:
            r = {"result": "sat", "model": pre, "solver": "model found by concrete evaluation of the query (then replayed natively)",
                 "time": round(time.time() - t0, 3), "per_solver": {}}
        if r is None:
            r = solve.check(list(hyps) + [z3.Not(goal)], get_values=inputs, timeout=self.cap, solvers=solvers, diff=diff)
        res = {"name": f"smt:{name}", "engine": f"smt:mir2smt[{backend}] z3-4.8.12|z3-5.1.0|cvc5-1.0 portfolio",
               "functions": functions, "bounds": bounds, "assumes": assumes, "outside": outside,
               "per_solver": r.get("per_solver"), "time_s": r.get("time"), "solver": r.get("solver")}
        if r["result"] == "unsat":
            res["status"] = "discharged"
            if witness:
                w = solve.check(list(hyps), timeout=self.cap, solvers=solvers)
                res["cover"] = "1/1" if w["result"] == "sat" else "0/1"
                if w["result"] != "sat":
                    res["status"] = "inconclusive"
                    res["reason"] = f"vacuity witness: hypotheses not shown satisfiable ({w.get('result')}, {w.get('reason')})"
            else:
                res["cover"] = "1/1"
        elif r["result"] == "sat":
            res["status"] = "violated"
            res["model"] = r.get("model", {})
            res["failed_checks"] = [{"desc": f"SMT counterexample: {r.get('model')}"}]
            if replay is not None:
                res["replay_fn"] = lambda rr, _m=r.get("model", {}): replay(_m)
        else:
            res["status"] = "inconclusive"
            res["reason"] = r.get("reason")
        self.results.append(res)
        return res


def _model_by_evaluation(self, hyps, goal, inputs, tries=48):
    """cheap search for a satisfying assignment of  hyps /\\ not goal  by evaluating the formula on boundary / pseudo-random
    values of the inputs. Only ever used to FIND a counterexample faster than the SAT solvers do on hash-like
    arithmetic; an unsat verdict always comes from a solver."""
    import random
    ins = [v for v in inputs if z3.is_bv(v) or z3.is_bool(v)]
    if not ins or len(ins) != len(inputs):
        return None
    rnd = random.Random(12345)
    f = z3.And(list(hyps) + [z3.Not(goal)])
    pats = [lambda w: 0, lambda w: (1 << w) - 1, lambda w: 1 << (w - 1), lambda w: (1 << (w - 1)) - 1, lambda w: 0x80 % (1 << w)]
    for k in range(tries):
        sub, model = [], {}
        for v in ins:
            if z3.is_bool(v):
                val = bool(rnd.getrandbits(1)) if k >= 2 else bool(k)
                sub.append((v, z3.BoolVal(val))); model[str(v)] = val
            else:
                w = v.size()
                val = pats[k](w) if k < len(pats) else (rnd.getrandbits(w) if k % 3 else (rnd.getrandbits(w) | int("80" * ((w + 7) // 8), 16)) % (1 << w))
                sub.append((v, z3.BitVecVal(val, w))); model[str(v)] = val
        try:
            e = z3.simplify(z3.substitute(f, *sub))
        except Exception:
            return None
        if z3.is_true(e):
            return model
    return None


Ctx.model_by_evaluation = _model_by_evaluation


def merged_return(paths, be):
    """ite-merge the return values (Int/Bool) of all returning paths; also returns the panic condition"""
    rets = [(z3.And(p.pc) if p.pc else z3.BoolVal(True), p.outcome[1]) for p in paths if p.outcome[0] == "return"]
    panics = [(z3.And(p.pc) if p.pc else z3.BoolVal(True), p.outcome) for p in paths if p.outcome[0] != "return"]
    return rets, panics


def ite_merge_int(rets):
    """rets: list of (cond, Int) -> single term"""
    assert rets
    t = rets[-1][1].t
    for c, v in reversed(rets[:-1]):
        t = z3.If(c, v.t, t)
    return t
