"""Dump the MIR of a /repo crate with the nightly toolchain (regenerated on every call)."""
import os, subprocess, time, hashlib
VERIF = os.path.dirname(os.path.dirname(os.path.abspath(__file__)))
_cache = {}

def dump(crate, features="scylla-verif", cwd=None):
    """crate: directory name under /repo (scylla, scylla-cql, scylla-cql-core). Returns path of the MIR text."""
    key = (crate, features)
    if key in _cache:
        return _cache[key]
    out_dir = os.path.join(VERIF, ".cache", "mir")
    os.makedirs(out_dir, exist_ok=True)
    out = os.path.join(out_dir, f"{crate.replace('/', '_')}-{os.getpid()}.mir")
    env = dict(os.environ)
    env["CARGO_NET_OFFLINE"] = "true"
    env["CARGO_TARGET_DIR"] = os.path.join(VERIF, ".cache", "mir-target")
    env.pop("RUSTFLAGS", None)
    nonce = f"vk_mir_{int(time.time()*1000)}_{os.getpid()}"
    cmd = ["cargo", "+nightly", "rustc", "--offline", "--lib"]
    if features:
        cmd += ["--features", features]
    cmd += ["--", "-Zunpretty=mir", "-C", "debug-assertions=off", "-C", "overflow-checks=on", "--cfg", nonce,
            "-A", "unexpected_cfgs"]
    t0 = time.time()
    with open(out, "w") as f:
        p = subprocess.run(cmd, cwd=cwd or os.path.join("/repo", crate), env=env, stdout=f, stderr=subprocess.PIPE, text=True)
    if p.returncode != 0 or os.path.getsize(out) < 1000:
        raise RuntimeError(f"MIR dump of {crate} failed: {p.stderr[-1500:]}")
    _cache[key] = out
    return out
