"""Solver portfolio: the same SMT-LIB2 query goes to /usr/bin/z3 (4.8.12), z3-new (5.1.0) and cvc5 in
parallel; the first definitive answer wins. `(error` in any output of the winning solver => inconclusive.
Once per obligation (when `diff=True`) every solver that finishes within the cap must agree."""
import subprocess, tempfile, os, time, re, threading
import z3

SOLVERS = {
    "z3-4.8.12": ["/usr/bin/z3", "-smt2"],
    "z3-5.1.0": ["z3-new", "-smt2"],
    "cvc5-1.0": ["cvc5", "--lang", "smt2", "--produce-models"],
}


def to_smt2(assertions, get_values=()):
    s = z3.Solver()
    for a in assertions:
        s.add(a)
    for v in get_values:
        s.add(v == v)          # keeps the declaration of every reported input in the script
    txt = s.to_smt2()
    # z3's to_smt2 ends with (check-sat); add model query
    txt = "(set-logic ALL)\n" + txt
    if get_values:
        names = " ".join(str(v) for v in get_values)
        txt += f"\n(get-value ({names}))\n"
    return txt


def _run(name, cmd, path, timeout, out):
    t0 = time.time()
    try:
        p = subprocess.Popen(cmd + [path], stdout=subprocess.PIPE, stderr=subprocess.STDOUT, text=True)
        out[name] = {"proc": p}
        try:
            o, _ = p.communicate(timeout=timeout)
        except subprocess.TimeoutExpired:
            p.kill(); o, _ = p.communicate()
            out[name] = {"result": "timeout", "time": time.time() - t0, "raw": o[-300:]}
            return
        first = o.strip().split("\n")[0].strip() if o.strip() else ""
        if p.returncode is not None and p.returncode < 0:
            out[name] = {"result": "killed", "time": time.time() - t0, "raw": ""}
            return
        res = first if first in ("sat", "unsat", "unknown") else "error"
        if "(error" in o and res != "error":
            # an error line next to a verdict: the verdict is not trusted... unless it stems from get-value after unsat
            errs = re.findall(r"\(error[^\n]*", o)
            benign = all(re.search(r"model|get-value|cannot get value|unsat|SAT", e) for e in errs)
            if not (res == "unsat" and benign):
                res = "error"
        out[name] = {"result": res, "time": time.time() - t0, "raw": o[-4000:]}
    except FileNotFoundError:
        out[name] = {"result": "missing", "time": 0, "raw": ""}


def check(assertions, get_values=(), timeout=20, solvers=None, diff=False):
    """returns dict(result in sat|unsat|inconclusive, solver, time, model{name:int}, per_solver{...})"""
    txt = to_smt2(assertions, get_values)
    fd, path = tempfile.mkstemp(suffix=".smt2", prefix="vq_")
    os.write(fd, txt.encode()); os.close(fd)
    names = solvers or list(SOLVERS)
    out, threads = {}, []
    for n in names:
        th = threading.Thread(target=_run, args=(n, SOLVERS[n], path, timeout, out))
        th.start(); threads.append(th)
    t0 = time.time()
    winner = None
    while any(t.is_alive() for t in threads):
        for n in names:
            r = out.get(n, {})
            if r.get("result") in ("sat", "unsat"):
                winner = n; break
        if winner and not diff:
            break
        time.sleep(0.01)
    if winner and not diff:
        for n in names:
            pr = out.get(n, {}).get("proc")
            if pr is not None and pr.poll() is None:
                try: pr.kill()
                except Exception: pass
    for t in threads:
        t.join()
    os.unlink(path)
    verdicts = {n: out[n].get("result") for n in names if n in out}
    definite = {n: v for n, v in verdicts.items() if v in ("sat", "unsat")}
    res = {"per_solver": {n: {"result": out[n].get("result"), "time": round(out[n].get("time", 0), 3)} for n in names if n in out},
           "time": round(time.time() - t0, 3), "smt2_bytes": len(txt)}
    if len(set(definite.values())) > 1:
        res.update(result="inconclusive", reason=f"solvers disagree: {verdicts}")
        return res
    if not definite:
        res.update(result="inconclusive", reason=f"no solver answered within {timeout}s: {verdicts}")
        return res
    # fastest definite
    w = min(definite, key=lambda n: out[n]["time"])
    res.update(result=definite[w], solver=w, solver_time=round(out[w]["time"], 3))
    if definite[w] == "sat" and get_values:
        res["model"] = parse_values(out[w]["raw"])
    return res


def parse_values(raw):
    """parse (get-value ...) output: ((x #x0001) (y (- 5)) (z 7) (b true))"""
    model = {}
    for m in re.finditer(r"\(([\w!.$|]+)\s+(#x[0-9a-fA-F]+|#b[01]+|\(-\s*\d+\)|-?\d+|true|false|\(_ bv(\d+) \d+\))\)", raw):
        k, v = m.group(1).strip("|"), m.group(2)
        if v.startswith("#x"): model[k] = int(v[2:], 16)
        elif v.startswith("#b"): model[k] = int(v[2:], 2)
        elif v.startswith("(_ bv"): model[k] = int(m.group(3))
        elif v.startswith("("): model[k] = -int(re.sub(r"[^\d]", "", v))
        elif v in ("true", "false"): model[k] = (v == "true")
        else: model[k] = int(v)
    return model
