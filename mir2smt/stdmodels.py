"""Trusted models of std library functions used by several properties (engine S)."""
import re
import z3
from . import mir
from .mir import Int, Bool, Tup, Enum, Ref, Cell, Seq, Opaque, Unit, Unsupported, PANIC, fork

OPTION = mir.ENUM_VARIANTS["Option"]


def deref(v):
    """read through a Ref"""
    if not isinstance(v, Ref):
        raise Unsupported(f"expected reference, got {v}")
    t = v.cell.v
    it = None
    for pr in v.path:
        t = mir.Interp._walk(None, t, pr)
    if isinstance(t, mir.VariantView):
        t = t.tup
    return t


def some(it, v):
    return Enum(it.const_int(1, "isize"), {1: Tup([v])}, OPTION, "Option")


def none(it):
    return Enum(it.const_int(0, "isize"), {}, OPTION, "Option")


def concretize(it, p, val, lo, hi):
    """fork over the feasible concrete values of an Int in [lo,hi]; returns [(path, int)]"""
    t = z3.simplify(val.t)
    if z3.is_bv_value(t) or z3.is_int_value(t):
        return [(p, t.as_long())]
    out = []
    for k in range(lo, hi + 1):
        q = fork(p)
        q.pc.append(it.be.eq(val.t, it.be.const(k, val.w), val.w))
        if it.feasible(q.pc):
            out.append((q, k))
    return out


def find_closure(it, callee):
    if "=>" in callee and callee.startswith("{closure@"):
        header = callee.split("=>", 1)[1]
        for mf in [it.mir] + it.mir.others:
            if any(h == header for _, h in mf.headers):
                return mf.find("^" + re.escape(header) + "$")
    m = re.search(r"\{closure@([^}]*)\}", callee)
    if not m:
        raise Unsupported("no closure in " + callee)
    tag = "{closure@" + m.group(1) + "}"
    for mf in [it.mir] + it.mir.others:
        hits = [h for _, h in mf.headers if tag in h and re.search(r"\{closure#\d+\}\(", h)]
        if len(hits) == 1:
            return mf.find("^" + re.escape(hits[0]) + "$")
    raise Unsupported("closure body not found for " + tag)


def find_closure_by_value(it, clo, callee):
    """the MIR body of a closure VALUE (tagged at its creation site, see Interp.closure_name); falls back to the callee's generic argument"""
    nm = getattr(clo, "name", None) if isinstance(clo, Tup) else None
    if nm and "=>" in nm:
        header = nm.split("=>", 1)[1]
        for mf in [it.mir] + it.mir.others:
            if any(h == header for _, h in mf.headers):
                return mf.find("^" + re.escape(header) + "$")
    return find_closure(it, callee if (not nm or "{closure@" not in nm) else nm.split("=>")[0])


def call_single(it, target, p, args):
    res = it.call_mir(target, p, args)
    ok = [(q, v) for q, v in res if v is not PANIC]
    bad = [(q, v) for q, v in res if v is PANIC]
    return ok, bad


def m_partition_point(it, p, callee, args):
    """slice::partition_point(pred): index of the first element for which pred is false, *provided the slice is
    partitioned* (all true before all false). A non-partitioned slice makes the result unspecified: such paths
    end with outcome ('unspecified', ..) and must be shown infeasible by the caller's no-panic obligation."""
    sl, clos = args
    seq = deref(sl)
    if not isinstance(seq, Seq):
        raise Unsupported("partition_point on non-sequence")
    body = find_closure(it, callee)
    n = len(seq.items)
    conds = []
    cur = p
    for i in range(n):
        elem_ref = Ref(sl.cell, sl.path + (("index_const", i),))
        ok, bad = call_single(it, body, cur, [Ref(Cell(mir.copy_value(clos))), elem_ref])
        if len(ok) != 1 or bad:
            raise Unsupported("partition_point predicate does not evaluate on a single path")
        cur, v = ok[0]
        conds.append(v.t)
    out = []
    any_k = []
    for k in range(n + 1):
        c = z3.And([conds[j] for j in range(k)] + ([z3.Not(conds[j]) for j in range(k, n)]))
        any_k.append(c)
        q = fork(cur)
        q.pc.append(c)
        if it.feasible(q.pc):
            out.append((q, it.const_int(k, "usize")))
    q = fork(cur)
    q.pc.append(z3.Not(z3.Or(any_k)))
    if it.feasible(q.pc):
        q.outcome = ("unspecified", "partition_point called on a slice that is not partitioned by the predicate")
        out.append((q, PANIC))
    return out


def m_vec_deref(it, p, callee, args):
    return args[0]


def m_drain(it, p, callee, args):
    vec, rng = args
    out = []
    seq0 = deref(vec)
    n = len(seq0.items)
    for q1, a in concretize(it, p, rng.f[0], 0, n + 1):
        # re-resolve the operands on the forked path
        for q2, b in concretize(it, q1, rng.f[1], 0, n + 1):
            if a > b or b > n:
                q2.outcome = ("panic", f"Vec::drain range {a}..{b} out of bounds for length {n}")
                out.append((q2, PANIC))
                continue
            # the vec reference lives in the forked path: locate it again through the same local structure
            v2 = _reref(p, q2, vec)
            s = deref(v2)
            del s.items[a:b]
            out.append((q2, Opaque("Drain")))
    return out


def m_insert(it, p, callee, args):
    vec, idx, elem = args
    out = []
    n = len(deref(vec).items)
    for q, k in concretize(it, p, idx, 0, n + 1):
        if k > n:
            q.outcome = ("panic", f"Vec::insert index {k} > len {n}")
            out.append((q, PANIC))
            continue
        v2 = _reref(p, q, vec)
        deref(v2).items.insert(k, elem)
        out.append((q, Unit()))
    return out


def _reref(p_old, p_new, ref):
    """find the cell in p_new that corresponds to ref.cell in p_old (same position in locals/stack)"""
    if p_old is p_new:
        return ref
    def cells(path):
        seen, order = set(), []
        def visit_cell(c):
            if id(c) in seen:
                return
            seen.add(id(c)); order.append(c)
            visit_val(c.v)
        def visit_val(v):
            if isinstance(v, Ref): visit_cell(v.cell)
            elif isinstance(v, Tup):
                for x in v.f: visit_val(x)
            elif isinstance(v, Enum):
                for k in sorted(v.payloads): visit_val(v.payloads[k])
            elif isinstance(v, Seq):
                for x in v.items: visit_val(x)
        for fr in list(path.stack) + [path.locals]:
            for k in sorted(fr):
                visit_cell(fr[k])
        return order
    a, b = cells(p_old), cells(p_new)
    for x, y in zip(a, b):
        if x is ref.cell:
            return Ref(y, ref.path)
    raise Unsupported("cannot relocate reference after fork")


def m_slice_get(it, p, callee, args):
    sl, idx = args
    n = len(deref(sl).items)
    out = []
    t = z3.simplify(idx.t)
    if z3.is_bv_value(t) or z3.is_int_value(t):
        k = t.as_long()
        if k < n:
            return [(p, some(it, Ref(sl.cell, sl.path + (("index_const", k),))))]
        return [(p, none(it))]
    for q, k in concretize(it, p, idx, 0, n - 1):
        s2 = _reref(p, q, sl)
        out.append((q, some(it, Ref(s2.cell, s2.path + (("index_const", k),)))))
    # idx >= n  -> None
    q = fork(p)
    q.pc.append(z3.Not(it.be.ult(idx.t, it.be.const(n, idx.w), idx.w)))
    if it.feasible(q.pc):
        out.append((q, none(it)))
    return out


def m_option_filter(it, p, callee, args):
    opt, clos = args
    body = find_closure(it, callee)
    d = z3.simplify(opt.discr.t)
    if not (z3.is_bv_value(d) or z3.is_int_value(d)):
        raise Unsupported("Option::filter on symbolic discriminant")
    if d.as_long() == 0:
        return none(it)
    inner = opt.payloads[1].f[0]
    ok, bad = call_single(it, body, p, [mir.copy_value(clos), Ref(Cell(inner))])
    if len(ok) != 1 or bad:
        raise Unsupported("filter predicate does not evaluate on a single path")
    q, v = ok[0]
    be = it.be
    return [(q, Enum(Int(be.ite(v.t, be.const(1, 64), be.const(0, 64)), 64, True), {1: Tup([inner])}, OPTION, "Option"))]


def m_option_is_some(it, p, callee, args):
    o = deref(args[0])
    return Bool(it.be.eq(o.discr.t, it.be.const(1, o.discr.w), o.discr.w))


def m_index_range(kind):
    """<Vec<T>|[T] as Index<RangeFrom|RangeTo|Range<usize>>>::index — read-only sub-slice (modelled as a copy)"""
    def f(it, p, callee, args):
        sl, rng = args
        seq = deref(sl)
        n = len(seq.items)
        out = []
        lo_v = rng.f[0] if kind in ("from", "range") else None
        hi_v = rng.f[1] if kind == "range" else (rng.f[0] if kind == "to" else None)
        los = concretize(it, p, lo_v, 0, n + 1) if lo_v is not None else [(p, 0)]
        for q1, a in los:
            his = concretize(it, q1, hi_v, 0, n + 1) if hi_v is not None else [(q1, n)]
            for q2, b in his:
                if a > b or b > n:
                    q2.outcome = ("panic", f"slice index {a}..{b} out of range for length {n}")
                    out.append((q2, PANIC))
                    continue
                s2 = deref(_reref(p, q2, sl))
                out.append((q2, Ref(Cell(Seq([mir.copy_value(x) for x in s2.items[a:b]])))))
        return out
    return f


# ----------------------------------------------------------------------------- Result / Try plumbing
RESULT = mir.ENUM_VARIANTS["Result"]
CONTROLFLOW = mir.ENUM_VARIANTS["ControlFlow"]


def m_result_branch(it, p, callee, args):
    """<Result<T,E> as Try>::branch: Ok(v) -> Continue(v), Err(e) -> Break(Err(e))"""
    r = args[0]
    pl = {}
    if 0 in r.payloads:
        pl[0] = r.payloads[0]
    pl[1] = Tup([Enum(it.const_int(1, "isize"), {1: r.payloads.get(1, Tup([Opaque("err")]))}, RESULT, "Result")])
    return Enum(r.discr, pl, CONTROLFLOW, "ControlFlow")


def m_result_from_residual(it, p, callee, args):
    r = args[0]
    if not isinstance(r, Enum):
        return Enum(it.const_int(1, "isize"), {1: Tup([Opaque("err")])}, RESULT, "Result")
    return Enum(it.const_int(1, "isize"), {1: r.payloads.get(1, Tup([Opaque("err")]))}, RESULT, "Result")


# ----------------------------------------------------------------------------- str as a sequence of chars
def str_value(chars):
    """&str modelled as Ref to a Seq of char Ints (unicode scalar values); byte length is derived"""
    return Ref(Cell(Seq(chars)))


def m_str_is_empty(it, p, callee, args):
    return Bool(z3.BoolVal(len(deref(args[0]).items) == 0))


def m_str_chars(it, p, callee, args):
    return Tup([args[0], it.const_int(0, "usize")], "Chars")


def m_identity(it, p, callee, args):
    return args[0]


def m_chars_count(it, p, callee, args):
    ch = args[0]
    n = len(deref(ch.f[0]).items)
    pos = z3.simplify(ch.f[1].t).as_long()
    return it.const_int(n - pos, "usize")


def m_chars_next(it, p, callee, args):
    ch = deref(args[0])
    seq = deref(ch.f[0])
    pos = z3.simplify(ch.f[1].t).as_long()
    if pos >= len(seq.items):
        return none(it)
    ch.f[1] = it.const_int(pos + 1, "usize")
    return some(it, seq.items[pos])


def utf8_len(be, c):
    return z3.If(z3.ULT(c, 0x80), z3.BitVecVal(1, 64), z3.If(z3.ULT(c, 0x800), z3.BitVecVal(2, 64),
                 z3.If(z3.ULT(c, 0x10000), z3.BitVecVal(3, 64), z3.BitVecVal(4, 64))))


def m_str_len(it, p, callee, args):
    seq = deref(args[0])
    t = z3.BitVecVal(0, 64)
    for c in seq.items:
        t = t + utf8_len(it.be, c.t)
    return Int(t, 64, False)


def m_to_string(it, p, callee, args):
    return Tup([args[0]], "String")      # owned copy of the same characters


def m_string_deref(it, p, callee, args):
    s = deref(args[0])
    return s.f[0] if isinstance(s, Tup) and s.name == "String" else args[0]


# ----------------------------------------------------------------------------- byte slices / arrays
def elems(container):
    return container.f if isinstance(container, Tup) else container.items


def mk_slice(it, base_ref, start, length):
    """&[u8] / &mut [u8]: (reference to the backing array/Seq, concrete start, concrete length)"""
    return Tup([base_ref, it.const_int(start, "usize"), it.const_int(length, "usize")], "Slice")


def slice_parts(v):
    if not (isinstance(v, Tup) and v.name == "Slice"):
        raise Unsupported(f"expected a slice, got {v}")
    st, ln = z3.simplify(v.f[1].t), z3.simplify(v.f[2].t)
    return v.f[0], st.as_long(), ln.as_long()


def slice_items(v):
    base, st, ln = slice_parts(v)
    return elems(deref(base))[st:st + ln]


def _cint(x):
    t = z3.simplify(x.t)
    if not (z3.is_bv_value(t) or z3.is_int_value(t)):
        raise Unsupported("slice bound is not concrete on this path")
    return t.as_long()


def m_array_index_range(it, p, callee, args):
    """<[u8; N] | [u8] as Index/IndexMut<Range|RangeTo|RangeFrom|RangeFull>>::index(_mut)"""
    base, rng = args
    if isinstance(base, Tup) and base.name == "Slice":
        bref, bst, bln = slice_parts(base)
    else:
        bref, bst, bln = base, 0, len(elems(deref(base)))
    kind = "full"
    if "RangeTo<" in callee: kind = "to"
    elif "RangeFrom<" in callee: kind = "from"
    elif "RangeFull" in callee: kind = "full"
    elif "Range<" in callee: kind = "range"
    lo, hi = 0, bln
    if kind == "to": hi = _cint(rng.f[0])
    elif kind == "from": lo = _cint(rng.f[0])
    elif kind == "range": lo, hi = _cint(rng.f[0]), _cint(rng.f[1])
    if lo > hi or hi > bln:
        raise mir.Panic(f"slice index {lo}..{hi} out of range for length {bln}")
    return mk_slice(it, bref, bst + lo, hi - lo)


def m_copy_from_slice(it, p, callee, args):
    dst, src = args
    dref, dst_st, dln = slice_parts(dst)
    s_items = slice_items(src)
    if dln != len(s_items):
        raise mir.Panic("copy_from_slice: source slice length does not match destination slice length")
    d = elems(deref(dref))
    for i, x in enumerate(s_items):
        d[dst_st + i] = x
    return Unit()


def m_buf_advance(it, p, callee, args):
    cell_ref, n = args
    sl = deref(cell_ref)
    base, st, ln = slice_parts(sl)
    k = _cint(n)
    if k > ln:
        raise mir.Panic("Buf::advance past the end")
    sl.f[1] = it.const_int(st + k, "usize")
    sl.f[2] = it.const_int(ln - k, "usize")
    return Unit()


def m_buf_get_int(nbytes, little, signed):
    def f(it, p, callee, args):
        sl = deref(args[0])
        base, st, ln = slice_parts(sl)
        if ln < nbytes:
            raise mir.Panic("Buf::get_*: not enough bytes")
        bs = elems(deref(base))[st:st + nbytes]
        order = list(reversed(bs)) if little else bs       # most significant first
        t = order[0].t
        for b in order[1:]:
            t = z3.Concat(t, b.t)
        sl.f[1] = it.const_int(st + nbytes, "usize")
        sl.f[2] = it.const_int(ln - nbytes, "usize")
        return Int(t, 8 * nbytes, signed)
    return f


def m_usize_min(it, p, callee, args):
    a, b = args
    return Int(it.be.ite(it.be.ule(a.t, b.t, a.w), a.t, b.t), a.w, a.signed)


# ----------------------------------------------------------------------------- Wrapping<T>
def _w(v):
    return v.f[0]


def m_wrapping(op, assign):
    def f(it, p, callee, args):
        be = it.be
        a = deref(args[0]) if assign else args[0]
        b = args[1]
        x = _w(a)
        if op == "shl":
            sh = b if isinstance(b, Int) else _w(b)
            amt = be.resize(be.and_(sh.t, be.const(x.w - 1, sh.w), sh.w), sh.w, x.w, False)
            r = Int(be.shl(x.t, amt, x.w), x.w, x.signed)
        else:
            y = _w(b)
            r = Int({"mul": be.mul, "add": be.add, "sub": be.sub, "xor": be.xor, "or": be.or_, "and": be.and_}[op](x.t, y.t, x.w), x.w, x.signed)
        if assign:
            a.f[0] = r
            return Unit()
        return Tup([r], "Wrapping")
    return f


WRAPPING_MODELS = {
    r"^<Wrapping<i64> as MulAssign>::mul_assign$": m_wrapping("mul", True),
    r"^<Wrapping<i64> as AddAssign>::add_assign$": m_wrapping("add", True),
    r"^<Wrapping<i64> as BitXorAssign>::bitxor_assign$": m_wrapping("xor", True),
    r"^<Wrapping<i64> as Mul>::mul$": m_wrapping("mul", False),
    r"^<Wrapping<i64> as Add>::add$": m_wrapping("add", False),
    r"^<Wrapping<i64> as BitXor>::bitxor$": m_wrapping("xor", False),
    r"^<Wrapping<i64> as Shl<usize>>::shl$": m_wrapping("shl", False),
}


# ----------------------------------------------------------------------------- Range<usize> / Rev<Range<usize>>
def m_range_rev(it, p, callee, args):
    return Tup([args[0]], "Rev")


def _sval(x):
    """concrete value of an Int, honouring signedness"""
    v = _cint(x)
    if x.signed and v >= (1 << (x.w - 1)):
        v -= 1 << x.w
    return v


def _mk_like(it, x, v):
    return Int(it.be.const(v, x.w), x.w, x.signed)


def m_rev_range_next(it, p, callee, args):
    rev = deref(args[0])
    rng = rev.f[0]
    lo, hi = _sval(rng.f[0]), _sval(rng.f[1])
    if lo < hi:
        rng.f[1] = _mk_like(it, rng.f[1], hi - 1)
        return some(it, _mk_like(it, rng.f[1], hi - 1))
    return none(it)


def m_range_next(it, p, callee, args):
    rng = deref(args[0])
    lo, hi = _sval(rng.f[0]), _sval(rng.f[1])
    if lo < hi:
        rng.f[0] = _mk_like(it, rng.f[0], lo + 1)
        return some(it, _mk_like(it, rng.f[0], lo))
    return none(it)


RANGE_MODELS = {
    r"^<std::ops::Range<[iu]\w+> as Iterator>::rev$": m_range_rev,
    r"^<Rev<std::ops::Range<[iu]\w+>> as IntoIterator>::into_iter$": m_identity,
    r"^<std::ops::Range<[iu]\w+> as IntoIterator>::into_iter$": m_identity,
    r"^<Rev<std::ops::Range<[iu]\w+>> as Iterator>::next$": m_rev_range_next,
    r"^<std::ops::Range<[iu]\w+> as Iterator>::next$": m_range_next,
}

SLICE_MODELS = {
    r"^<\[u8; \d+\] as (?:std::ops::)?IndexMut<.*>>::index_mut$": m_array_index_range,
    r"^<\[u8; \d+\] as (?:std::ops::)?Index<.*>>::index$": m_array_index_range,
    r"^<\[u8\] as (?:std::ops::)?Index<.*>>::index$": m_array_index_range,
    r"^<\[u8\] as (?:std::ops::)?IndexMut<.*>>::index_mut$": m_array_index_range,
    r"core::slice::<impl \[u8\]>::copy_from_slice$": m_copy_from_slice,
    r"^<&\[u8\] as Buf>::advance$": m_buf_advance,
    r"^<&\[u8\] as Buf>::get_i64_le$": m_buf_get_int(8, True, True),
    r"^<&\[u8\] as Buf>::get_i64$": m_buf_get_int(8, False, True),
    r"^<usize as Ord>::min$": m_usize_min, r"^std::cmp::min::<usize>$": m_usize_min,
}


# ----------------------------------------------------------------------------- integer conversions
def m_int_from(it, p, callee, args):
    m = re.match(r"<(\w+) as From<(\w+)>>::from$", callee) or re.match(r"<(\w+) as Into<(\w+)>>::into$", callee)
    if not m:
        raise Unsupported("int conversion " + callee)
    dst = m.group(1) if "From<" in callee else m.group(2)
    a = args[0]
    if isinstance(a, Bool):
        a = Int(it.be.ite(a.t, it.be.const(1, 8), it.be.const(0, 8)), 8, False)
    w, s = mir.INT_TYPES[dst]
    return Int(it.be.resize(a.t, a.w, w, a.signed), w, s)


INT_MODELS = {
    r"^<[iu](8|16|32|64|128|size) as From<([iu](8|16|32|64|128|size)|bool)>>::from$": m_int_from,
    r"^<[iu](8|16|32|64|128|size) as Into<[iu](8|16|32|64|128|size)>>::into$": m_int_from,
}


# ----------------------------------------------------------------------------- Vec<u8> / BufMut byte sink
def sink_items(ref):
    s = deref(ref)
    if not isinstance(s, Seq):
        raise Unsupported(f"byte sink expected, got {s}")
    return s.items


def be_bytes(it, v, nbytes):
    out = []
    for k in reversed(range(nbytes)):
        out.append(Int(z3.Extract(8 * k + 7, 8 * k, v.t), 8, False))
    return out


def m_put_int(nbytes):
    def f(it, p, callee, args):
        sink, v = args
        if v.w != 8 * nbytes:
            v = Int(it.be.resize(v.t, v.w, 8 * nbytes, v.signed), 8 * nbytes, v.signed)
        sink_items(sink).extend(be_bytes(it, v, nbytes))
        return Unit()
    return f


def m_put_slice(it, p, callee, args):
    sink, sl = args
    if isinstance(sl, Ref):
        tgt = deref(sl)
        items = list(elems(tgt))
    else:
        items = slice_items(sl)
    sink_items(sink).extend(items)
    return Unit()


def m_vec_from_elem(it, p, callee, args):
    v, n = args
    return Seq([mir.copy_value(v) for _ in range(_cint(n))])


def m_vec_index_mut_usize(it, p, callee, args):
    vec, idx = args
    k = _cint(idx)
    if k >= len(sink_items(vec)):
        raise mir.Panic(f"index {k} out of bounds")
    return Ref(vec.cell, vec.path + (("index_const", k),))


def m_vec_len(it, p, callee, args):
    return it.const_int(len(sink_items(args[0])), "usize")


def m_to_be_bytes(it, p, callee, args):
    v = args[0]
    return Tup(be_bytes(it, v, v.w // 8), "array")


def m_try_into_int(it, p, callee, args):
    m = re.match(r"<(\w+) as TryInto<(\w+)>>::try_into$", callee) or re.match(r"<(\w+) as TryFrom<(\w+)>>::try_from$", callee)
    src, dst = (m.group(1), m.group(2)) if "TryInto" in callee else (m.group(2), m.group(1))
    v = args[0]
    w, s = mir.INT_TYPES[dst]
    be = it.be
    # fits iff the value is within the destination range (source is unsigned usize / signed handled generically)
    if v.signed:
        lo = be.const(-(1 << (w - 1)) if s else 0, v.w)
        hi = be.const((1 << (w - 1)) - 1 if s else (1 << w) - 1, v.w) if w < v.w or s else None
        fits = be.sle(lo, v.t, v.w) if hi is None else z3.And(be.sle(lo, v.t, v.w), be.sle(v.t, hi, v.w))
    else:
        maxv = (1 << (w - 1)) - 1 if s else (1 << w) - 1
        fits = z3.BoolVal(True) if maxv >= (1 << v.w) - 1 else be.ule(v.t, be.const(maxv, v.w), v.w)
    d = be.ite(fits, be.const(0, 64), be.const(1, 64))
    return Enum(Int(d, 64, True), {0: Tup([Int(be.resize(v.t, v.w, w, v.signed), w, s)]), 1: Tup([Opaque("TryFromIntError")])}, RESULT, "Result")


def m_str_as_bytes(it, p, callee, args):
    """&str modelled here as a byte Slice already (request texts are opaque bytes)"""
    return args[0]


def m_option_is_some_generic(it, p, callee, args):
    o = deref(args[0]) if isinstance(args[0], Ref) else args[0]
    return Bool(it.be.eq(o.discr.t, it.be.const(1, o.discr.w), o.discr.w))


BUFMUT_MODELS = {
    r"BufMut>::put_u8$": m_put_int(1), r"BufMut>::put_i8$": m_put_int(1),
    r"BufMut>::put_u16$": m_put_int(2), r"BufMut>::put_i16$": m_put_int(2),
    r"BufMut>::put_u32$": m_put_int(4), r"BufMut>::put_i32$": m_put_int(4),
    r"BufMut>::put_u64$": m_put_int(8), r"BufMut>::put_i64$": m_put_int(8),
    r"BufMut>::put_slice$": m_put_slice, r"BufMut>::put::<&\[u8\]>$": m_put_slice,
    r"^Vec::<u8>::extend_from_slice$": m_put_slice,
    r"^std::vec::from_elem::<u8>$": m_vec_from_elem,
    r"^<Vec<u8> as (?:std::ops::)?IndexMut<usize>>::index_mut$": m_vec_index_mut_usize,
    r"^<Vec<u8> as (?:std::ops::)?IndexMut<(?:std::ops::)?Range<usize>>>::index_mut$": m_array_index_range,
    r"^<Vec<u8> as (?:std::ops::)?Index<(?:std::ops::)?Range\w*<usize>>>::index$": m_array_index_range,
    r"^Vec::<u8>::len$": m_vec_len,
    r"core::num::<impl [iu]\d+>::to_be_bytes$": m_to_be_bytes,
    r"^<usize as TryInto<[iu]\d+>>::try_into$": m_try_into_int,
    r"^<(?:std::result::)?Result<.*> as Try>::branch$": m_result_branch,
    r" as FromResidual<(?:std::result::)?Result<(?:std::convert::)?Infallible, .*>>>::from_residual$": m_result_from_residual,
    r"core::str::<impl str>::as_bytes$": m_str_as_bytes,
    r"^Option::<.*>::is_some$": m_option_is_some_generic,
}


# ----------------------------------------------------------------------------- slice iterators over Seq, strings as opaque constants
def m_vec_ref_into_iter(it, p, callee, args):
    return Tup([args[0], it.const_int(0, "usize")], "SliceIter")


def m_slice_iter_next(it, p, callee, args):
    itv = deref(args[0])
    seq_ref = itv.f[0]
    pos = _cint(itv.f[1])
    items = elems(deref(seq_ref))
    if pos >= len(items):
        return none(it)
    itv.f[1] = it.const_int(pos + 1, "usize")
    return some(it, Ref(seq_ref.cell, seq_ref.path + (("index_const", pos),)))


def pstr(s):
    """a concrete string value (field / type names): compared by content"""
    return Opaque('str:"' + s + '"')


def m_str_eq(it, p, callee, args):
    a, b = args
    a = deref(a) if isinstance(a, Ref) else a
    b = deref(b) if isinstance(b, Ref) else b
    if isinstance(a, Opaque) and isinstance(b, Opaque) and a.name.startswith("str:") and b.name.startswith("str:"):
        return Bool(z3.BoolVal(a.name == b.name))
    raise Unsupported(f"string comparison of non-concrete strings {a} {b}")


def m_opaque(name):
    return lambda it, p, c, a: Opaque(name)


def m_result_unwrap(it, p, callee, args):
    r = args[0]
    d = z3.simplify(r.discr.t)
    if (z3.is_bv_value(d) or z3.is_int_value(d)) and d.as_long() == 0:
        return r.payloads[0].f[0] if 0 in r.payloads and r.payloads[0].f else Unit()
    q = fork(p)
    q.pc.append(r.discr.t != 0)
    out = []
    if it.feasible(q.pc):
        q.outcome = ("panic", "called `Result::unwrap()` on an `Err` value")
        out.append((q, PANIC))
    p.pc.append(r.discr.t == 0)
    out.append((p, r.payloads[0].f[0] if 0 in r.payloads and r.payloads[0].f else Unit()))
    return out
